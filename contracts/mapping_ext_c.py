"""Sidecar contracts for the text side of the 3D -> 2D mapping of rnapolis/tertiary.py (C06, second part):
Mapping2D3D.extended_dot_bracket (the per-Leontis-Westhof-class rows), __generate_dot_bracket_per_strand, strands_sequences,
dot_bracket, all_dot_brackets and the bpseq wrapper.  The vocabulary (spec functions, class model of residues / pairs, the
contracts of __generate_bpseq, base_pairs, is_connected) is that of contracts/mapping_c.py, imported unchanged.

Modelling decisions of this sidecar (each listed in props/C06.py ASSUMPTIONS / TRUSTED)
  * `rows` / `used_in_row` of extended_dot_bracket hold list / set OBJECTS that are aliased by the loop variables `row` / `used`
    (row.append / used.add act on an element of rows / used_in_row): classes PairRow ("boxed_list") and ResSet ("boxed_set"),
    one heap object per `[]` / `set()` display, content in a heap field.
  * LeontisWesthof is used here as the real Enum class (the loop `for lw in LeontisWesthof` runs over its members in definition
    order, `lw.value` is the member's real value string): the field `lw` of BasePair / BasePair3D is declared
    `enum[LeontisWesthof]` (the member's ordinal), ENUM_ORDINAL_EQ: `base_pair.lw == lw` compares ordinals.  The callee contracts
    taken from mapping_c (proved there with `lw` an interned object) never read `lw`.
  * cached properties read by the code under contract are model fields of the unchanged object (the cached_property rule used
    for base_pairs in mapping_c): strands_sequences -> strands_value, bpseq -> bpseq_value; BpSeq.dot_bracket /
    BpSeq.all_dot_brackets (common.py, C02 / C16) -> fields dot_bracket / all_dot_brackets of the BpSeq object, about whose text
    nothing is assumed.
  * strands_sequences (body, prefix contract strands_body): the lists inside the tuples of `result` are values written back through
    the access path `result[-1][1]` (no alias of them exists); __generate_bpseq@numbering restates the numbering rule of the BPSEQ
    over its locals; lemma same_numbering joins the two.  all_dot_brackets / dot_bracket: full contracts, the final
    "\\n".join(lines) is the ASSUMED external str.join (uninterpreted function of the list).
  * Mapping2D3D.strand_offsets is a specification-only field: `offsets_ok` pins it to the prefix sums of the strand lengths
    (always satisfiable; restricts no input).
"""
from contracts import mapping_c as _M
from contracts.mapping_c import UFUNS, PURE_ATTRS  # noqa: F401

__file_spec__ = [_M.__file__, __file__]


def spec(f):
    return f


def _ext_join(e, args, kw, node, st):
    """ASSUMED contract of "\\n".join(L) for a list L of str: a str that is a deterministic function of the list (uninterpreted
    py_join of length and element array).  Nothing else about the text is assumed."""
    import z3 as _z3
    from pyvc.values import Unsupported, VList, to_z3
    if len(args) != 2 or kw or args[0] != "\n" or not isinstance(args[1], VList) or args[1].elems is None or args[1].eshape != ("str",):
        raise Unsupported('str.join: only "\\n".join(<list of str>) is modelled')
    L = args[1]
    f = e.ufun("py_join", _z3.IntSort(), _z3.ArraySort(_z3.IntSort(), _z3.StringSort()), _z3.StringSort())
    return f(to_z3(L.length), L.elems)


_ext_join.pure = True

EXTERNALS = dict(_M.EXTERNALS, **{"str.join": _ext_join,
                                  "spec.join_nl": lambda e, args, kw, node, st: _ext_join(e, ["\n"] + list(args), kw, node, st)})
SPEC_EXTERNALS = {"join_nl": "spec.join_nl"}

CLASSES = {k: dict(v) for k, v in _M.CLASSES.items() if k != "LeontisWesthof"}
CLASSES["BasePair"] = {"kind": "record", "fields": dict(_M.CLASSES["BasePair"]["fields"], lw="enum[LeontisWesthof]")}
CLASSES["BasePair3D"] = {"kind": "record", "fields": dict(_M.CLASSES["BasePair3D"]["fields"], lw="enum[LeontisWesthof]")}
CLASSES["Mapping2D3D"] = {"kind": "object", "fields": dict(_M.CLASSES["Mapping2D3D"]["fields"],
                                                          strands_value="list[tuple[str,str]]", strand_offsets="list[int]",
                                                          bpseq_value="BpSeq")}
CLASSES["DotBracket"] = {"kind": "object", "fields": {"structure": "str"}}
CLASSES["BpSeq"] = {"kind": "object", "fields": {"entries": "list[Entry]", "dot_bracket": "DotBracket", "all_dot_brackets": "list[DotBracket]"},
                    "derived": ["dot_bracket", "all_dot_brackets"]}
CLASSES["PairRow"] = {"kind": "object", "boxed_list": "items", "fields": {"items": "list[rec[BasePair3D]]"}}
CLASSES["ResSet"] = {"kind": "object", "boxed_set": "members", "fields": {"members": "set[Residue3D]"}}

INLINE = list(_M.INLINE)
PRUNE_BRANCHES = False
STABLE_BINDERS = True
ENUM_ORDINAL_EQ = True

_S = "self.strands_value"
_OFF = "self.strand_offsets"
_BP = "self.base_pairs_value"
_R = "self.structure3d.residues"


# ------------------------------------------------------------------------------------------------ vocabulary
@spec
def offsets_ok(m):
    """strand_offsets[t] = total length of the strands before strand t (prefix sums; one more entry than strands)"""
    return (len(m.strand_offsets) == len(m.strands_value) + 1 and m.strand_offsets[0] == 0
            and forall(lambda t: implies(0 <= t and t < len(m.strands_value),
                                         m.strand_offsets[t + 1] == m.strand_offsets[t] + len(m.strands_value[t][1]))))


@spec
def piece(m, text, t):
    """the part of `text` that belongs to strand t: as long as the strand's sequence, starting where the previous strands end"""
    return text[m.strand_offsets[t]:m.strand_offsets[t] + len(m.strands_value[t][1])]


@spec
def wanted(x, lw):
    """the pairs extended_dot_bracket draws in the rows of class lw: that class, read in 5'->3' orientation"""
    return x.lw == lw and x.nt1 < x.nt2


@spec
def rows_distinct(RW, US):
    return (len(RW) == len(US) and len(RW) >= 0
            and forall(lambda a, b: implies(0 <= a and a < b and b < len(RW), RW[a] != RW[b] and US[a] != US[b])))


@spec
def rows_allocated(RW, US, lo):
    """the row / set objects were created after the point where the frontier was `lo`"""
    return forall(lambda a: implies(0 <= a and a < len(RW), lo <= ident(RW[a]) and ident(RW[a]) < frontier()
                                    and lo <= ident(US[a]) and ident(US[a]) < frontier()))


@spec
def rows_matching(RW):
    """every row is a matching over the 3D residues: no residue occurs in two of its pairs, no pair joins a residue with itself"""
    return forall(lambda a: implies(0 <= a and a < len(RW), len(RW[a].items) >= 1 and matching(RW[a].items)))


@spec
def rows_covered(RW, US):
    """the set kept beside a row holds every residue the row's pairs touch"""
    return forall(lambda a, q: implies(0 <= a and a < len(RW) and 0 <= q and q < len(RW[a].items),
                                       RW[a].items[q].nt1_3d in US[a].members and RW[a].items[q].nt2_3d in US[a].members))


@spec
def rows_from(RW, BP, c, lw):
    """every pair in a row is one of the first c given pairs and is wanted for this class"""
    return forall(lambda a, q: implies(0 <= a and a < len(RW) and 0 <= q and q < len(RW[a].items),
                                       exists(lambda p: 0 <= p and p < c and BP[p] == RW[a].items[q] and wanted(BP[p], lw))))


@spec
def rows_hold(RW, BP, c, lw):
    """every wanted pair among the first c given pairs is in some row"""
    return forall(lambda p: implies(0 <= p and p < c and wanted(BP[p], lw),
                                    exists(lambda a, q: 0 <= a and a < len(RW) and 0 <= q and q < len(RW[a].items) and RW[a].items[q] == BP[p])))


@spec
def rows_hold_at(RW, BP, c, lw, ROWOF, POSOF):
    """rows_hold with the witnesses named: wanted pair p sits in row ROWOF[p] at position POSOF[p]"""
    return forall(lambda p: implies(0 <= p and p < c and wanted(BP[p], lw),
                                    0 <= ROWOF[p] and ROWOF[p] < len(RW) and 0 <= POSOF[p] and POSOF[p] < len(RW[ROWOF[p]].items)
                                    and RW[ROWOF[p]].items[POSOF[p]] == BP[p]))


@spec
def rows_once(RW):
    """no pair is drawn twice (neither in two rows nor twice in one)"""
    return forall(lambda a, q, a2, q2: implies(0 <= a and a < len(RW) and 0 <= q and q < len(RW[a].items)
                                               and 0 <= a2 and a2 < len(RW) and 0 <= q2 and q2 < len(RW[a2].items)
                                               and not (a == a2 and q == q2),
                                               RW[a].items[q] != RW[a2].items[q2]))


@spec
def table_ok(T, m):
    """the table of output lines: one block per strand, headed by the strand's name and sequence; all blocks equally long"""
    return (len(T) == len(m.strands_value)
            and forall(lambda t: implies(0 <= t and t < len(T),
                                         len(T[t]) >= 2 and len(T[t]) == len(T[0])
                                         and T[t][0] == "    >strand_" + m.strands_value[t][0]
                                         and T[t][1] == "seq " + m.strands_value[t][1])))


@spec
def table_lines(T, LBL, PCS):
    """... and line 2 + k of every block is the label of printed row k, a blank, and the strand's piece PCS[k][t] of that row's text"""
    return (len(LBL) == len(PCS) and len(LBL) >= 0
            and forall(lambda t: implies(0 <= t and t < len(T), len(T[t]) == 2 + len(LBL)))
            and forall(lambda t, j: implies(0 <= t and t < len(T) and 2 <= j and j < 2 + len(LBL), T[t][j] == LBL[j - 2] + " " + PCS[j - 2][t])))


@spec
def pieces_ok(m, PCS, TXT):
    """the pieces of printed row k are the slices of its text TXT[k], cut at the strand lengths"""
    return (len(PCS) == len(TXT)
            and forall(lambda k, t: implies(0 <= k and k < len(PCS) and 0 <= t and t < len(m.strands_value),
                                            len(PCS[k]) == len(m.strands_value) and PCS[k][t] == piece(m, TXT[k], t))))


@spec
def texts_ok(TXT, RB):
    """the text of printed row k is the dot-bracket structure of the BPSEQ object RB[k], which is a valid BPSEQ (pairs in range,
    symmetric: no index carries two partners)"""
    return (len(RB) == len(TXT)
            and forall(lambda k: implies(0 <= k and k < len(TXT), TXT[k] == RB[k].dot_bracket.structure and valid(RB[k].entries))))


@spec
def grown(T, T0, i, lab, D):
    """blocks 0..i-1 of T are those of T0 with the line `lab D[t]` added at the end; the other blocks are unchanged"""
    return (len(T) == len(T0)
            and forall(lambda t: implies(0 <= t and t < len(T), len(T[t]) == len(T0[t]) + ite(t < i, 1, 0)))
            and forall(lambda t: implies(0 <= t and t < i and t < len(T), T[t][len(T0[t])] == lab + " " + D[t]))
            and forall(lambda t, j: implies(0 <= t and t < len(T) and 0 <= j and j < len(T0[t]), T[t][j] == T0[t][j])))


# ------------------------------------------------------------------------------------------------ callee contracts
class strands_callee:
    """Mapping2D3D.strands_sequences as seen by its callers: the ASSUMED cached_property rule (its value is the model field
    strands_value of the unchanged object)."""
    target = "Mapping2D3D.strands_sequences"
    params = {"self": "Mapping2D3D"}
    requires = []
    returns = "list[tuple[str,str]]"
    ensures = ["result == self.strands_value"]
    raises = []
    modifies = []


# `xs.append(..)` on a plain list is, syntactically, a possible write to a list object: these loops write none
_NO_ROW_WRITES = {"PairRow.items": [], "ResSet.members": []}
_NEW_ROWS = ["PairRow.items", "ResSet.members"]


class per_strand:
    """the per-strand texts are the slices of the whole text cut at the strand lengths"""
    target = "Mapping2D3D.__generate_dot_bracket_per_strand"
    params = {"self": "Mapping2D3D", "dbn_structure": "str"}
    requires = ["offsets_ok(self)"]
    returns = "list[str]"
    ensures = [f"len(result) == len({_S})",
               f"forall(lambda t: implies(0 <= t and t < len({_S}), result[t] == piece(self, dbn_structure, t)))"]
    ensures_labels = {0: "one-text-per-strand", 1: "text-is-the-strand's-slice"}
    raises = []
    modifies = []
    locals = {"result": "list[str]"}
    loops = {0: {"index": "c", "touches": _NO_ROW_WRITES, "inv": [f"i == {_OFF}[c]", "len(result) == c",
                                       "forall(lambda t: implies(0 <= t and t < c, result[t] == piece(self, dbn_structure, t)))"]}}


class extended:
    """PREFIX contract: everything up to (not including) the final join of the table of lines."""
    target = "Mapping2D3D.extended_dot_bracket"
    params = {"self": "Mapping2D3D"}
    requires = [f"distinct_nucleotides({_R})", "no_self_pairs(self)", "offsets_ok(self)"]
    stop_before = "return '\\n'.join("
    ensures = []
    # TABLE: the local `result` (the name `result` is taken in clauses); LBL / TXT / RB: ghost lists, one entry per printed row
    stop_ensures = ["table_ok(TABLE, self)", "table_lines(TABLE, LBL, PCS)", "pieces_ok(self, PCS, TXT)", "texts_ok(TXT, RB)"]
    stop_ensures_labels = {0: "table-of-lines", 1: "row-lines-are-label-and-piece", 2: "pieces-are-the-strand-slices", 3: "row-text-is-from-a-valid-bpseq"}
    raises = []
    modifies = []
    locals = {"rows": "list[PairRow]", "used_in_row": "list[ResSet]", "row": "PairRow", "used": "ResSet",
              "result": "list[list[str]]"}
    _ROWS = ["rows_distinct(rows, used_in_row)", "rows_matching(rows)", "rows_covered(rows, used_in_row)"]
    loops = {
        # for lw in LeontisWesthof
        0: {"index": "c0", "allocates": _NEW_ROWS, "inv": ["table_ok(result, self)", "table_lines(result, LBL, PCS)", "pieces_ok(self, PCS, TXT)", "texts_ok(TXT, RB)"]},
        # for base_pair in self.base_pairs
        1: {"index": "c1", "allocates": _NEW_ROWS, "frontier": "A1",
            "labels": {0: "row-objects-distinct", 1: "row-objects-new", 2: "every-row-is-a-matching", 3: "used-set-covers-its-row",
                       4: "rows-hold-only-wanted-given-pairs", 5: "every-wanted-pair-is-in-a-row", 6: "no-pair-drawn-twice"},
            "inv": ["rows_distinct(rows, used_in_row)", "rows_allocated(rows, used_in_row, A1)", "rows_matching(rows)",
                                   "rows_covered(rows, used_in_row)",
                                   f"rows_from(rows, {_BP}, c1, lw)", f"rows_hold_at(rows, {_BP}, c1, lw, ROWOF, POSOF)", "rows_once(rows)"]},
        # for row, used in zip(rows, used_in_row)
        2: {"index": "c2", "inv": ["c2 >= 0"]},
        # for row in rows
        3: {"index": "c3", "touches": _NO_ROW_WRITES, "labels": {0: "table-of-lines", 1: "every-row-is-a-matching"}, "inv": ["table_ok(result, self)", "rows_matching(rows)", "table_lines(result, LBL, PCS)", "pieces_ok(self, PCS, TXT)", "texts_ok(TXT, RB)"]},
        # for i in range(len(self.strands_sequences))
        4: {"touches": _NO_ROW_WRITES, "inv": ["grown(result, T0, i, lw.value, dbns)"]},
    }
    ghost = [
        {"when": "before", "at": "for base_pair in self.base_pairs", "label": "frontier",
         "do": [f"let ROWOF = fill(len({_BP}), 0)", f"let POSOF = fill(len({_BP}), 0)"]},
        {"when": "after", "at": "for base_pair in self.base_pairs", "label": "every-wanted-pair-is-in-a-row",
         "do": [f"assert rows_hold(rows, {_BP}, len({_BP}), lw)"]},
        {"when": "before", "at": "row.append(base_pair)", "label": "witness",
         "do": ["assert A1 <= ident(row) and ident(row) < frontier() and A1 <= ident(used) and ident(used) < frontier()",
                "let ROWOF = upd(ROWOF, c1, c2)", "let POSOF = upd(POSOF, c1, len(row.items))"]},
        {"when": "before", "at": "return '\\n'.join(", "label": "table", "do": ["let TABLE = result"]},
        {"when": "after", "at": "for row, used in zip(", "label": "the-row-chosen",
         "do": ["assert 0 <= c2 and c2 < len(rows) and rows[c2] == row and used_in_row[c2] == used"]},
        {"when": "after", "at": "for row, used in zip(", "label": "both-residues-free-in-the-chosen-row",
         "do": ["assert not (base_pair.nt1_3d in used.members) and not (base_pair.nt2_3d in used.members)"]},
        {"when": "before", "at": "for lw in LeontisWesthof", "label": "no-rows-yet",
         "do": ["let LBL = empty('list[str]')", "let TXT = empty('list[str]')", "let RB = empty('list[BpSeq]')", "let PCS = empty('list[list[str]]')"]},
        {"when": "before", "at": "for i in range(len(self.strands_sequences))", "label": "table-before", "do": ["let T0 = result"]},
        {"when": "after", "at": "for i in range(len(self.strands_sequences))", "label": "row-printed",
         "do": ["assert forall(lambda t: implies(0 <= t and t < len(result), len(T0[t]) == 2 + len(LBL) and len(result[t]) == 3 + len(LBL)))",
                "assert forall(lambda t: implies(0 <= t and t < len(result), result[t][2 + len(LBL)] == lw.value + ' ' + dbns[t]))",
                "assert forall(lambda t, j: implies(0 <= t and t < len(result) and 2 <= j and j < 2 + len(LBL), result[t][j] == LBL[j - 2] + ' ' + PCS[j - 2][t]))",
                "let LBL = snoc(LBL, lw.value)", "let PCS = snoc(PCS, dbns)",
                "assert len(LBL) == len(PCS) and len(LBL) >= 1",
                "assert forall(lambda t: implies(0 <= t and t < len(result), len(result[t]) == 2 + len(LBL)))",
                "assert forall(lambda t, j: implies(0 <= t and t < len(result) and 2 <= j and j < 1 + len(LBL), result[t][j] == LBL[j - 2] + ' ' + PCS[j - 2][t]))",
                "assert forall(lambda t, j: implies(0 <= t and t < len(result) and j == 1 + len(LBL), result[t][j] == LBL[j - 2] + ' ' + PCS[j - 2][t]))",
                "assert_last 4 table_lines(result, LBL, PCS)",
                "let TXT = snoc(TXT, bpseq.dot_bracket.structure)",
                "assert pieces_ok(self, PCS, TXT)",
                "let RB = snoc(RB, bpseq)",
                "assert texts_ok(TXT, RB)",
                "assert table_ok(result, self)"]},
    ]


# ------------------------------------------------------------------------------------------------ bpseq wrapper, dot_bracket
_E = "result.entries"


class bpseq_callee:
    """Mapping2D3D.bpseq as seen by its callers: the value is the model field bpseq_value (ASSUMED cached_property rule); the
    clauses about the entries are proved against the body as Mapping2D3D.bpseq@body."""
    target = "Mapping2D3D.bpseq"
    params = {"self": "Mapping2D3D"}
    requires = [f"distinct_nucleotides({_R})", "no_self_pairs(self)"]
    returns = "BpSeq"
    ensures = ["result == self.bpseq_value",
               f"forall(lambda i: implies(0 <= i and i < len({_E}), {_E}[i].index_ == i + 1))", f"valid({_E})"]
    raises = []
    modifies = []


class bpseq_body(_M.generated_bpseq_data):
    """the wrapper re-runs the conflict-resolution loop on locals it never uses again and returns the first component of
    _generated_bpseq_data (contract proved in contracts/mapping_c.py): the loop must terminate and raise nothing, the result is a
    numbered, valid BPSEQ"""
    target = "Mapping2D3D.bpseq"
    returns = "BpSeq"
    ensures = bpseq_callee.ensures[1:]
    ensures_labels = {0: "numbered-1..N", 1: "valid-symmetric-matching"}
    ghost = [g for g in _M.generated_bpseq_data.ghost if g.get("label") != "final"]
    loops = {k: dict(v, touches=_NO_ROW_WRITES) for k, v in _M.generated_bpseq_data.loops.items()}
    # (the locals are dead here: the invariant that speaks about what the resolution keeps is not needed for termination / safety)
    loops[0] = dict(loops[0], inv=[t for t in loops[0]["inv"] if not t.startswith("removed_conflicted")])


class dot_bracket:
    """the text is the newline-join of the lines (ghost result LINES), which are, strand by strand, the header, the strand's
    sequence and the strand's slice of the dot-bracket text of self.bpseq"""
    target = "Mapping2D3D.dot_bracket"
    params = {"self": "Mapping2D3D"}
    requires = [f"distinct_nucleotides({_R})", "no_self_pairs(self)", "offsets_ok(self)"]
    returns = "str"
    ghost_returns = {"LINES": "list[str]"}
    ensures = ["result == join_nl(LINES)",
               f"len(LINES) == 3 * len({_S})",
               f"forall(lambda t: implies(0 <= t and t < len({_S}), LINES[3 * t] == '>strand_' + {_S}[t][0] and LINES[3 * t + 1] == {_S}[t][1]"
               f" and LINES[3 * t + 2] == piece(self, self.bpseq_value.dot_bracket.structure, t)))"]
    ensures_labels = {0: "text-is-the-join-of-its-lines", 1: "three-lines-per-strand", 2: "header-sequence-slice"}
    raises = []
    modifies = []
    locals = {"result": "list[str]"}
    loops = {0: {"index": "c", "touches": _NO_ROW_WRITES,
                 "inv": ["len(result) == 3 * c",
                         f"forall(lambda t: implies(0 <= t and t < c, result[3 * t] == '>strand_' + {_S}[t][0] and result[3 * t + 1] == {_S}[t][1]"
                         f" and result[3 * t + 2] == piece(self, self.bpseq_value.dot_bracket.structure, t)))"]}}
    ghost = [{"when": "before", "at": "return '\\n'.join(result)", "label": "lines", "do": ["let LINES = result"]},
             {"when": "before", "at": "result.append(f'>strand_{chain}')", "label": "lines-before", "do": ["let R0 = result"]},
             {"when": "after", "at": "result.append(dbns[i])", "label": "three-lines-added",
              "do": ["assert len(result) == len(R0) + 3 and forall(lambda j: implies(0 <= j and j < len(R0), result[j] == R0[j]))",
                     f"assert result[3 * c] == '>strand_' + {_S}[c][0] and result[3 * c + 1] == {_S}[c][1]"
                     f" and result[3 * c + 2] == piece(self, self.bpseq_value.dot_bracket.structure, c)"]}]


# ------------------------------------------------------------------------------------------------ strands_sequences (body)
# Ghost vocabulary of the proof (every quantified variable is an array index):
#   FLAT  the concatenation of the strands' piece lists, in order (list of str)         OFF[t]  where strand t starts in FLAT
#   POS[k] the position in FLAT of the k-th nucleotide                                    ST[k]   the strand holding it
#   KOF[p] the nucleotide whose name stands at position p of FLAT, -1 at a placeholder
@spec
def flat_offsets(R, OFF):
    """OFF = prefix sums of the strands' lengths"""
    return (len(R) >= 1 and len(OFF) == len(R) and OFF[0] == 0
            and forall(lambda t: implies(0 <= t and t < len(R) - 1, OFF[t + 1] == OFF[t] + len(R[t][1]))))


@spec
def flat_total(R, OFF, FLAT):
    return len(FLAT) == OFF[len(R) - 1] + len(R[len(R) - 1][1])


@spec
def flat_bounded(R, OFF, FLAT):
    """every strand lies inside FLAT (a consequence of the prefix sums, kept as its own clause: it needs an induction)"""
    return forall(lambda t: implies(0 <= t and t < len(R), 0 <= OFF[t] and OFF[t] + len(R[t][1]) <= len(FLAT)))


@spec
def flat_nonempty(R):
    """no strand is empty"""
    return forall(lambda t: implies(0 <= t and t < len(R), len(R[t][1]) >= 1))


@spec
def flat_pieces(R, OFF, FLAT):
    """FLAT = the strands' pieces one after the other"""
    return forall(lambda t, j: implies(0 <= t and t < len(R) and 0 <= j and j < len(R[t][1]), R[t][1][j] == FLAT[OFF[t] + j]))


@spec
def strands_flat(R, OFF, FLAT):
    return flat_offsets(R, OFF) and flat_total(R, OFF, FLAT) and flat_bounded(R, OFF, FLAT) and flat_nonempty(R) and flat_pieces(R, OFF, FLAT)


@spec
def strands_placed(NU, i, R, OFF, POS, ST):
    """nucleotide k < i lies in strand ST[k], whose chain is its chain, at flat position POS[k]"""
    return (len(POS) == i and len(ST) == i
            and forall(lambda k: implies(0 <= k and k < i, 0 <= ST[k] and ST[k] < len(R) and R[ST[k]][0] == NU[k].chain
                                         and OFF[ST[k]] <= POS[k] and POS[k] < OFF[ST[k]] + len(R[ST[k]][1]))))


@spec
def strands_names(NU, i, FLAT, POS, KOF):
    """position POS[k] of FLAT holds the one-letter name of nucleotide k; every other position holds the placeholder '?'"""
    return (len(KOF) == len(FLAT)
            and forall(lambda k: implies(0 <= k and k < i, 0 <= POS[k] and POS[k] < len(FLAT)
                                         and FLAT[POS[k]] == NU[k].one_letter_name and KOF[POS[k]] == k))
            and forall(lambda p: implies(0 <= p and p < len(FLAT) and KOF[p] < 0, FLAT[p] == "?"))
            and forall(lambda p: implies(0 <= p and p < len(FLAT) and KOF[p] >= 0, KOF[p] < i and POS[KOF[p]] == p)))


@spec
def strands_spacing(m, NU, i, POS):
    """the BPSEQ numbering rule (nucs_spacing of __generate_bpseq, 0-based): the first nucleotide stands at 0, consecutive
    nucleotides are separated by exactly gapcount placeholders"""
    return (POS[0] == 0
            and forall(lambda a, b: implies(0 <= a and b == a + 1 and b < i, POS[b] == POS[a] + 1 + gapcount(m, NU[a], NU[b])),
                       pats=[["ident(NU[a])", "ident(NU[b])"]]))


@spec
def strands_runs(NU, i, ST):
    """a new strand starts exactly where the chain changes between consecutive nucleotides"""
    return (ST[0] == 0
            and forall(lambda a, b: implies(0 <= a and b == a + 1 and b < i, ST[b] == ST[a] + ite(NU[b].chain != NU[a].chain, 1, 0)),
                       pats=[["ident(NU[a])", "ident(NU[b])"]]))


class strands_body:
    """PREFIX contract (up to the final comprehension that joins every strand's pieces): the body of strands_sequences.
    `result` holds one (chain, list of pieces) entry per maximal run of nucleotides of one chain, in file order; the pieces are
    the one-letter names with exactly gapcount '?' placeholders between consecutive nucleotides - the numbering rule of
    __generate_bpseq - so the pieces of all strands, one after the other, are the sequence column of the BPSEQ."""
    target = "Mapping2D3D.strands_sequences"
    params = {"self": "Mapping2D3D"}
    requires = []
    stop_before = "return [(chain, ''.join(sequence))"
    ensures = []
    stop_ensures = [f"filtered(nucleotides, SRC, {_R})",
                    "strands_flat(STRANDS, OFF, FLAT)",
                    "strands_spacing(self, nucleotides, len(nucleotides), POS) and len(FLAT) == POS[len(nucleotides) - 1] + 1",
                    "strands_names(nucleotides, len(nucleotides), FLAT, POS, KOF)",
                    "strands_placed(nucleotides, len(nucleotides), STRANDS, OFF, POS, ST)",
                    "strands_runs(nucleotides, len(nucleotides), ST) and len(STRANDS) == ST[len(nucleotides) - 1] + 1"]
    stop_ensures_labels = {0: "nucleotides-in-file-order", 1: "offsets-are-prefix-sums-of-strand-lengths",
                           2: "bpseq-numbering-rule-and-total-length", 3: "names-and-placeholders-at-their-positions",
                           4: "each-nucleotide-in-the-strand-of-its-chain", 5: "one-strand-per-run-of-one-chain"}
    raises = []
    modifies = []
    locals = {"result": "list[tuple[str,list[str]]]"}
    _INV = ["flat_offsets(result, OFF)", "flat_total(result, OFF, FLAT)", "flat_bounded(result, OFF, FLAT)", "flat_nonempty(result)", "flat_pieces(result, OFF, FLAT)", "strands_placed(nucleotides, i, result, OFF, POS, ST)",
            "strands_names(nucleotides, i, FLAT, POS, KOF)", "strands_spacing(self, nucleotides, i, POS)", "strands_runs(nucleotides, i, ST)",
            "ST[i - 1] == len(result) - 1"]
    _LAB = {0: "offsets-are-prefix-sums", 1: "flat-length", 2: "strands-inside-flat", 3: "no-empty-strand", 4: "pieces-in-order", 5: "nucleotide-in-its-strand",
            6: "names-and-placeholders", 7: "numbering-rule", 8: "strand-per-chain-run", 9: "last-strand-is-current", 10: "total-length"}
    loops = {
        # for i in range(1, len(nucleotides))
        0: {"touches": _NO_ROW_WRITES, "labels": _LAB, "inv": _INV + ["len(FLAT) == POS[i - 1] + 1"]},
        # for k in range(residue.number - previous.number - 1)
        1: {"index": "c1", "touches": _NO_ROW_WRITES, "labels": _LAB, "inv": _INV + ["len(FLAT) == POS[i - 1] + 1 + c1"]},
    }
    ghost = [
        {"when": "after", "at": "nucleotides = list(filter(", "label": "filter",
         "do": ["let SRC = last_filter_index()", f"assert filtered(nucleotides, SRC, {_R})"]},
        {"when": "after", "at": "result = [(nucleotides[0].chain", "label": "first-nucleotide",
         "do": ["let FLAT = snoc(empty('list[str]'), nucleotides[0].one_letter_name)", "let KOF = snoc(empty('list[int]'), 0)",
                "let OFF = snoc(empty('list[int]'), 0)", "let POS = snoc(empty('list[int]'), 0)", "let ST = snoc(empty('list[int]'), 0)"]},
        {"when": "after", "at": "result.append((residue.chain, [residue.one_letter_name]))", "label": "new-strand",
         "do": ["assert forall(lambda t, j: implies(0 <= t and t < len(result) - 1 and 0 <= j and j < len(result[t][1]), result[t][1][j] == FLAT[OFF[t] + j] and OFF[t] + j < len(FLAT)))",
                "let OFF = snoc(OFF, len(FLAT))", "let POS = snoc(POS, len(FLAT))", "let KOF = snoc(KOF, i)",
                "let FLAT = snoc(FLAT, residue.one_letter_name)", "let ST = snoc(ST, len(result) - 1)",
                "assert forall(lambda t, j: implies(0 <= t and t < len(result) - 1 and 0 <= j and j < len(result[t][1]), result[t][1][j] == FLAT[OFF[t] + j]))",
                "assert forall(lambda j: implies(0 <= j and j < len(result[len(result) - 1][1]), result[len(result) - 1][1][j] == FLAT[OFF[len(result) - 1] + j]))"]},
        {"when": "after", "at": "result[-1][1].append(", "loop": 1, "label": "placeholder",
         "do": ["let FLAT = snoc(FLAT, '?')", "let KOF = snoc(KOF, 0 - 1)",
                "assert forall(lambda t, j: implies(0 <= t and t < len(result) - 1 and 0 <= j and j < len(result[t][1]), result[t][1][j] == FLAT[OFF[t] + j]))",
                "assert forall(lambda j: implies(0 <= j and j < len(result[len(result) - 1][1]), result[len(result) - 1][1][j] == FLAT[OFF[len(result) - 1] + j]))"]},
        {"when": "after", "at": "result[-1][1].append(", "loop": 0, "label": "same-strand",
         "do": ["let POS = snoc(POS, len(FLAT))", "let KOF = snoc(KOF, i)", "let FLAT = snoc(FLAT, residue.one_letter_name)",
                "let ST = snoc(ST, len(result) - 1)",
                "assert forall(lambda t, j: implies(0 <= t and t < len(result) - 1 and 0 <= j and j < len(result[t][1]), result[t][1][j] == FLAT[OFF[t] + j]))",
                "assert forall(lambda j: implies(0 <= j and j < len(result[len(result) - 1][1]), result[len(result) - 1][1][j] == FLAT[OFF[len(result) - 1] + j]))"]},
        {"when": "before", "at": "return [(chain, ''.join(sequence))", "label": "strands", "do": ["let STRANDS = result"]},
    ]


class generate_bpseq_numbering(_M.generate_bpseq):
    """PREFIX variant of the contract of __generate_bpseq (contracts/mapping_c.py; same requires, invariants and ghost steps): the
    facts about its LOCALS at the final return, in the vocabulary of strands_body - the numbering rule by which the two functions
    must agree.  NUMBERS: residue -> BPSEQ index, ROWS: the BPSEQ rows [index, name, pair], IMAP: index -> residue."""
    stop_before = "return (BpSeq("
    ensures = []
    ensures_labels = {}
    stop_ensures = [f"filtered(nucleotides, SRC, {_R})",
                    "nucs_spacing(self, nucleotides, len(nucleotides), NUMBERS, NEXT)",
                    "rows_dom(ROWS, NEXT)",
                    "maps_inverse(NUMBERS, IMAP, NEXT) and nucs_mapped(nucleotides, len(nucleotides), NUMBERS) and nucs_onto(nucleotides, len(nucleotides), IMAP)",
                    "rows_names(ROWS, IMAP, NEXT)"]
    stop_ensures_labels = {0: "nucleotides-in-file-order", 1: "bpseq-numbering-rule-and-total-length", 2: "rows-1..N",
                           3: "numbered-positions-are-the-nucleotides", 4: "names-and-placeholders-at-their-positions"}
    ghost = _M.generate_bpseq.ghost + [
        {"when": "before", "at": "return (BpSeq(", "label": "locals",
         "do": ["let NUMBERS = residue_map", "let IMAP = index_to_residue_map", "let ROWS = result", "let NEXT = i"]}]
    loops = {k: dict(v, touches=_NO_ROW_WRITES) for k, v in _M.generate_bpseq.loops.items()}


# the arithmetic behind "the two functions number alike": two sequences that start alike and grow by the same steps are equal
LEMMAS = {
    "same_numbering": {"kind": "smt", "params": ["A", "B", "G", "n", "k"], "shapes": ["list[int]", "list[int]", "list[int]", "int", "int"],
                       "requires": ["A[0] == B[0] + 1",
                                    "forall(lambda a: implies(0 <= a and a + 1 < n, A[a + 1] == A[a] + 1 + G[a] and B[a + 1] == B[a] + 1 + G[a]))"],
                       "decreases": "ite(k > 0, k, 0)",
                       "steps": ["use same_numbering(A, B, G, n, k - 1) when k > 0"],
                       "ensures": ["implies(0 <= k and k < n, A[k] == B[k] + 1)"]},
}


@spec
def strand_lines(m, L, text):
    """the lines of one per-strand rendering of `text`: per strand the header, the strand's sequence and the strand's slice"""
    return (len(L) == 3 * len(m.strands_value)
            and forall(lambda t: implies(0 <= t and t < len(m.strands_value),
                                         L[3 * t] == ">strand_" + m.strands_value[t][0] and L[3 * t + 1] == m.strands_value[t][1]
                                         and L[3 * t + 2] == piece(m, text, t))))


class all_dot_brackets:
    """one text per member of self.bpseq.all_dot_brackets, in order; each is the newline-join of the per-strand lines (header,
    sequence, the strand's slice of that member's structure) - cut per strand exactly like dot_bracket (ghost result LN: the lines)"""
    target = "Mapping2D3D.all_dot_brackets"
    params = {"self": "Mapping2D3D"}
    requires = [f"distinct_nucleotides({_R})", "no_self_pairs(self)", "offsets_ok(self)"]
    returns = "list[str]"
    ghost_returns = {"LN": "list[list[str]]"}
    _ADB = "self.bpseq_value.all_dot_brackets"
    ensures = [f"len(result) == len({_ADB})",
               "len(LN) == len(result) and forall(lambda d: implies(0 <= d and d < len(result), result[d] == join_nl(LN[d])))",
               f"forall(lambda d: implies(0 <= d and d < len(LN), strand_lines(self, LN[d], {_ADB}[d].structure)))"]
    ensures_labels = {0: "one-text-per-dot-bracket", 1: "text-is-the-join-of-its-lines", 2: "lines-are-header-sequence-slice-per-strand"}
    raises = []
    modifies = []
    locals = {"dot_brackets": "list[str]", "result": "list[str]"}
    loops = {
        # for dot_bracket in self.bpseq.all_dot_brackets
        0: {"index": "c0", "touches": _NO_ROW_WRITES, "labels": {0: "one-text-per-member-so-far", 1: "text-is-the-join-of-its-lines", 2: "lines-per-strand"},
            "inv": ["len(dot_brackets) == c0 and len(LN) == c0",
                    "forall(lambda d: implies(0 <= d and d < c0, dot_brackets[d] == join_nl(LN[d])))",
                    f"forall(lambda d: implies(0 <= d and d < c0, strand_lines(self, LN[d], {_ADB}[d].structure)))"]},
        # for i, pair in enumerate(self.strands_sequences)
        1: {"index": "c", "touches": _NO_ROW_WRITES,
            "inv": ["len(result) == 3 * c",
                    f"forall(lambda t: implies(0 <= t and t < c, result[3 * t] == '>strand_' + {_S}[t][0] and result[3 * t + 1] == {_S}[t][1]"
                    f" and result[3 * t + 2] == piece(self, dot_bracket.structure, t)))"]}}
    ghost = [{"when": "before", "at": "for dot_bracket in self.bpseq.all_dot_brackets", "label": "no-texts-yet", "do": ["let LN = empty('list[list[str]]')"]},
             {"when": "before", "at": "result.append(f'>strand_{chain}')", "label": "lines-before", "do": ["let R0 = result"]},
             {"when": "after", "at": "result.append(dbns[i])", "label": "three-lines-added",
              "do": ["assert len(result) == len(R0) + 3 and forall(lambda j: implies(0 <= j and j < len(R0), result[j] == R0[j]))",
                     f"assert result[3 * c] == '>strand_' + {_S}[c][0] and result[3 * c + 1] == {_S}[c][1]"
                     f" and result[3 * c + 2] == piece(self, dot_bracket.structure, c)"]},
             {"when": "after", "at": "dot_brackets.append('\\n'.join(result))", "label": "text-added",
              "do": [f"assert dot_bracket == {_ADB}[c0] and strand_lines(self, result, dot_bracket.structure)",
                     "let LN = snoc(LN, result)"]}]


CONTRACTS = {
    "Residue3D.is_connected": _M.is_connected,
    "Mapping2D3D.__generate_bpseq": _M.generate_bpseq,
    "Mapping2D3D.base_pairs": _M.base_pairs_callee,
    "Mapping2D3D.strands_sequences": strands_callee,
    "Mapping2D3D.__generate_dot_bracket_per_strand": per_strand,
    "Mapping2D3D.extended_dot_bracket": extended,
    "Mapping2D3D._generated_bpseq_data": _M.generated_bpseq_data,
    "Mapping2D3D.bpseq": bpseq_callee,
    "Mapping2D3D.bpseq@body": bpseq_body,
    "Mapping2D3D.dot_bracket": dot_bracket,
    "Mapping2D3D.strands_sequences@body": strands_body,
    "Mapping2D3D.all_dot_brackets": all_dot_brackets,
    "Mapping2D3D.__generate_bpseq@numbering": generate_bpseq_numbering,
}
