"""Sidecar contracts for rnapolis/parser.py (C08): model selection, PDB column decode, duplicate/clash filter, grouping.

Vocabulary
  Atom / ResidueLabel / ResidueAuth are frozen dataclasses -> immutable records (field lists = the real dataclasses').
  Residue3D is a frozen dataclass whose `atoms` tuple is modelled as an immutable sequence (list shape).
  Structure3D is a heap object with the field `residues` (`residue_map` is derived in __post_init__ and not modelled).
  IO (the open text file) is an opaque heap object with the ghost field `lines` = what readlines() returns after seek(0).
"""


def spec(f):
    return f


CLASSES = {
    "ResidueLabel": {"kind": "record", "fields": {"chain": "str", "number": "int", "name": "str"}},
    "ResidueAuth": {"kind": "record", "fields": {"chain": "str", "number": "int", "icode": "opt[str]", "name": "str"}},
    "Atom": {"kind": "record", "fields": {"entity_id": "opt[str]", "label": "opt[rec[ResidueLabel]]", "auth": "opt[rec[ResidueAuth]]",
                                          "model": "int", "name": "str", "x": "real", "y": "real", "z": "real",
                                          "occupancy": "opt[real]"}},
    "Residue3D": {"kind": "record", "fields": {"label": "opt[rec[ResidueLabel]]", "auth": "opt[rec[ResidueAuth]]", "model": "int",
                                               "one_letter_name": "str", "atoms": "list[rec[Atom]]"}},
    "Structure3D": {"kind": "object", "fields": {"residues": "list[rec[Residue3D]]"}},
    "IO": {"kind": "object", "fields": {"lines": "list[str]"}},
    # opaque pass-through values (Dict[Union[ResidueLabel, ResidueAuth], str] and Dict[str, str])
    "ModifiedMap": {"kind": "object", "fields": {}},
    "SequenceMap": {"kind": "object", "fields": {}},
}

INLINE = []
PRUNE_BRANCHES = False
# Residue3D.atoms (Tuple[Atom, ...]) is modelled as an immutable sequence: tuple(residue_atoms) is the sequence of the list's
# elements at that moment; parser.py never compares this tuple with a list, concatenates it or tests its type
TUPLE_AS_SEQUENCE = True
# Residue3D.is_nucleotide (tertiary.py, cached_property) reads only the frozen record's own fields and class constants:
# modelled as an uninterpreted function of the record value (ASSUMED pure; only used by the nucleic_acid_only filter)
# dicts that are modified in a loop keep the representation invariant "the key list holds exactly the keys, each once"
DICT_ORDER_INVARIANT = True
# composite dict keys ((label, auth, name): 11 components) are packed into one index by an injective function
PACK_KEYS = True
PURE_ATTRS = {"Residue3D.is_nucleotide": "bool"}


# ------------------------------------------------------------------------------------------------ spec vocabulary
@spec
def same_residue(a, b):
    """the grouping key of group_atoms: (label, auth, model)"""
    return a.label == b.label and a.auth == b.auth and a.model == b.model


@spec
def runs_ok(G, S, atoms):
    """G (residues) are consecutive non-empty runs atoms[S[k]:S[k+1]] covering atoms[0:S[len(G)]] in order"""
    return (len(S) == len(G) + 1 and S[0] == 0
            and forall(lambda k: implies(0 <= k and k < len(G), S[k] < S[k + 1] and S[k + 1] <= len(atoms)
                                         and len(G[k].atoms) == S[k + 1] - S[k])))


@spec
def runs_atoms(G, S, atoms):
    """every residue holds exactly the atoms of its run, in file order"""
    return forall(lambda k, t: implies(0 <= k and k < len(G) and 0 <= t and t < S[k + 1] - S[k],
                                       G[k].atoms[t] == atoms[S[k] + t]))


@spec
def subsequence(R, G, F):
    """R = [G[F[0]], G[F[1]], ..] with F strictly increasing positions of G"""
    return (len(R) == len(F)
            and forall(lambda j: implies(0 <= j and j < len(R), 0 <= F[j] and F[j] < len(G) and R[j] == G[F[j]]))
            and forall(lambda j: implies(0 <= j and j + 1 < len(R), F[j] < F[j + 1])))


@spec
def key_is(r, label, auth, model):
    return r.label == label and r.auth == auth and r.model == model


@spec
def runs_identity(G):
    """residue identity (label, auth, model) is that of every one of its atoms"""
    return forall(lambda k, t: implies(0 <= k and k < len(G) and 0 <= t and t < len(G[k].atoms),
                                       key_is(G[k].atoms[t], G[k].label, G[k].auth, G[k].model)))


@spec
def runs_maximal(G):
    """a run ends only where the key changes: neighbouring residues differ in (label, auth, model)"""
    return forall(lambda k: implies(1 <= k and k < len(G), not key_is(G[k - 1], G[k].label, G[k].auth, G[k].model)))


LEMMAS = {
    # closing a run: appending the residue r (holding atoms[S[len(G)]:e]) to G and e to S keeps the run structure
    "close_run": {"kind": "smt", "params": ["G", "S", "atoms", "r", "e"],
                  "shapes": ["list[rec[Residue3D]]", "list[int]", "list[rec[Atom]]", "rec[Residue3D]", "int"],
                  "requires": ["len(G) >= 0", "runs_ok(G, S, atoms)", "runs_atoms(G, S, atoms)", "S[len(G)] < e and e <= len(atoms)",
                               "len(r.atoms) == e - S[len(G)]",
                               "forall(lambda t: implies(0 <= t and t < len(r.atoms), r.atoms[t] == atoms[S[len(G)] + t]))"],
                  "ensures": ["runs_ok(snoc(G, r), snoc(S, e), atoms)", "runs_atoms(snoc(G, r), snoc(S, e), atoms)"]},
    # ... and keeps "identity of a residue = identity of its atoms" and "neighbouring residues differ"
    "close_run_keys": {"kind": "smt", "params": ["G", "r"], "shapes": ["list[rec[Residue3D]]", "rec[Residue3D]"],
                       "requires": ["len(G) >= 0", "runs_identity(G)", "runs_maximal(G)",
                                    "implies(len(G) >= 1, not key_is(G[len(G) - 1], r.label, r.auth, r.model))",
                                    "forall(lambda t: implies(0 <= t and t < len(r.atoms), key_is(r.atoms[t], r.label, r.auth, r.model)))"],
                       "ensures": ["runs_identity(snoc(G, r))", "runs_maximal(snoc(G, r))"]},
    # the open run: residue_atoms is the slice atoms[s:s+len]; appending the next atom / starting with one atom keeps that
    "extend_open": {"kind": "smt", "params": ["L", "atoms", "s", "x"], "shapes": ["list[rec[Atom]]", "list[rec[Atom]]", "int", "rec[Atom]"],
                    "requires": ["len(L) >= 0", "forall(lambda t: implies(0 <= t and t < len(L), L[t] == atoms[s + t]))", "x == atoms[s + len(L)]"],
                    "ensures": ["forall(lambda t: implies(0 <= t and t < len(L) + 1, snoc(L, x)[t] == atoms[s + t]))"]},
    "start_open": {"kind": "smt", "params": ["L", "atoms", "s"], "shapes": ["list[rec[Atom]]", "list[rec[Atom]]", "int"],
                   "requires": ["len(L) == 1", "L[0] == atoms[s]"],
                   "ensures": ["forall(lambda t: implies(0 <= t and t < len(L), L[t] == atoms[s + t]))"]},
}

# ------------------------------------------------------------------------------------------------ assumed helper contracts
class get_residue_name_c:
    params = {"auth": "opt[rec[ResidueAuth]]", "label": "opt[rec[ResidueLabel]]", "modified": "ModifiedMap"}
    requires = []
    returns = "str"
    ensures = []
    raises = []
    modifies = []


class get_one_letter_name_c:
    params = {"entity_id": "opt[str]", "label": "opt[rec[ResidueLabel]]", "sequence_by_entity": "SequenceMap", "name": "str"}
    requires = []
    returns = "str"
    ensures = []
    raises = ["IndexError"]
    modifies = []


class detect_one_letter_name_c:
    params = {"atoms": "list[rec[Atom]]"}
    requires = []
    returns = "str"
    ensures = []
    raises = []
    modifies = []


# ------------------------------------------------------------------------------------------------ group_atoms
class group_atoms_c:
    params = {"atoms": "list[rec[Atom]]", "modified": "ModifiedMap", "sequence_by_entity": "SequenceMap",
              "is_nucleic_acid_by_entity": "dict[str,bool]", "nucleic_acid_only": "bool"}
    requires = []
    returns = "Structure3D"
    ghost_returns = {"S": "list[int]", "G": "list[rec[Residue3D]]", "F": "list[int]"}
    ensures = [
        "fresh(result)",
        "runs_ok(G, S, atoms) and S[len(G)] == len(atoms)",
        "runs_atoms(G, S, atoms)",
        "runs_identity(G)",
        "runs_maximal(G)",
        "implies(not nucleic_acid_only, result.residues == G)",
        "implies(nucleic_acid_only, subsequence(result.residues, G, F))",
    ]
    ensures_labels = {0: "fresh", 1: "residues-partition-the-atoms-in-file-order", 2: "each-residue-has-all-its-atoms-in-order",
                      3: "residue-identity-is-its-atoms-identity", 4: "runs-are-maximal", 5: "all-residues-returned",
                      6: "nucleic-acid-only-returns-a-subsequence-of-the-residues"}
    raises = ["IndexError", "KeyError"]
    modifies = []
    locals = {"residues": "list[rec[Residue3D]]"}
    ghost_entry = ["let S = [0]", "let G = empty('list[rec[Residue3D]]')", "let F = empty('list[int]')"]
    loops = {0: {"index": "i", "inv": [
        "len(atoms) >= 1 and len(residue_atoms) >= 1 and len(residues) >= 0",
        "runs_ok(residues, S, atoms) and S[len(residues)] <= i",
        "runs_atoms(residues, S, atoms)",
        "runs_identity(residues)",
        "runs_maximal(residues)",
        "implies(len(residues) >= 1, not key_is(residues[len(residues) - 1], key_previous[0], key_previous[1], key_previous[2]))",
        "len(residue_atoms) == i + 1 - S[len(residues)]",
        "forall(lambda t: implies(0 <= t and t < len(residue_atoms), residue_atoms[t] == atoms[S[len(residues)] + t]))",
        "forall(lambda t: implies(0 <= t and t < len(residue_atoms), key_is(residue_atoms[t], key_previous[0], key_previous[1], key_previous[2])))",
    ]}}
    ghost = [
        {"when": "before", "at": "entity_id = residue_atoms[-1]", "label": "open-run-nonempty", "do": ["assert len(residue_atoms) >= 1"]},
        {"when": "before", "at": "residues.append(", "label": "remember", "do": ["let R0 = residues"]},
        {"when": "after", "at": "residues.append(", "loop": 0, "label": "run-closed",
         "do": ["use close_run(R0, S, atoms, residues[len(residues) - 1], i + 1)", "use close_run_keys(R0, residues[len(residues) - 1])",
                "let S = snoc(S, i + 1)"]},
        {"when": "before", "at": "residue_atoms.append(atom)", "label": "run-extended",
         "do": ["use extend_open(residue_atoms, atoms, S[len(residues)], atom)"]},
        {"when": "after", "at": "residue_atoms = [atom]", "label": "run-opened", "do": ["use start_open(residue_atoms, atoms, i + 1)"]},
        {"when": "after", "at": "residues.append(", "loop": None, "label": "last-run-closed",
         "do": ["use close_run(R0, S, atoms, residues[len(residues) - 1], len(atoms))", "use close_run_keys(R0, residues[len(residues) - 1])",
                "let S = snoc(S, len(atoms))", "let G = residues"]},
        {"when": "after", "at": "residues = [residue for residue in residues if", "label": "kept-positions", "do": ["let F = filter_index()"]},
    ]


# ------------------------------------------------------------------------------------------------ read_3d_structure
PARSED = "tuple[list[rec[Atom]],ModifiedMap,SequenceMap,dict[str,bool]]"


class is_cif_c:
    params = {"cif_or_pdb": "IO"}
    requires = []
    returns = "bool"
    ensures = []
    raises = []
    modifies = []


class parse_cif_c:
    """callee view inside read_3d_structure: only the result type is used (an atom list and three pass-through maps)"""
    params = {"cif": "IO"}
    requires = []
    returns = PARSED
    ensures = []
    raises = ["RuntimeError", "ValueError", "KeyError", "TypeError"]
    modifies = []


class parse_pdb_c:
    """callee view inside read_3d_structure (the decode contract of parse_pdb is the variant parse_pdb@decode)"""
    params = {"pdb": "IO"}
    requires = []
    returns = PARSED
    ensures = []
    raises = ["ValueError", "IndexError"]
    modifies = []


@spec
def has_model(P, m):
    return exists(lambda i: 0 <= i and i < len(P) and P[i].model == m)


@spec
def selected_model(P, model):
    """the requested model if some atom has it, else the model of the first atom in file order"""
    return ite(model is not None and has_model(P, model), model, P[0].model)


class read_3d_structure_c:
    """P = atoms as parsed (file order); A = atoms handed to group_atoms; X = positions in P of the atoms of A;
    Y = inverse of X; G, S = the residues and run boundaries of group_atoms (its ghost results)"""
    params = {"cif_or_pdb": "IO", "model": "opt[int]", "nucleic_acid_only": "bool"}
    requires = []
    returns = "Structure3D"
    ghost_returns = {"P": "list[rec[Atom]]", "A": "list[rec[Atom]]", "X": "list[int]", "Y": "list[int]",
                     "G": "list[rec[Residue3D]]", "S": "list[int]"}
    ensures = [
        "fresh(result)",
        # Asking for any model present in the file returns that model's atoms and never another model's
        "implies(model is not None and has_model(P, model), forall(lambda j: implies(0 <= j and j < len(A), A[j].model == model)))",
        # ... for the requested model (default: the first) ...
        "forall(lambda j: implies(0 <= j and j < len(A), A[j].model == selected_model(P, model)))",
        # every atom of that model exactly once, in file order: A = [P[X[0]], P[X[1]], ..], X strictly increasing and onto the model's atoms
        "len(X) == len(A) and forall(lambda j: implies(0 <= j and j < len(A), 0 <= X[j] and X[j] < len(P) and A[j] == P[X[j]]))",
        "forall(lambda j, j2: implies(0 <= j and j < j2 and j2 < len(A), X[j] < X[j2]))",
        "forall(lambda i: implies(0 <= i and i < len(P) and P[i].model == selected_model(P, model), 0 <= Y[i] and Y[i] < len(A) and X[Y[i]] == i))",
        # grouped into residues in file order (group_atoms' contract on A)
        "runs_ok(G, S, A) and S[len(G)] == len(A)",
        "runs_atoms(G, S, A)",
        "runs_identity(G)",
        "runs_maximal(G)",
        "implies(not nucleic_acid_only, result.residues == G)",
    ]
    ensures_labels = {0: "fresh", 1: "a-model-present-in-the-file-is-returned-and-never-another", 2: "requested-model-else-first-model",
                      3: "atoms-are-the-files-atoms-unchanged", 4: "in-file-order-each-once", 5: "every-atom-of-the-model",
                      6: "residues-partition-the-atoms-in-file-order", 7: "each-residue-has-all-its-atoms-in-order",
                      8: "residue-identity-is-its-atoms-identity", 9: "runs-are-maximal", 10: "all-residues-returned"}
    # IndexError: only from `list(available_models.keys())[0]` when the file has no atom at all (ghost assertion below)
    raises = ["RuntimeError", "ValueError", "KeyError", "TypeError", "IndexError"]
    modifies = []
    ghost = [
        {"when": "after", "at": "atoms, modified, sequence_by_entity, is_nucleic_acid_by_entity =", "label": "parsed", "do": ["let P = atoms"]},
        {"when": "before", "at": "atoms = atoms_by_model[model]", "label": "requested-model-is-a-key",
         "do": ["assert model in atoms_by_model"]},
        {"when": "after", "at": "atoms = atoms_by_model[model]", "label": "requested",
         "do": ["let A = atoms", "let X = filter_index(dictcomp_pos(model))", "let Y = filter_pos(dictcomp_pos(model))"]},
        {"when": "before", "at": "atoms = atoms_by_model[list(", "label": "first-model-exists-unless-the-file-has-no-atoms",
         "do": ["assert implies(len(P) > 0, len(available_models) > 0 and list(available_models.keys())[0] == P[0].model)",
                "assert implies(len(P) > 0, list(available_models.keys())[0] in atoms_by_model)"]},
        {"when": "after", "at": "atoms = atoms_by_model[list(", "label": "first",
         "do": ["let A = atoms", "let X = filter_index(dictcomp_pos(list(available_models.keys())[0]))",
                "let Y = filter_pos(dictcomp_pos(list(available_models.keys())[0]))"]},
    ]
    ghost_exit = ["let G = group_atoms_G", "let S = group_atoms_S"]


# ------------------------------------------------------------------------------------------------ parse_pdb
# PDB 3.3 coordinate section, columns (1-based, inclusive) - the spec's own table, independent of the code's slices:
#   record name 1-6 | ATOM/HETATM: name 13-16, resName 18-20, chainID 22, resSeq 23-26, iCode 27, x 31-38, y 39-46, z 47-54,
#   occupancy 55-60 | MODEL: serial 11-14
import z3 as _z3
from fractions import Fraction as _Fraction


def _ext_strip(e, args, kw, node, st):
    """str.strip() without arguments: a deterministic function of the string (uninterpreted py_strip); nothing else assumed"""
    from pyvc.values import Unsupported, to_z3
    if len(args) != 1:
        raise Unsupported("str.strip(chars)")
    if isinstance(args[0], str):
        return args[0].strip()
    return e.ufun("py_strip", _z3.StringSort(), _z3.StringSort())(to_z3(args[0]))


def _ext_int_ok(e, args, kw, node, st):
    """the engine's own condition for int(s) not raising ValueError (pyvc/calls.py ext_int_of_str), term for term"""
    from pyvc.values import to_z3
    z = to_z3(args[0])
    digits = _z3.Plus(_z3.Range("0", "9"))
    ws = _z3.Star(_z3.Union(_z3.Re(" "), _z3.Re("\t"), _z3.Re("\n"), _z3.Re("\r"), _z3.Re("\x0b"), _z3.Re("\x0c")))
    us = _z3.Concat(digits, _z3.Star(_z3.Concat(_z3.Re("_"), digits)))
    return _z3.InRe(z, _z3.Concat(ws, _z3.Option(_z3.Union(_z3.Re("+"), _z3.Re("-"))), us, ws))


def _ext_float_ok(e, args, kw, node, st):
    """float(s) does not raise ValueError: the engine's uninterpreted predicate py_float_ok"""
    from pyvc.values import to_z3
    return e.ufun("py_float_ok", _z3.StringSort(), _z3.BoolSort())(to_z3(args[0]))


# wfl(l): "line l of the file being parsed is well-formed" - an abbreviation (definitional lemma wfl_definition) that keeps the
# string-heavy well-formedness condition out of the solver's way until the proof asks for one line's instance
UFUNS = {"wfl": (["int"], "bool"),
         # within(p, q, r): the points p, q are at Euclidean distance <= r (definition within_definition; the proofs never unfold
         # it - the clash filter is correct for whatever symmetric-or-not criterion the KD-tree applies to index pairs a < b)
         "within": (["real"] * 7, "bool")}
EXTERNALS = {"str.strip": _ext_strip, "spec.int_ok": _ext_int_ok, "spec.float_ok": _ext_float_ok}
SPEC_EXTERNALS = {"strip": "str.strip", "int_ok": "spec.int_ok", "float_ok": "spec.float_ok"}


@spec
def col(l, a, b):
    """columns a..b (1-based, inclusive) of a line"""
    return l[a - 1:b]


@spec
def is_atom_line(l):
    return col(l, 1, 6) == "ATOM  " or col(l, 1, 6) == "HETATM"


@spec
def is_model_line(l):
    return col(l, 1, 6) == "MODEL "


@spec
def model_of(L, m):
    """serial of the MODEL record at line m; 1 when no MODEL record precedes (m == -1)"""
    return ite(m < 0, 1, int(strip(col(L[m], 11, 14))))


@spec
def decoded(a, l, m):
    """the atom written on the ATOM/HETATM line l, in model m: every field exactly as written"""
    return (a.entity_id is None and a.label is None and a.auth is not None
            and a.name == strip(col(l, 13, 16))
            and a.auth.name == strip(col(l, 18, 20))
            and a.auth.chain == col(l, 22, 22)
            and a.auth.number == int(strip(col(l, 23, 26)))
            and a.auth.icode == ite(col(l, 27, 27) == " ", None, col(l, 27, 27))
            and a.x == float(strip(col(l, 31, 38))) and a.y == float(strip(col(l, 39, 46))) and a.z == float(strip(col(l, 47, 54)))
            and a.occupancy == float(strip(col(l, 55, 60)))
            and a.model == m)


@spec
def wf_line(l):
    """a well-formed PDB line: the record name occupies columns 1-6; an ATOM/HETATM line reaches column 27 (a shorter one
    raises IndexError at line[21] / line[26]; the slices never raise) and its numeric columns parse; a MODEL serial parses;
    a MODRES line reaches column 24 and its sequence number parses"""
    return (implies(l.startswith("ATOM"), col(l, 1, 6) == "ATOM  ")
            and implies(l.startswith("MODEL"), col(l, 1, 6) == "MODEL ")
            and implies(is_model_line(l), int_ok(strip(col(l, 11, 14))))
            and implies(is_atom_line(l),
                        len(l) >= 27 and int_ok(strip(col(l, 23, 26)))
                        and float_ok(strip(col(l, 31, 38))) and float_ok(strip(col(l, 39, 46)))
                        and float_ok(strip(col(l, 47, 54))) and float_ok(strip(col(l, 55, 60))))
            and implies(l.startswith("MODRES"), len(l) >= 24 and int_ok(strip(col(l, 19, 22)))))


@spec
def wf_pdb(L):
    """every line is well-formed; wfl(l) abbreviates wf_line(L[l]) (definition wfl_definition, unfolded one line at a time)"""
    return forall(lambda l: implies(0 <= l and l < len(L), wfl(l)))


LEMMAS["wfl_definition"] = {"kind": "definition", "params": ["L", "l"], "ensures": ["wfl(l) == wf_line(L[l])"]}
LEMMAS["record_names"] = {
    # with record names in columns 1-6 the code's prefix tests decide the record type
    "kind": "smt", "params": ["l"], "shapes": ["str"],
    "requires": ["implies(l.startswith('ATOM'), col(l, 1, 6) == 'ATOM  ')", "implies(l.startswith('MODEL'), col(l, 1, 6) == 'MODEL ')"],
    "ensures": ["is_model_line(l) == l.startswith('MODEL')",
                "is_atom_line(l) == (not l.startswith('MODEL') and (l.startswith('ATOM') or l.startswith('HETATM')))"]}


LEMMAS["decoded_snoc"] = {
    # appending one decoded atom (with its line and MODEL-record indices) keeps "every atom is the decode of its line"
    "kind": "smt", "params": ["A", "SRC", "MS", "L", "a", "s", "m"],
    "shapes": ["list[rec[Atom]]", "list[int]", "list[int]", "list[str]", "rec[Atom]", "int", "int"],
    "requires": ["len(A) >= 0 and len(SRC) == len(A) and len(MS) == len(A)",
                 "forall(lambda j: implies(0 <= j and j < len(SRC), decoded(A[j], L[SRC[j]], model_of(L, MS[j]))))",
                 "decoded(a, L[s], model_of(L, m))"],
    "ensures": ["forall(lambda j: implies(0 <= j and j < len(SRC) + 1, decoded(snoc(A, a)[j], L[snoc(SRC, s)[j]], model_of(L, snoc(MS, m)[j]))))"]}


class io_seek_c:
    """assumed: seek(0) rewinds; the ghost field `lines` is what readlines() returns from the start of the file"""
    params = {"self": "IO", "pos": "int"}
    requires = []
    ensures = []
    raises = []
    modifies = []


class io_readlines_c:
    params = {"self": "IO"}
    requires = []
    returns = "list[str]"
    returns_value = "self.lines"
    ensures = []
    raises = []
    modifies = []


# ------------------------------------------------------------------------------------------------ filter_clashing_atoms
CLASSES["KDTree"] = {"kind": "object", "fields": {"pts": "list[tuple[real,real,real]]"}}


def _ext_np_array(e, args, kw, node, st):
    """numpy.array(list of (x, y, z) tuples): the n x 3 coordinate array, modelled as the list of points itself"""
    from pyvc.values import Unsupported, VList
    if not isinstance(args[0], VList):
        raise Unsupported("numpy.array of this value")
    return args[0]


def _ext_kdtree(e, args, kw, node, st):
    """scipy.spatial.KDTree(points): an object holding the points (its only observable use here is query_pairs).
    numpy.array([]) is 1-dimensional and KDTree rejects it: ValueError("data must be of shape (n, m)") for an empty point list"""
    from pyvc.values import to_z3
    e.may_raise(to_z3(args[0].length) <= 0, "ValueError", node)
    return e.construct("KDTree", [args[0]], {}, node, st)


EXTERNALS.update({"numpy.array": _ext_np_array, "KDTree": _ext_kdtree})


@spec
def dist2(p, q):
    return (p[0] - q[0]) * (p[0] - q[0]) + (p[1] - q[1]) * (p[1] - q[1]) + (p[2] - q[2]) * (p[2] - q[2])


@spec
def close_atoms(a, b, r):
    """the atoms a, b are at distance <= r"""
    return within(a.x, a.y, a.z, b.x, b.y, b.z, r)


LEMMAS["within_definition"] = {"kind": "definition", "params": ["px", "py", "pz", "qx", "qy", "qz", "r"],
                               "ensures": ["within(px, py, pz, qx, qy, qz, r) == ((px - qx) * (px - qx) + (py - qy) * (py - qy) + (pz - qz) * (pz - qz) <= r * r)"]}


class kd_query_pairs_c:
    """ASSUMED contract of scipy.spatial.KDTree.query_pairs(r): exactly the index pairs (a < b) of points at distance <= r"""
    params = {"self": "KDTree", "r": "real"}
    requires = []
    returns = "set[tuple[int,int]]"
    ensures = ["forall(lambda a, b: ((a, b) in result) == (0 <= a and a < b and b < len(self.pts) and within(self.pts[a][0], self.pts[a][1], self.pts[a][2], self.pts[b][0], self.pts[b][1], self.pts[b][2], r)))"]
    raises = []
    modifies = []


@spec
def akey(a):
    """the duplicate key of filter_clashing_atoms: (label, auth, name)"""
    return (a.label, a.auth, a.name)


@spec
def occ0(a):
    """`occupancy or 0.0`"""
    return ite(a.occupancy is None, 0.0, some(a.occupancy))


@spec
def compared(UL, pr):
    """the pair is compared by the clash filter: both occupancies are known"""
    return UL[pr[0]].occupancy is not None and UL[pr[1]].occupancy is not None


@spec
def loser(UL, pr):
    """the index discarded for a compared pair (a, b), a < b: b if a's occupancy is strictly higher, else a"""
    return ite(some(UL[pr[0]].occupancy) > some(UL[pr[1]].occupancy), pr[1], pr[0])


KEY = "tuple[opt[rec[ResidueLabel]],opt[rec[ResidueAuth]],str]"


@spec
def kept_copies(UL, atoms):
    """what the duplicate filter establishes: UL holds input atoms, one per (label, auth, name), and every input atom has its
    key represented in UL by a copy of at least its occupancy"""
    return (len(UL) >= 0
            and forall(lambda p: implies(0 <= p and p < len(UL), exists(lambda t: 0 <= t and t < len(atoms) and UL[p] == atoms[t])))
            and forall(lambda p, q: implies(0 <= p and p < q and q < len(UL), akey(UL[p]) != akey(UL[q])))
            and forall(lambda t: implies(0 <= t and t < len(atoms), exists(lambda p: 0 <= p and p < len(UL) and akey(UL[p]) == akey(atoms[t]) and occ0(atoms[t]) <= occ0(UL[p])))))


@spec
def lost_at(UL, p, d):
    """the kept copy at position p was compared with another kept copy q within the clash distance and did not have the higher occupancy"""
    return exists(lambda q: 0 <= q and q < len(UL) and q != p and UL[p].occupancy is not None and UL[q].occupancy is not None
                  and implies(p < q, close_atoms(UL[p], UL[q], d)) and implies(q < p, close_atoms(UL[q], UL[p], d))
                  and some(UL[q].occupancy) >= some(UL[p].occupancy))


class filter_single_c:
    """the single-model core (duplicate filter + clash filter).  Ghosts: UL = the kept copies in first-occurrence order of their keys (unique_atoms_list);
    E = the (arbitrary, set-iteration) order in which the surviving positions of UL are emitted"""
    params = {"atoms": "list[rec[Atom]]", "clash_distance": "real"}
    defaults = {"clash_distance": _Fraction(1, 2)}
    requires = ["forall(lambda t: implies(0 <= t and t < len(atoms), atoms[t].model == atoms[0].model))", "clash_distance >= 0"]
    # an EMPTY atom list raises ValueError (scipy's KDTree refuses the empty coordinate array) - and only an empty one
    # (ghost assertion `ValueError-only-for-an-empty-list`); candidate finding, see props/C08.py
    raises = {"ValueError": "len(atoms) == 0"}
    returns = "list[rec[Atom]]"
    ensures = [
        # the result lists the surviving kept copies (positions KF of UL), each once, in the arbitrary order E of the set iteration
        "len(E) == len(result) and forall(lambda r: implies(0 <= r and r < len(result), 0 <= E[r] and E[r] < len(UL) and E[r] in KF and result[r] == UL[E[r]])) and forall(lambda r, r2: implies(0 <= r and r < r2 and r2 < len(result), E[r] != E[r2])) and forall(lambda p: implies(p in KF, exists(lambda r: 0 <= r and r < len(result) and E[r] == p)))",
        "forall(lambda r: implies(0 <= r and r < len(result), exists(lambda t: 0 <= t and t < len(atoms) and result[r] == atoms[t])))",
        "forall(lambda r, r2: implies(0 <= r and r < r2 and r2 < len(result), akey(result[r]) != akey(result[r2])))",
        "forall(lambda r, t: implies(0 <= r and r < len(result) and 0 <= t and t < len(atoms) and akey(atoms[t]) == akey(result[r]), occ0(atoms[t]) <= occ0(result[r])))",
        # two surviving kept copies with known occupancies (a the earlier one) are not within the clash distance
        "forall(lambda a, b: implies(0 <= a and a < b and b < len(UL) and a in KF and b in KF and UL[a].occupancy is not None and UL[b].occupancy is not None, not close_atoms(UL[a], UL[b], clash_distance)))",
    ]
    ensures += ["forall(lambda p: implies(0 <= p and p < len(UL) and p not in KF, lost_at(UL, p, clash_distance)))",
                "kept_copies(UL, atoms)"]
    ensures_labels = {0: "result-atoms-are-kept-copies-each-once", 1: "every-result-atom-is-an-input-atom", 2: "one-atom-per-residue-and-name",
                      3: "the-highest-occupancy-copy", 4: "of-two-atoms-within-the-clash-distance-only-one",
                      5: "a-kept-copy-survives-unless-it-lost-a-clash-comparison", 6: "one-kept-copy-of-highest-occupancy-per-residue-and-name"}
    modifies = []
    locals = {"unique_atoms": "dict[" + KEY + ",rec[Atom]]", "result": "list[rec[Atom]]"}
    ghost_entry = ["let UL = empty('list[rec[Atom]]')", "let LW = empty('dict[int,int]')", "let KF = empty('set[int]')"]
    loops = {
        0: {"inv": ["len(models) <= 1"]},  # the multi-model branch is not entered under this variant's precondition
        1: {"index": "n1", "inv": [
            # every processed atom's key is present and holds a copy of at least that atom's occupancy
            "forall(lambda t: implies(0 <= t and t < n1, akey(atoms[t]) in unique_atoms and occ0(atoms[t]) <= occ0(unique_atoms[akey(atoms[t])])))",
            # every key of the dict holds a processed input atom carrying that key
            "forall(lambda p: implies(0 <= p and p < len(list(unique_atoms.keys())), exists(lambda t: 0 <= t and t < n1 and unique_atoms[list(unique_atoms.keys())[p]] == atoms[t] and akey(atoms[t]) == list(unique_atoms.keys())[p])))",
        ]},
        2: {"index": "n2", "seq": "PS", "inv": [
            "forall(lambda u: implies(u in atoms_to_keep, 0 <= u and u < len(unique_atoms_list)))",
            "forall(lambda m: implies(0 <= m and m < n2 and compared(unique_atoms_list, PS[m]), loser(unique_atoms_list, PS[m]) not in atoms_to_keep))",
            # a discarded position lost the comparison of the pair PS[LW[u]]
            "forall(lambda u: implies(0 <= u and u < len(unique_atoms_list) and u not in atoms_to_keep, 0 <= LW[u] and LW[u] < n2 and compared(unique_atoms_list, PS[LW[u]]) and loser(unique_atoms_list, PS[LW[u]]) == u))",
        ]},
    }
    ghost = [
        {"when": "before", "at": "if len(models) > 1", "label": "one-model", "do": ["assert len(models) <= 1"]},
        # at the exit of the duplicate loop only the loop's own facts matter: the dict's representation invariant (4 facts), the
        # index bounds, the 2 invariants and the exit condition are the last 8 hypotheses
        {"when": "before", "at": "unique_atoms_list = list(unique_atoms.values())", "label": "duplicate-loop-summary", "do": ["keep 8"]},
        {"when": "after", "at": "unique_atoms_list = list(unique_atoms.values())", "label": "kept-copies",
         "do": ["let UL = unique_atoms_list",
                "assert len(UL) == len(list(unique_atoms.keys())) and forall(lambda p: implies(0 <= p and p < len(UL), akey(UL[p]) == list(unique_atoms.keys())[p] and UL[p] == unique_atoms[list(unique_atoms.keys())[p]]))",
                "assert len(UL) >= 0 and forall(lambda p: implies(0 <= p and p < len(UL), exists(lambda t: 0 <= t and t < len(atoms) and UL[p] == atoms[t])))",
                "assert forall(lambda p, q: implies(0 <= p and p < q and q < len(UL), akey(UL[p]) != akey(UL[q])))",
                "assert forall(lambda t: implies(0 <= t and t < len(atoms), exists(lambda p: 0 <= p and p < len(UL) and akey(UL[p]) == akey(atoms[t]) and occ0(atoms[t]) <= occ0(UL[p]))))",
                "keep 3"]},
    ]
    ghost_exit = ["let E = last_enum()"]
    ghost += [
        {"when": "before", "at": "tree = KDTree(coords)", "label": "ValueError-only-for-an-empty-list",
         "do": ["assert implies(len(atoms) >= 1, len(coords) >= 1)"]},
        {"when": "after", "at": "atoms_to_keep.discard(j)", "loop": 2, "label": "j-lost", "do": ["let LW = dstore(LW, j, n2)"]},
        {"when": "after", "at": "atoms_to_keep.discard(i)", "loop": 2, "label": "i-lost", "do": ["let LW = dstore(LW, i, n2)"]},
        # both summaries of the clash loop are proved from the loop's own facts only: the KD-tree contract, the 4 facts of the pair
        # enumeration, the index bounds, the 3 invariants and the exit condition (the last 10 hypotheses at this point)
        {"when": "before", "at": "return [unique_atoms_list[i] for i in atoms_to_keep]", "label": "no-clash-among-the-kept",
         "do": ["assert_last 10 forall(lambda a, b: implies(0 <= a and a < b and b < len(UL) and a in atoms_to_keep and b in atoms_to_keep and UL[a].occupancy is not None and UL[b].occupancy is not None, not close_atoms(UL[a], UL[b], clash_distance)))"]},
        {"when": "before", "at": "return [unique_atoms_list[i] for i in atoms_to_keep]", "label": "a-discarded-copy-lost-a-comparison",
         "do": ["assert_last 11 forall(lambda p: implies(0 <= p and p < len(UL) and p not in atoms_to_keep, lost_at(UL, p, clash_distance)))",
                "let KF = atoms_to_keep"]},
    ]


@spec
def same_slot(a, b):
    """same (model, label, auth, name): the two atoms are copies of one atom"""
    return akey(a) == akey(b) and a.model == b.model


@spec
def G_from_input(R, atoms):
    return forall(lambda r: implies(0 <= r and r < len(R), exists(lambda t: 0 <= t and t < len(atoms) and R[r] == atoms[t])))


@spec
def G_one_per_slot(R):
    return forall(lambda r, r2: implies(0 <= r and r < r2 and r2 < len(R), not same_slot(R[r], R[r2])))


@spec
def G_highest(R, atoms):
    return forall(lambda r, t: implies(0 <= r and r < len(R) and 0 <= t and t < len(atoms) and same_slot(atoms[t], R[r]), occ0(atoms[t]) <= occ0(R[r])))


@spec
def G_no_clash(R, d):
    return forall(lambda r, r2: implies(0 <= r and r < r2 and r2 < len(R) and R[r].model == R[r2].model
                                        and R[r].occupancy is not None and R[r2].occupancy is not None,
                                        not close_atoms(R[r], R[r2], d) or not close_atoms(R[r2], R[r], d)))


@spec
def lost_clash(atoms, t, d):
    """a copy s of atom t (same model, residue, name) was compared with another atom u of the model within the clash distance
    whose occupancy is not lower"""
    return exists(lambda s, u: 0 <= s and s < len(atoms) and 0 <= u and u < len(atoms) and same_slot(atoms[s], atoms[t])
                  and atoms[u].model == atoms[s].model and atoms[s].occupancy is not None and atoms[u].occupancy is not None
                  and (close_atoms(atoms[s], atoms[u], d) or close_atoms(atoms[u], atoms[s], d))
                  and some(atoms[u].occupancy) >= some(atoms[s].occupancy))


@spec
def represented(R, a):
    return exists(lambda r: 0 <= r and r < len(R) and same_slot(R[r], a))


class filter_clashing_atoms_c(filter_single_c):
    """the whole function, any number of models (the multi-model branch calls the function itself: this contract is used for
    the recursive calls).  Termination of the recursion: `decreases` - the measure is 0 for a list whose atoms all carry one
    model (in particular the empty list) and 1 otherwise; a self-call happens only when the dict of models has more than one
    key (measure 1) and passes the atoms of ONE model (measure 0): obligation call[..]->filter_clashing_atoms.decreases, so
    the recursion is at most one level deep"""
    requires = []
    decreases = "ite(forall(lambda t: implies(0 <= t and t < len(atoms), atoms[t].model == atoms[0].model)), 0, 1)"
    ensures = [
        "G_from_input(result, atoms)",
        "G_one_per_slot(result)",
        "G_highest(result, atoms)",
        "G_no_clash(result, clash_distance)",
        "len(result) >= 0",
    ]
    # NOT part of this contract (out of reach, see props/C08.py): "every input atom is represented in the result unless a copy of
    # it lost a clash comparison" across the recursion - the clause (represented(..) or lost_clash(..)) is a forall-exists-exists
    # statement that re-triggers itself in the solver; it IS proved for one model in the variant @single (clauses 5 and 6)
    ensures_labels = {0: "every-result-atom-is-an-input-atom", 1: "one-atom-per-model-residue-and-name", 2: "the-highest-occupancy-copy",
                      3: "of-two-atoms-of-a-model-within-the-clash-distance-only-one", 4: "a-list"}
    loops = dict(filter_single_c.loops)
    loops[0] = {"index": "n0", "inv": [
        "len(result) >= 0",
        # every atom emitted so far is an input atom of one of the models already handled
        "forall(lambda r: implies(0 <= r and r < len(result), exists(lambda t, a: 0 <= t and t < len(atoms) and result[r] == atoms[t] and 0 <= a and a < n0 and result[r].model == list(models.keys())[a])))",
        "G_one_per_slot(result)",
        "G_highest(result, atoms)",
        "G_no_clash(result, clash_distance)",
    ]}
    ghost = [g for g in filter_single_c.ghost if g["label"] != "one-model"] + [
        {"when": "before", "at": "result.extend(", "loop": 0, "label": "every-model-has-an-atom",
         "do": ["assert exists(lambda t: 0 <= t and t < len(atoms) and atoms[t].model == model)"]},
        {"when": "before", "at": "unique_atoms = {}", "label": "one-model",
         "do": ["assert forall(lambda t: implies(0 <= t and t < len(atoms), atoms[t].model == atoms[0].model))"]},
        # termination measure of the current activation: more than one key in `models` means two atoms of different models
        {"when": "before", "at": "result: List[Atom] = []", "label": "termination-two-models",
         "do": ["assert list(models.keys())[0] != list(models.keys())[1]",
                "assert exists(lambda t: 0 <= t and t < len(atoms) and atoms[t].model == list(models.keys())[0]) and exists(lambda u: 0 <= u and u < len(atoms) and atoms[u].model == list(models.keys())[1])",
                "assert exists(lambda t: 0 <= t and t < len(atoms) and atoms[t].model != atoms[0].model)"]},
    ]


class parse_pdb_decode_c:
    """D = the atoms decoded from the lines (before filter_clashing_atoms); SRC[j] = line of D[j]; MS[j] = line of the MODEL
    record governing D[j] (-1: none); POS[l] = position in D of the atom of line l"""
    params = {"pdb": "IO"}
    # a file without any ATOM/HETATM record makes filter_clashing_atoms([]) raise ValueError (see there): excluded here
    requires = ["wf_pdb(pdb.lines)", "exists(lambda l: 0 <= l and l < len(pdb.lines) and is_atom_line(pdb.lines[l]))"]
    returns = "tuple[list[rec[Atom]],dict[rec[ResidueAuth],str],dict[str,str],dict[str,bool]]"
    ghost_returns = {"D": "list[rec[Atom]]", "SRC": "list[int]", "MS": "list[int]", "POS": "list[int]"}
    ensures = [
        # every ATOM/HETATM record is decoded exactly once, in file order
        "len(SRC) == len(D) and forall(lambda j: implies(0 <= j and j < len(D), 0 <= SRC[j] and SRC[j] < len(pdb.lines) and is_atom_line(pdb.lines[SRC[j]])))",
        "forall(lambda j, j2: implies(0 <= j and j < j2 and j2 < len(D), SRC[j] < SRC[j2]))",
        "forall(lambda l: implies(0 <= l and l < len(pdb.lines) and is_atom_line(pdb.lines[l]), 0 <= POS[l] and POS[l] < len(D) and SRC[POS[l]] == l))",
        # chain, number (including negative), insertion code, names, coordinates, occupancy exactly as written; model = MODEL record
        "forall(lambda j: implies(0 <= j and j < len(D), decoded(D[j], pdb.lines[SRC[j]], model_of(pdb.lines, MS[j]))))",
        # ... the last MODEL record before the atom's line (none: model 1)
        "len(MS) == len(D) and forall(lambda j: implies(0 <= j and j < len(D), 0 - 1 <= MS[j] and MS[j] < SRC[j] and implies(MS[j] >= 0, is_model_line(pdb.lines[MS[j]]))))",
        "forall(lambda j, l: implies(0 <= j and j < len(D) and MS[j] < l and l < SRC[j], not is_model_line(pdb.lines[l])))",
        # the returned atoms are filter_clashing_atoms(D, 0.5) (that function's contract)
        "G_from_input(result[0], D) and G_one_per_slot(result[0])",
        "G_highest(result[0], D)",
        "G_no_clash(result[0], 0.5)",
    ]
    ensures_labels = {6: "returned-atoms-are-decoded-atoms-one-per-model-residue-and-name", 7: "the-highest-occupancy-copy-is-returned",
                      8: "of-two-returned-atoms-of-a-model-within-0.5-A-only-one",
                      0: "decoded-atoms-come-from-ATOM-HETATM-records", 1: "in-file-order-each-once", 2: "every-ATOM-HETATM-record-is-decoded",
                      3: "fields-exactly-as-written-in-the-PDB-columns", 4: "model-is-a-preceding-MODEL-record-or-1", 5: "model-is-the-LAST-preceding-MODEL-record"}
    raises = []
    modifies = []
    locals = {"atoms_to_process": "list[rec[Atom]]", "modified": "dict[rec[ResidueAuth],str]"}
    ghost_entry = ["let SRC = empty('list[int]')", "let MS = empty('list[int]')", "let POS = empty('list[int]')", "let LM = 0 - 1",
                   "let D = empty('list[rec[Atom]]')"]
    loops = {0: {"index": "i", "inv": [
        "len(atoms_to_process) >= 0 and len(SRC) == len(atoms_to_process) and len(MS) == len(SRC) and len(POS) == i",
        "0 - 1 <= LM and LM < i and implies(LM >= 0, is_model_line(pdb.lines[LM]))",
        "forall(lambda l: implies(LM < l and l < i, not is_model_line(pdb.lines[l])))",
        "model == model_of(pdb.lines, LM)",
        "forall(lambda j: implies(0 <= j and j < len(SRC), 0 <= SRC[j] and SRC[j] < i and is_atom_line(pdb.lines[SRC[j]])))",
        "forall(lambda j: implies(0 <= j and j < len(SRC), decoded(atoms_to_process[j], pdb.lines[SRC[j]], model_of(pdb.lines, MS[j]))))",
        "forall(lambda j: implies(0 <= j and j < len(SRC), 0 - 1 <= MS[j] and MS[j] < SRC[j] and implies(MS[j] >= 0, is_model_line(pdb.lines[MS[j]]))))",
        "forall(lambda j, l: implies(0 <= j and j < len(SRC) and MS[j] < l and l < SRC[j], not is_model_line(pdb.lines[l])))",
        "forall(lambda j, j2: implies(0 <= j and j < j2 and j2 < len(SRC), SRC[j] < SRC[j2]))",
        "forall(lambda l: implies(0 <= l and l < i and is_atom_line(pdb.lines[l]), 0 <= POS[l] and POS[l] < len(SRC) and SRC[POS[l]] == l))",
    ]}}
    ghost = [
        {"when": "before", "at": "if line.startswith('MODEL')", "loop": 0, "label": "record-type",
         "do": ["use wfl_definition(pdb.lines, i)", "use record_names(line)"]},
        {"when": "after", "at": "model = int(", "loop": 0, "label": "model-record", "do": ["let LM = i"]},
        {"when": "after", "at": "atoms_to_process.append(", "loop": 0, "label": "atom-record",
         "do": ["use decoded_snoc(A0, SRC, MS, pdb.lines, atoms_to_process[len(atoms_to_process) - 1], i, LM)",
                "let SRC = snoc(SRC, i)", "let MS = snoc(MS, LM)"]},
        {"when": "before", "at": "atoms_to_process.append(", "loop": 0, "label": "remember", "do": ["let A0 = atoms_to_process"]},
        {"when": "before", "at": "atoms_to_process.append(", "loop": 0, "label": "names-as-written-in-columns-13-16-and-18-20",
         "do": ["assert atom_name == strip(col(line, 13, 16)) and auth.name == strip(col(line, 18, 20))"]},
        {"when": "before", "at": "atoms_to_process.append(", "loop": 0, "label": "chain-number-icode-as-written-in-columns-22-27",
         "do": ["assert auth.chain == col(line, 22, 22) and auth.number == int(strip(col(line, 23, 26))) and auth.icode == ite(col(line, 27, 27) == ' ', None, col(line, 27, 27))"]},
        {"when": "before", "at": "atoms_to_process.append(", "loop": 0, "label": "coordinates-occupancy-as-written-in-columns-31-60",
         "do": ["assert x == float(strip(col(line, 31, 38))) and y == float(strip(col(line, 39, 46))) and z == float(strip(col(line, 47, 54))) and occupancy == float(strip(col(line, 55, 60)))"]},
        {"when": "before", "at": "atoms_to_process.append(", "loop": 0, "label": "model-is-the-last-MODEL-record",
         "do": ["assert model == model_of(pdb.lines, LM)"]},
        {"when": "after", "at": "if line.startswith('MODEL')", "loop": 0, "label": "line-done", "do": ["let POS = snoc(POS, len(atoms_to_process) - 1)"]},
        {"when": "before", "at": "atoms = filter_clashing_atoms(", "label": "decoded", "do": ["let D = atoms_to_process"]},
    ]


CONTRACTS = {
    "IO.seek": io_seek_c,
    "IO.readlines": io_readlines_c,
    "filter_clashing_atoms": filter_clashing_atoms_c,
    "filter_clashing_atoms@single": filter_single_c,
    "KDTree.query_pairs": kd_query_pairs_c,
    "parse_pdb@decode": parse_pdb_decode_c,
    "is_cif": is_cif_c,
    "parse_cif": parse_cif_c,
    "parse_pdb": parse_pdb_c,
    "read_3d_structure": read_3d_structure_c,
    "get_residue_name": get_residue_name_c,
    "get_one_letter_name": get_one_letter_name_c,
    "detect_one_letter_name": detect_one_letter_name_c,
    "group_atoms": group_atoms_c,
}
