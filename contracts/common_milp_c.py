"""Sidecar contracts for the MILP encoder of rnapolis/common.py: BpSeq.dot_bracket and BpSeq.convert_to_dot_bracket
(properties C13 and C02).  Reuses the vocabulary and the proved contracts of contracts/common_c.py (stems, regions,
__make_dot_bracket, fcfs, the decoder) and adds the model of the third-party library pulp.

MODEL OF pulp (every entry of EXTERNALS below is an ASSUMED contract = trusted base, listed in props/C13.py / C02.py)
  * LpSolver objects (HiGHS_CMD(), LpSolverDefault): opaque objects with a writable flag `msg`; `available()` is any truth
    value; `pulp.LpSolverDefault` is any solver object or None (MODULE_ATTRS: symbolic module attribute).
  * LpVariable(name, lo, hi, cat): a new object (identity!) with name, bounds and the flag `integer` (cat == LpInteger);
    `varValue` (an int in this model) is only read after solve.
  * affine expressions and constraints: a FREE TERM ALGEBRA of immutable records - nothing is simplified or evaluated:
        LpMono(var, coef)                      var * int, int * var, mono * int   (coefficient products are integers)
        LpExpr kind 2 (var, var2)              var + var
        LpExpr kind 3 (items)                  lpSum(list of variables)
        LpExpr kind 4 (terms)                  lpSum(list of LpMono)
        LpExpr kind 1 (var, coef)              a single LpMono used as an expression
        LpCon(expr, sense, rhs)                expr <= int (sense -1), expr == int (0), expr >= int (+1)
  * LpProblem(name, sense): a new object with no objective and an empty constraint list `cons`; `problem += x` is pulp's
    LpProblem.__iadd__: a constraint is appended to `cons`, an affine expression becomes the objective, True is ignored,
    False raises TypeError.
  * problem.variables(): the variables occurring in the objective or a constraint, each once, in an arbitrary order
    (ghost: position of every occurring variable, and for every listed variable one place where it occurs).
  * problem.solve(solver): raises PulpSolverError or returns having set `status` to ANY integer and the variables' values to
    anything, except for T-solver (the single trusted fact about the solver, spec function t_solver): when status ==
    LpStatusOptimal and every variable of the problem is Integer (all_integer: an obligation at the call), every variable has
    an integer value within its bounds and the values satisfy every constraint in `cons` (sums over lists through the running
    sum `esum`, lemma esum_definition).  [The solver's optimality is NOT part of the model: no proof here uses it.]
  * itertools.combinations(range(n), 2), collections.defaultdict(set|list), str.split (lemma split3), int()/str() round trip
    (lemma int_str_roundtrip).
"""
import z3

from contracts import common_c
from contracts.common_c import *  # noqa: F401,F403  (CLASSES, CONTRACTS, LEMMAS, UFUNS, SPEC_CONSTS, INLINE, spec, OPEN, CLOSE ...)
from pyvc.expr import AND, NOT, OR, is_int
from pyvc.values import (Unsupported, VDict, VList, VRange, VRec, VRef, VSet, VTuple, VFunc, fresh, sel, sto, to_z3, uid)

__file_spec__ = [common_c.__file__, __file__]

# (the engine's DICT_ORDER_INVARIANT is NOT used: its bijection axioms order <-> rank form a matching loop; what is needed of
#  it is carried by the explicit invariants keys_ok / graph_pos below and proved like any other invariant)
SET_CARD_FUNCTION = True      # len(set of ints) is the uninterpreted, non-negative function len.set of the set value

CLASSES = dict(common_c.CLASSES)
CLASSES.update({
    "LpSolver": {"kind": "object", "fields": {"msg": "bool"}},
    "LpVariable": {"kind": "object", "fields": {"name": "str", "lo": "int", "hi": "int", "integer": "bool", "varValue": "int"}},
    "LpMono": {"kind": "record", "fields": {"var": "LpVariable", "coef": "int"}},
    "LpExpr": {"kind": "record", "fields": {"kind": "int", "var": "LpVariable", "coef": "int", "var2": "LpVariable",
                                            "items": "list[LpVariable]", "terms": "list[rec[LpMono]]"}},
    "LpCon": {"kind": "record", "fields": {"expr": "rec[LpExpr]", "sense": "int", "rhs": "int"}},
    "LpProblem": {"kind": "object", "fields": {"sense": "int", "has_objective": "bool", "objective": "rec[LpExpr]",
                                               "cons": "list[rec[LpCon]]", "status": "int"}},
})

MODULE_ATTRS = {"pulp.LpSolverDefault": "opt[LpSolver]"}

UFUNS = dict(common_c.UFUNS)
UFUNS.update({
    "degree30": (["int"], "bool"),     # "no stem of the structure crosses more than 29 other stems" (see degree30_definition)
    "numeral": (["str"], "bool"),      # "is a plain decimal numeral [0-9]+" (numeral_definition; keeps regular-language reasoning local)
    "times": (["int", "int"], "int"),  # x * y (times_definition): keeps non-linear arithmetic out of the quantified invariants
    "esum": (["int", "int"], "int"),   # running sum of the values of the first n variables of the list-sum constraint k
})


# ------------------------------------------------------------------------------------------------ assumed externals
def _alloc(e, st, cls):
    ref = VRef(cls, st.alloc)
    st.alloc = z3.simplify(to_z3(st.alloc) + 1)
    return ref


def _rec(e, cls, **given):
    r = e.default_of(("rec", cls))
    for f, v in given.items():
        r.fields[f] = e.coerce(v, e.shape(CLASSES[cls]["fields"][f]))
    return r


def _defaultdict(e, args, kw, node, st):
    """collections.defaultdict(factory), factory in {set, list}: an empty dict whose missing-key read inserts factory()"""
    from pyvc.engine import VEmptyDict
    f = args[0] if args else None
    if not (isinstance(f, VFunc) and f.kind == "builtin" and f.payload in ("set", "list")) or len(args) != 1 or kw:
        raise Unsupported("defaultdict with this factory")
    return VEmptyDict(default=f.payload)


def _combinations(e, args, kw, node, st):
    """itertools.combinations(range(lo, hi), 2): a list C of pairs (a, b), lo <= a < b < hi, in which every such pair occurs
    exactly once (ghost `combinations_pos`: the position of the pair (a, b)).  [The lexicographic order is not assumed.]"""
    if len(args) != 2 or not isinstance(args[0], VRange) or args[1] != 2 or kw:
        raise Unsupported("itertools.combinations: only combinations(range(..), 2) is modelled")
    lo, hi = to_z3(args[0].lo), to_z3(args[0].hi)
    C = fresh(("list", ("tuple", (("int",), ("int",)))), uid("combinations"))
    POS = fresh(("dict", ("tuple", (("int",), ("int",))), ("int",)), uid("combinations.pos"))
    n = to_z3(C.length)
    q, a, b = z3.Int(uid("q")), z3.Int(uid("a")), z3.Int(uid("b"))
    cq = sel(C.elems, q)
    c0, c1 = cq.items
    st.assume(n >= 0)
    st.assume(z3.ForAll([q], z3.Implies(z3.And(q >= 0, q < n), z3.And(lo <= c0, c0 < c1, c1 < hi, sel(POS.vals, c0, c1) == q))))
    pab = sel(POS.vals, a, b)
    at = sel(C.elems, pab)
    st.assume(z3.ForAll([a, b], z3.Implies(z3.And(lo <= a, a < b, b < hi), z3.And(pab >= 0, pab < n, at.items[0] == a, at.items[1] == b))))
    st.ghost["combinations_pos"] = POS
    return C


def _split(e, args, kw, node, st):
    """s.split(sep) for a non-empty constant separator: a list of at least one string, named by the uninterpreted functions
    str.split.len (its length) / str.split.parts (its elements) of (s, sep); what is assumed about them: lemma split3"""
    if len(args) != 2 or not isinstance(args[1], str) or not args[1]:
        raise Unsupported("str.split: only split(<non-empty constant separator>) is modelled")
    s, sep = to_z3(args[0]), z3.StringVal(args[1])
    ln = e.ufun("str.split.len", z3.StringSort(), z3.StringSort(), z3.IntSort())(s, sep)
    parts = e.ufun("str.split.parts", z3.StringSort(), z3.StringSort(), z3.ArraySort(z3.IntSort(), z3.StringSort()))(s, sep)
    if st is not None:
        st.assume(ln >= 1)
    return VList(ln, parts, ("str",))


def _HiGHS_CMD(e, args, kw, node, st):
    """pulp.HiGHS_CMD(): a new solver object"""
    return _alloc(e, st, "LpSolver")


def _available(e, args, kw, node, st):
    """solver.available(): any truth value (whether the HiGHS binary is installed is unknown)"""
    return z3.Bool(uid("available"))


_available.pure = True


def _LpProblem(e, args, kw, node, st):
    """pulp.LpProblem(name, sense): a new problem without objective and without constraints, status LpStatusNotSolved (0)"""
    p = _alloc(e, st, "LpProblem")
    e.heap_write(st, p, "sense", args[1] if len(args) > 1 else kw.get("sense", 1))
    e.heap_write(st, p, "has_objective", False)
    e.heap_write(st, p, "objective", e.default_of(("rec", "LpExpr")))
    e.heap_write(st, p, "cons", e.default_of(e.shape("list[rec[LpCon]]")))
    e.heap_write(st, p, "status", 0)
    return p


def _LpVariable(e, args, kw, node, st):
    """pulp.LpVariable(name, lowBound, upBound, cat): a new variable object (the value is unset until a solver ran);
    the category is kept as the flag `integer` (cat == LpInteger)"""
    if len(args) != 4 or kw or not (is_int(args[1]) and is_int(args[2])):
        raise Unsupported("LpVariable: only LpVariable(name, int, int, cat) is modelled")
    if args[3] not in ("Integer", "Continuous"):
        raise Unsupported("LpVariable: category must be the constant LpInteger or LpContinuous")
    v = _alloc(e, st, "LpVariable")
    for f, x in zip(("name", "lo", "hi", "integer"), (args[0], args[1], args[2], args[3] == "Integer")):
        e.heap_write(st, v, f, to_z3(x))
    return v


def _var_mul(e, args, kw, node, st):
    """var * n and n * var (n an int): the monomial n * var"""
    v, n = args
    if not is_int(n):
        raise Unsupported("LpVariable * non-integer")
    return _rec(e, "LpMono", var=v, coef=to_z3(n))


def _mono_mul(e, args, kw, node, st):
    """(c * var) * n: the monomial (c * n) * var"""
    m, n = args
    if not is_int(n):
        raise Unsupported("LpMono * non-integer")
    return _rec(e, "LpMono", var=m.fields["var"], coef=to_z3(m.fields["coef"]) * to_z3(n))


def _var_add(e, args, kw, node, st):
    """var + var2: the two-variable sum"""
    v, w = args
    if not (isinstance(w, VRef) and w.cls == "LpVariable"):
        raise Unsupported("LpVariable + this operand")
    return _rec(e, "LpExpr", kind=2, var=v, var2=w)


def _lpSum(e, args, kw, node, st):
    """pulp.lpSum(list): the sum of a list of variables (kind 3) or of a list of monomials (kind 4)"""
    L = args[0]
    if not isinstance(L, VList) or L.elems is None or kw or len(args) != 1:
        raise Unsupported("lpSum of this value")
    if L.eshape == ("ref", "LpVariable"):
        return _rec(e, "LpExpr", kind=3, items=L)
    if L.eshape == ("rec", "LpMono"):
        return _rec(e, "LpExpr", kind=4, terms=L)
    raise Unsupported(f"lpSum of a list of {L.eshape}")


def _cmp(sense):
    def f(e, args, kw, node, st):
        x, n = args
        if not is_int(n):
            raise Unsupported("constraint with a non-integer right-hand side")
        return _rec(e, "LpCon", expr=x, sense=sense, rhs=to_z3(n))
    f.__doc__ = f"expr <op> n: the constraint record (expr, sense {sense}, n)"
    return f


def _iadd(e, args, kw, node, st):
    """problem += x  (pulp.LpProblem.__iadd__): True -> nothing; False -> TypeError; a constraint -> appended to the constraint
    list; an affine expression / monomial / variable -> becomes the objective; anything else -> TypeError"""
    p, x = args
    if x is True:
        return p
    if x is False:
        e.may_raise(True, "TypeError", node)
        return p
    if isinstance(x, VRec) and x.cls == "LpCon":
        cons = e.heap_read(st, p, "cons")
        e.heap_write(st, p, "cons", VList(to_z3(cons.length) + 1, sto(cons.elems, [to_z3(cons.length)], x), cons.eshape))
        return p
    if isinstance(x, VRec) and x.cls == "LpMono":
        x = _rec(e, "LpExpr", kind=1, var=x.fields["var"], coef=x.fields["coef"])
    elif isinstance(x, VRef) and x.cls == "LpVariable":
        x = _rec(e, "LpExpr", kind=1, var=x, coef=1)
    if isinstance(x, VRec) and x.cls == "LpExpr":
        e.heap_write(st, p, "objective", x)
        e.heap_write(st, p, "has_objective", True)
        return p
    if isinstance(x, (VRef, VRec, VList, VTuple, VDict, VSet)) or x is None or isinstance(x, str):
        e.may_raise(True, "TypeError", node)
        return p
    raise Unsupported("problem += this value")


_iadd.writes = ["LpProblem.cons", "LpProblem.objective", "LpProblem.has_objective"]

T_SOLVER = "implies(problem.status == 1 and all_integer(problem), t_solver(problem))"


def _solve(e, args, kw, node, st):
    """problem.solve(solver): raises PulpSolverError, or returns with status = ANY integer and arbitrary variable values,
    constrained only by T-solver (spec function t_solver): status == LpStatusOptimal (1) implies that the values are a
    feasible point of the model that was built"""
    p = args[0]
    e.may_raise(z3.Bool(uid("solve_raises")), "PulpSolverError", node)
    e.havoc_heap(st, "LpVariable.varValue")
    status = z3.Int(uid("status"))
    e.heap_write(st, p, "status", status)
    s2 = st.copy()
    s2.env = {"problem": p}
    st.assume(to_z3(e.spec_eval(T_SOLVER, s2)))
    return status


def _variables(e, args, kw, node, st):
    """problem.variables(): the list of the variables occurring in the objective or in a constraint, each once, in an
    arbitrary order (spec function variables_contract; ghosts variables_pos / variables_wk / variables_wq)"""
    p = args[0]
    VL = fresh(("list", ("ref", "LpVariable")), uid("variables"))
    st.assume(to_z3(VL.length) >= 0)
    s2 = st.copy()
    s2.env = {"P": p, "VL": VL}
    for g in ("POS", "WK", "WQ"):
        s2.env[g] = fresh(("list", ("int",)), uid("variables." + g))
        st.ghost["variables_" + g.lower()] = s2.env[g]
    st.assume(to_z3(e.spec_eval("variables_contract(P, VL, POS, WK, WQ)", s2)))
    return VL


def _getName(e, args, kw, node, st):
    """variable.getName(): the name given at construction"""
    return e.heap_read(st, args[0], "name")


_getName.pure = True

# keys: "module.qualname" of the real callable, or its bare qualname (the pulp callables live in version-dependent submodules)
EXTERNALS = {
    "collections.defaultdict": _defaultdict,
    "itertools.combinations": _combinations,
    "str.split": _split,
    "HiGHS_CMD": _HiGHS_CMD,
    "LpSolver.available": _available,
    "LpProblem": _LpProblem,
    "LpVariable": _LpVariable,
    "lpSum": _lpSum,
    "LpVariable.__mul__": _var_mul,
    "LpVariable.__rmul__": _var_mul,
    "LpMono.__mul__": _mono_mul,
    "LpVariable.__add__": _var_add,
    "LpExpr.__le__": _cmp(-1),
    "LpExpr.__eq__": _cmp(0),
    "LpExpr.__ge__": _cmp(1),
    "LpProblem.__iadd__": _iadd,
    "LpProblem.solve": _solve,
    "LpProblem.variables": _variables,
    "LpVariable.getName": _getName,
}


# ------------------------------------------------------------------------------------------------ vocabulary: the solver
@spec
def in_bounds(v):
    """the (integer) value of variable v lies within its bounds"""
    return v.lo <= v.varValue and v.varValue <= v.hi


@spec
def all_integer(P):
    """every variable of the problem is of category Integer (only then does the model's `varValue: int` describe the
    solver's values; T-solver is claimed for such problems only)"""
    return (forall(lambda k: implies(0 <= k and k < len(P.cons) and (P.cons[k].expr.kind == 1 or P.cons[k].expr.kind == 2), P.cons[k].expr.var.integer))
            and forall(lambda k: implies(0 <= k and k < len(P.cons) and P.cons[k].expr.kind == 2, P.cons[k].expr.var2.integer))
            and forall(lambda k, q: implies(0 <= k and k < len(P.cons) and P.cons[k].expr.kind == 3 and 0 <= q and q < len(P.cons[k].expr.items),
                                            P.cons[k].expr.items[q].integer))
            and forall(lambda k, q: implies(0 <= k and k < len(P.cons) and P.cons[k].expr.kind == 4 and 0 <= q and q < len(P.cons[k].expr.terms),
                                            P.cons[k].expr.terms[q].var.integer))
            and implies(P.has_objective and (P.objective.kind == 1 or P.objective.kind == 2), P.objective.var.integer)
            and implies(P.has_objective and P.objective.kind == 2, P.objective.var2.integer)
            and implies(P.has_objective and P.objective.kind == 3, forall(lambda q: implies(0 <= q and q < len(P.objective.items), P.objective.items[q].integer)))
            and implies(P.has_objective and P.objective.kind == 4, forall(lambda q: implies(0 <= q and q < len(P.objective.terms), P.objective.terms[q].var.integer))))


@spec
def rel(sense, lhs, rhs):
    """lhs <sense> rhs:  -1: <=,  0: ==,  +1: >="""
    return implies(sense == -1, lhs <= rhs) and implies(sense == 0, lhs == rhs) and implies(sense == 1, lhs >= rhs)


@spec
def t_solver(P):
    """T-solver: the values reported with status Optimal are integers within the variables' bounds and satisfy every
    constraint that was added (two-variable sums; sums of lists of variables through the running sum esum(k, n) of
    constraint k, characterised by lemma esum_definition)"""
    return (forall(lambda k: implies(0 <= k and k < len(P.cons) and P.cons[k].expr.kind == 2,
                                     rel(P.cons[k].sense, P.cons[k].expr.var.varValue + P.cons[k].expr.var2.varValue, P.cons[k].rhs)
                                     and in_bounds(P.cons[k].expr.var) and in_bounds(P.cons[k].expr.var2)))
            and forall(lambda k: implies(0 <= k and k < len(P.cons) and P.cons[k].expr.kind == 3,
                                         rel(P.cons[k].sense, esum(k, len(P.cons[k].expr.items)), P.cons[k].rhs)))
            and forall(lambda k, q: implies(0 <= k and k < len(P.cons) and P.cons[k].expr.kind == 3 and 0 <= q and q < len(P.cons[k].expr.items),
                                            in_bounds(P.cons[k].expr.items[q])))
            and implies(P.has_objective and P.objective.kind == 4,
                        forall(lambda q: implies(0 <= q and q < len(P.objective.terms), in_bounds(P.objective.terms[q].var)))))


@spec
def esum_def(P):
    return forall(lambda k, n: implies(0 <= k and k < len(P.cons) and P.cons[k].expr.kind == 3 and 0 <= n and n <= len(P.cons[k].expr.items),
                                       esum(k, n) == ite(n == 0, 0, esum(k, n - 1) + P.cons[k].expr.items[n - 1].varValue)),
                  pats=["esum(k, n)"])


@spec
def esum_witness_pre(P, k, n):
    return (0 <= k and k < len(P.cons) and P.cons[k].expr.kind == 3 and 0 <= n and n <= len(P.cons[k].expr.items)
            and forall(lambda q: implies(0 <= q and q < n, 0 <= P.cons[k].expr.items[q].varValue and P.cons[k].expr.items[q].varValue <= 1)))


@spec
def occurs_at(P, v, k, q):
    """variable v stands at place (k, q): k == -1: in the objective (q-th monomial / first or second variable);
    k >= 0: in constraint k (q-th item of a list sum / first (q == 0) or second (q == 1) variable of a two-variable sum)"""
    return ((k == -1 and P.has_objective
             and ((P.objective.kind == 4 and 0 <= q and q < len(P.objective.terms) and P.objective.terms[q].var is v)
                  or (P.objective.kind == 3 and 0 <= q and q < len(P.objective.items) and P.objective.items[q] is v)
                  or ((P.objective.kind == 1 or P.objective.kind == 2) and q == 0 and P.objective.var is v)
                  or (P.objective.kind == 2 and q == 1 and P.objective.var2 is v)))
            or (0 <= k and k < len(P.cons)
                and ((P.cons[k].expr.kind == 3 and 0 <= q and q < len(P.cons[k].expr.items) and P.cons[k].expr.items[q] is v)
                     or (P.cons[k].expr.kind == 4 and 0 <= q and q < len(P.cons[k].expr.terms) and P.cons[k].expr.terms[q].var is v)
                     or ((P.cons[k].expr.kind == 1 or P.cons[k].expr.kind == 2) and q == 0 and P.cons[k].expr.var is v)
                     or (P.cons[k].expr.kind == 2 and q == 1 and P.cons[k].expr.var2 is v))))


@spec
def listed(v, VL, POS):
    return 0 <= POS[ident(v)] and POS[ident(v)] < len(VL) and VL[POS[ident(v)]] is v


@spec
def expr_listed(x, VL, POS):
    """every variable of the expression x is listed in VL (at its position POS[identity])"""
    return (implies(x.kind == 1 or x.kind == 2, listed(x.var, VL, POS)) and implies(x.kind == 2, listed(x.var2, VL, POS))
            and implies(x.kind == 3, forall(lambda q: implies(0 <= q and q < len(x.items), listed(x.items[q], VL, POS))))
            and implies(x.kind == 4, forall(lambda q: implies(0 <= q and q < len(x.terms), listed(x.terms[q].var, VL, POS)))))


@spec
def variables_contract(P, VL, POS, WK, WQ):
    """VL lists every variable that occurs in the objective or in a constraint (at its position POS[identity]), each once,
    and only those (VL[p] occurs at place (WK[p], WQ[p]))"""
    return (forall(lambda k: implies(0 <= k and k < len(P.cons), expr_listed(P.cons[k].expr, VL, POS)))
            and implies(P.has_objective, expr_listed(P.objective, VL, POS))
            and forall(lambda p: implies(0 <= p and p < len(VL), POS[ident(VL[p])] == p and occurs_at(P, VL[p], WK[p], WQ[p]))))


# ------------------------------------------------------------------------------------------------ vocabulary: the model
@spec
def cross(R, a, b):
    return crossing(R[a][0], R[a][1], R[b][0], R[b][1])


@spec
def graph_ok(G, R):
    """keys and neighbours are region indices, neighbours cross, the relation is symmetric"""
    return (forall(lambda a: implies(a in G, 0 <= a and a < len(R)))
            and forall(lambda a, b: implies(a in G and b in G[a], 0 <= b and b < len(R) and cross(R, a, b) and b in G and a in G[b])))


@spec
def keys_ok(D):
    """the key list of an insertion-ordered dict lists keys of the dict"""
    return (len(list(D.keys())) >= 0
            and forall(lambda p: implies(0 <= p and p < len(list(D.keys())), list(D.keys())[p] in D)))


@spec
def graph_pos(G, GPOS):
    """ghost position of every key in the key list (instantiated only where a position is named)"""
    return forall(lambda a: implies(a in G, 0 <= GPOS[a] and GPOS[a] < len(list(G.keys())) and list(G.keys())[GPOS[a]] == a), pats=["GPOS[a]"])


@spec
def graph_upto(G, R, CPOS, c):
    """every crossing pair among the first c index pairs is an edge"""
    return forall(lambda a, b: implies(0 <= a and a < b and b < len(R) and CPOS[(a, b)] < c and cross(R, a, b), a in G and b in G[a]))


@spec
def graph_exact(G, R):
    """C02 (1): j in graph[i] iff the regions i and j cross"""
    return (graph_ok(G, R)
            and forall(lambda a, b: implies(0 <= a and a < len(R) and 0 <= b and b < len(R) and cross(R, a, b), a in G and b in G[a])))


DIGITS = "[0-9]+"


@spec
def parses_as(nm, a, b):
    """what the read-back does with a variable name: nm.split('_') has three parts, the last two are plain decimal numerals
    denoting a and b"""
    return (len(nm.split('_')) == 3 and numeral(nm.split('_')[1]) and numeral(nm.split('_')[2])
            and int(nm.split('_')[1]) == a and int(nm.split('_')[2]) == b)


@spec
def var_ok(v, GI, GJ, VRO, RBV, R):
    """v is the decision variable of cell (GI[v], GJ[v]): bounds 0..1, integer; the two dictionaries know it (its name: vars_named)"""
    return (v.lo == 0 and v.hi == 1 and v.integer
            and (GI[ident(v)], GJ[ident(v)]) in VRO and VRO[(GI[ident(v)], GJ[ident(v)])] is v
            and v in RBV and RBV[v] == R[GI[ident(v)]])


@spec
def before(a, o, i, j):
    """cell (a, o) was filled before the cursor (i, j) of the row-wise double loop"""
    return 0 <= a and 0 <= o and (a < i or (a == i and o < j))


@spec
def vars_fwd(A1, A2, GI, GJ, VRO, RBV, R, i, j, M):
    """C02 (3): every object created since A1 is the variable x_a_o of a cell (a, o), o < M, before the cursor (i, j) of the
    row-wise double loop (GI, GJ: ghost row / column of a variable; VRO: the code's dictionary (row, column) -> variable)"""
    return forall(lambda v: implies(A1 <= ident(v) and ident(v) < A2,
                                    var_ok(v, GI, GJ, VRO, RBV, R) and GJ[ident(v)] < M and before(GI[ident(v)], GJ[ident(v)], i, j)),
                  sorts={"v": "LpVariable"})


@spec
def vars_named(A1, A2, GI, GJ):
    """every variable created since A1 carries the name x_<row>_<column>, in the form the read-back uses (parses_as).
    (A clause of its own, instantiated only where a name is looked at: every instance brings string-sorted terms.)"""
    return forall(lambda v: implies(A1 <= ident(v) and ident(v) < A2, parses_as(v.name, GI[ident(v)], GJ[ident(v)])),
                  sorts={"v": "LpVariable"}, pats=["v.name"])


@spec
def vars_bwd(A1, A2, GI, GJ, VRO, i, j, M):
    """... and every such cell has its variable (so: exactly one variable per cell)"""
    return forall(lambda a, o: implies(before(a, o, i, j) and o < M,
                                       (a, o) in VRO and A1 <= ident(VRO[(a, o)]) and ident(VRO[(a, o)]) < A2
                                       and GI[ident(VRO[(a, o)])] == a and GJ[ident(VRO[(a, o)])] == o))


@spec
def ours(v, A1, A2):
    return A1 <= ident(v) and ident(v) < A2


@spec
def rows_ok(VBR, VRO, i, j, M):
    """vars_by_region: key a (inserted in increasing order) holds the variables of row a in column order"""
    return (len(list(VBR.keys())) == ite(j > 0, i + 1, i)
            and forall(lambda a: implies(0 <= a and a < ite(j > 0, i + 1, i), list(VBR.keys())[a] == a and a in VBR))
            and forall(lambda a: implies(a in VBR, 0 <= a and a < ite(j > 0, i + 1, i)))
            and forall(lambda a: implies(a in VBR, len(VBR[a]) == ite(a < i, M, j)))
            and forall(lambda a, o: implies(a in VBR and 0 <= o and o < len(VBR[a]), VBR[a][o] is VRO[(a, o)])))


@spec
def cols_ok(VBO, VRO, A1, A2):
    """vars_by_order (as far as C13 needs it): every listed variable is one of ours"""
    return (keys_ok(VBO)
            and forall(lambda o, q: implies(o in VBO and 0 <= q and q < len(VBO[o]), ours(VBO[o][q], A1, A2))))


@spec
def region_cons(P, VRO, n, M):
    """C02 (5a): constraint a < n is  sum_o x_a_o == 1  (two flat clauses; the second is instantiated at items only)"""
    return (forall(lambda a: implies(0 <= a and a < n, P.cons[a].expr.kind == 3 and P.cons[a].sense == 0 and P.cons[a].rhs == 1
                                     and len(P.cons[a].expr.items) == M))
            and forall(lambda a, o: implies(0 <= a and a < n and 0 <= o and o < M, P.cons[a].expr.items[o] is VRO[(a, o)]),
                       pats=["ident(P.cons[a].expr.items[o])"]))


@spec
def adj_cons(P, n, A1, A2):
    """the constraints behind the first n are two-variable sums over our variables"""
    return forall(lambda k: implies(n <= k and k < len(P.cons), P.cons[k].expr.kind == 2 and ours(P.cons[k].expr.var, A1, A2) and ours(P.cons[k].expr.var2, A1, A2)))


@spec
def adj_at(P, VRO, ADJ, a, b, o):
    """ADJ names the constraint  x_a_o + x_b_o <= 1"""
    return ((a, b, o) in ADJ and 0 <= ADJ[(a, b, o)] and ADJ[(a, b, o)] < len(P.cons)
            and P.cons[ADJ[(a, b, o)]].expr.kind == 2 and P.cons[ADJ[(a, b, o)]].sense == -1 and P.cons[ADJ[(a, b, o)]].rhs == 1
            and P.cons[ADJ[(a, b, o)]].expr.var is VRO[(a, o)] and P.cons[ADJ[(a, b, o)]].expr.var2 is VRO[(b, o)])


@spec
def adj_recorded(P, VRO, ADJ):
    return forall(lambda a, b, o: implies((a, b, o) in ADJ, adj_at(P, VRO, ADJ, a, b, o)))


@spec
def objective_ok(P, A1, A2):
    """(as far as C13 needs it) the objective is a sum of monomials over our variables"""
    return (P.has_objective and P.objective.kind == 4
            and forall(lambda q: implies(0 <= q and q < len(P.objective.terms), ours(P.objective.terms[q].var, A1, A2))))


@spec
def cols_full(VBO, VRO, i, j, M):
    """vars_by_order: key o (inserted in increasing order) holds the variables of column o in row order"""
    return (len(list(VBO.keys())) == ite(i > 0, M, j)
            and forall(lambda o: implies(0 <= o and o < ite(i > 0, M, j), list(VBO.keys())[o] == o and o in VBO))
            and forall(lambda o: implies(o in VBO, 0 <= o and o < ite(i > 0, M, j)))
            and forall(lambda o: implies(o in VBO, len(VBO[o]) == ite(o < j, i + 1, i)))
            and forall(lambda o, a: implies(o in VBO and 0 <= a and a < len(VBO[o]), VBO[o][a] is VRO[(a, o)])))


@spec
def coef(R, a, o):
    """C02 (4): objective coefficient of x_a_o: +length on level 0, -length * level above (times(x, y) is x * y: lemma
    times_definition - the product is kept uninterpreted inside the quantified invariants)"""
    return ite(o == 0, R[a][2], times(-1 * R[a][2], o))


@spec
def terms_fwd(T, TPOS, R, GI, GJ, A1, A2, c, d):
    """C02 (4): every monomial of T is coef(a, o) * x_a_o for a cell (o, a) before the cursor (c, d) of the column-wise
    double loop, and sits at the ghost position TPOS[(a, o)] (so: at most one monomial per cell)"""
    return forall(lambda q: implies(0 <= q and q < len(T),
                                    ours(T[q].var, A1, A2) and before(GJ[ident(T[q].var)], GI[ident(T[q].var)], c, d)
                                    and T[q].coef == coef(R, GI[ident(T[q].var)], GJ[ident(T[q].var)])
                                    and TPOS[(GI[ident(T[q].var)], GJ[ident(T[q].var)])] == q))


@spec
def terms_bwd(T, TPOS, R, VRO, c, d):
    """... and every such cell has its monomial"""
    return forall(lambda a, o: implies(before(o, a, c, d) and a < len(R),
                                       0 <= TPOS[(a, o)] and TPOS[(a, o)] < len(T) and T[TPOS[(a, o)]].var is VRO[(a, o)]))


@spec
def terms_model(T, TPOS, R, GI, GJ, VRO, A1, A2, c, d):
    return terms_fwd(T, TPOS, R, GI, GJ, A1, A2, c, d) and terms_bwd(T, TPOS, R, VRO, c, d)


@spec
def objective_model(P, TPOS, R, GI, GJ, VRO, A1, A2, M):
    return P.has_objective and P.objective.kind == 4 and terms_model(P.objective.terms, TPOS, R, GI, GJ, VRO, A1, A2, M, 0)


@spec
def adj_model(P, G, VRO, EA, EB, EO, n, M):
    """C02 (5b, 'and nothing else'): every constraint behind the first n is  x_a_o + x_b_o <= 1  for an edge (a, b) = (EA[k],
    EB[k]) of the conflict graph and a level o = EO[k] < M"""
    return forall(lambda k: implies(n <= k and k < len(P.cons),
                                    P.cons[k].expr.kind == 2 and P.cons[k].sense == -1 and P.cons[k].rhs == 1
                                    and EA[k] in G and EB[k] in G[EA[k]] and 0 <= EO[k] and EO[k] < M
                                    and P.cons[k].expr.var is VRO[(EA[k], EO[k])] and P.cons[k].expr.var2 is VRO[(EB[k], EO[k])]))


@spec
def adj_complete(G, ADJ, M):
    """C02 (5b): every edge has its constraint on every level"""
    return forall(lambda a, b, o: implies(a in G and b in G[a] and 0 <= o and o < M, (a, b, o) in ADJ))


@spec
def degree_bound(G, R, M):
    """C02 (2): max_order == maximum vertex degree + 1; the degree of vertex a is len(graph[a]) (len.set), graph[a] being
    exactly the set of stems that cross stem a (graph_exact, C02 (1))"""
    return (graph_exact(G, R)
            and forall(lambda a: implies(a in G, card(G[a]) + 1 <= M))
            and exists(lambda a: a in G and card(G[a]) + 1 == M))


@spec
def same_graph(G, G0):
    return (forall(lambda a: (a in G) == (a in G0)) and forall(lambda a: implies(a in G0, G[a] == G0[a])))


LEMMAS = dict(common_c.LEMMAS)
LEMMAS.update({
    # property quantifier: "structures needing at most 30 bracket levels" - the MILP encoder needs the stronger degree bound
    "degree30_definition": {"kind": "definition", "params": ["s", "R", "a", "S"], "shapes": ["BpSeq", "list[tuple[int,int,int]]", "int", "set[int]"],
                            "ensures": ["implies(degree30(s) and 0 <= a and a < len(R) "
                                        "and forall(lambda b: (b in S) == (0 <= b and b < len(R) and cross(R, a, b))), card(S) <= 29)"]},
    "numeral_definition": {"kind": "definition", "params": ["t"], "shapes": ["str"], "ensures": ["numeral(t) == matches(t, DIGITS)"]},
    "numeral_definition_all": {"kind": "definition", "params": ["L"], "shapes": ["list[str]"],
                               "ensures": ["forall(lambda q: numeral(L[q]) == matches(L[q], DIGITS), pats=['L[q]'])"]},
    "esum_definition": {"kind": "definition", "params": ["P"], "ensures": ["esum_def(P)"]},
    "times_definition": {"kind": "definition", "params": ["x", "y"], "ensures": ["times(x, y) == x * y"]},
    # Python facts about str.split / int() / str()
    "split3": {"kind": "assumed-external", "params": ["a", "b", "c"], "shapes": ["str", "str", "str"],
               "ensures": ["implies(not ('_' in a) and not ('_' in b) and not ('_' in c), "
                           "len((a + '_' + b + '_' + c).split('_')) == 3 and (a + '_' + b + '_' + c).split('_')[0] == a "
                           "and (a + '_' + b + '_' + c).split('_')[1] == b and (a + '_' + b + '_' + c).split('_')[2] == c)"]},
    "int_str_roundtrip": {"kind": "assumed-external", "params": ["n"],
                          "ensures": ["implies(n >= 0, matches(str(n), '[0-9]+') and not ('_' in str(n)) and int(str(n)) == n)"]},
    # sums of 0/1 values (induction on the length of the prefix): non-negative; zero only if all summands are; at most one
    # summand is 1 if the sum is <= 1
    "esum_nonneg": {"kind": "smt", "params": ["P", "k", "n"], "shapes": ["LpProblem", "int", "int"], "requires": ["esum_def(P)"],
                    "decreases": "ite(n > 0, n, 0)",
                    "steps": ["assert implies(esum_witness_pre(P, k, n), esum(k, n) == ite(n == 0, 0, esum(k, n - 1) + P.cons[k].expr.items[n - 1].varValue))",
                              "use esum_nonneg(P, k, n - 1) when n > 0"],
                    "ensures": ["implies(esum_witness_pre(P, k, n), esum(k, n) >= 0)"]},
    "esum_zero": {"kind": "smt", "params": ["P", "k", "n"], "shapes": ["LpProblem", "int", "int"], "requires": ["esum_def(P)"],
                  "decreases": "ite(n > 0, n, 0)",
                  "steps": ["assert implies(esum_witness_pre(P, k, n), esum(k, n) == ite(n == 0, 0, esum(k, n - 1) + P.cons[k].expr.items[n - 1].varValue))",
                            "use esum_nonneg(P, k, n - 1) when n > 0", "use esum_zero(P, k, n - 1) when n > 0"],
                  "ensures": ["implies(esum_witness_pre(P, k, n) and esum(k, n) <= 0, "
                              "forall(lambda q: implies(0 <= q and q < n, P.cons[k].expr.items[q].varValue == 0)))"]},
    "esum_atmost": {"kind": "smt", "params": ["P", "k", "n"], "shapes": ["LpProblem", "int", "int"], "requires": ["esum_def(P)"],
                    "decreases": "ite(n > 0, n, 0)",
                    "steps": ["assert implies(esum_witness_pre(P, k, n), esum(k, n) == ite(n == 0, 0, esum(k, n - 1) + P.cons[k].expr.items[n - 1].varValue))",
                              "use esum_nonneg(P, k, n - 1) when n > 0", "use esum_zero(P, k, n - 1) when n > 0",
                              "use esum_atmost(P, k, n - 1) when n > 0"],
                    "ensures": ["implies(esum_witness_pre(P, k, n) and esum(k, n) <= 1, "
                                "forall(lambda q, w: implies(0 <= q and q < w and w < n, "
                                "not (P.cons[k].expr.items[q].varValue == 1 and P.cons[k].expr.items[w].varValue == 1))))"]},
    # sum of 0/1 values that is >= 1 has a summand equal to 1 (induction on the length of the prefix)
    "esum_witness": {"kind": "smt", "params": ["P", "k", "n"], "shapes": ["LpProblem", "int", "int"],
                     "requires": ["esum_def(P)"],
                     "decreases": "ite(n > 0, n, 0)",
                     "steps": ["let ok = esum_witness_pre(P, k, n)",
                               "assert implies(ok, esum(k, n) == ite(n == 0, 0, esum(k, n - 1) + P.cons[k].expr.items[n - 1].varValue))",
                               "use esum_witness(P, k, n - 1) when n > 0"],
                     "ensures": ["implies(esum_witness_pre(P, k, n) and esum(k, n) >= 1, "
                                 "exists(lambda q: 0 <= q and q < n and P.cons[k].expr.items[q].varValue == 1))"]},
})


# ------------------------------------------------------------------------------------------------ contracts
_ENS = ["len(result.structure) == len(self.entries)", "seq_of(self.entries, result.sequence)",
        "lossless(self.entries, result.pairs)", "fresh(result)"]
_ENS_LABELS = {0: "length", 1: "sequence", 2: "lossless", 3: "fresh"}
_REQ = ["valid(self.entries)", "levels30(self)", "degree30(self)"]

_VF = "vars_fwd(A1, frontier(), GI, GJ, var_by_region_order, region_by_var, regions, {i}, {j}, max_order)"
_VN = "vars_named(A1, frontier(), GI, GJ)"
_VB = "vars_bwd(A1, frontier(), GI, GJ, var_by_region_order, {i}, {j}, max_order)"
_VAR_FIELDS = ["LpVariable.name", "LpVariable.lo", "LpVariable.hi", "LpVariable.integer"]
_PROB_FIELDS = ["LpProblem.cons", "LpProblem.objective", "LpProblem.has_objective"]
_PROB_INV = ["problem is P0", "objective_ok(P0, A1, A2)"]
_ADJ_INV = _PROB_INV + ["same_graph(graph, G0)", "len(P0.cons) >= len(regions)",
                        "region_cons(P0, var_by_region_order, len(regions), max_order)",
                        "adj_cons(P0, len(regions), A1, A2)", "adj_recorded(P0, var_by_region_order, ADJ)",
                        "forall(lambda p, b, o: implies(0 <= p and p < c6 and b in G0[list(G0.keys())[p]] and 0 <= o and o < max_order, "
                        "(list(G0.keys())[p], b, o) in ADJ))"]


# readable tags of the loop invariants (obligation names: loop<k>.inv<j>[tag].init / .preserve), by the clause's first words
_INV_TAGS = [("graph_ok(", "edges-cross-and-are-symmetric"), ("graph_upto(", "every-crossing-pair-seen-is-an-edge"), ("keys_ok(", "key-list"),
             ("graph_pos(", "key-positions"), ("forall(lambda a: implies(a in graph, GW[a]", "every-key-has-a-neighbour"),
             ("vars_fwd(", "variables-are-cells-bounds-0-1-integer"), ("vars_bwd(", "one-variable-per-cell"), ("vars_named(", "names-parse-back"),
             ("rows_ok(", "vars_by_region"), ("cols_ok(", "vars_by_order"), ("cols_full(", "vars_by_order-columns"),
             ("terms_fwd(", "objective-terms-coefficients"), ("terms_bwd(", "objective-one-term-per-cell"), ("objective_ok(", "objective-set"),
             ("objective_model(", "objective-is-the-model"), ("region_cons(", "one-level-per-region-equals-1"),
             ("adj_cons(", "later-constraints-two-variable"), ("adj_recorded(", "adjacency-constraint-le-1"), ("adj_model(", "nothing-but-adjacency-constraints"),
             ("same_graph(", "graph-unchanged"), ("problem is P0", "same-problem"),
             ("forall(lambda p: implies(0 <= p and p < c9 and VL[p].varValue == 1", "orders-point-at-value-1"),
             ("forall(lambda a: implies(0 <= a and a < len(regions), 0 <= orders[a]", "orders-in-range"),
             ("forall(lambda p: implies(0 <= p and p < len(VL), ours(", "listed-variables-are-ours")]


def _labelled(loops):
    for lc in loops.values():
        lc["labels"] = {j: tag for j, text in enumerate(lc["inv"]) for pre, tag in _INV_TAGS if text.startswith(pre)}
    return loops


class convert_to_dot_bracket:
    """C13: whatever the solver does, the result is a lossless encoding; it is the value of self.fcfs whenever no optimal
    solution was delivered; nothing is raised"""
    target = "BpSeq.convert_to_dot_bracket"
    params = {"self": "BpSeq", "solver": "opt[LpSolver]"}
    requires = _REQ
    returns = "DotBracket"
    raises = []
    # (the LpProblem fields are written on the new problem object only; they are declared here instead of being framed in the
    # loops, because frame facts over the nested constraint lists are array-of-array equalities that slow every later proof)
    modifies = ["LpVariable.varValue"] + _PROB_FIELDS
    ensures = _ENS + ["implies(is_none(solver) or (ATTEMPTED and not SOLVED) or (SOLVED and STATUS != 1), VIA_FCFS)"]
    ensures_labels = {**_ENS_LABELS, 4: "fcfs-when-no-optimum"}
    locals = {"graph": "dict[int,set[int]]", "variables": "list[LpVariable]", "vars_by_region": "dict[int,list[LpVariable]]",
              "vars_by_order": "dict[int,list[LpVariable]]", "var_by_region_order": "dict[tuple[int,int],LpVariable]",
              "region_by_var": "dict[LpVariable,tuple[int,int,int]]", "terms": "list[rec[LpMono]]"}
    defaultdicts = ["graph", "vars_by_region", "vars_by_order"]
    # ghost results: what happened inside (set by the ghost blocks below)
    #   ATTEMPTED: problem.solve was called; SOLVED: it returned (did not raise); STATUS: the status it set; VIA_FCFS: the exit
    #   taken is a `return self.fcfs`
    ghost_returns = {"ATTEMPTED": "bool", "SOLVED": "bool", "STATUS": "int", "VIA_FCFS": "bool"}
    ghost_entry = ["let ATTEMPTED = False", "let SOLVED = False", "let STATUS = 0", "let VIA_FCFS = False", "mark ENTRY"]
    loops = _labelled({
        # for i, j in itertools.combinations(range(len(regions)), 2)
        0: {"index": "c0", "inv": ["graph_ok(graph, regions)", "graph_upto(graph, regions, combinations_pos, c0)",
                                   "keys_ok(graph)", "graph_pos(graph, GPOS)",
                                   # every key has a neighbour (ghost witness GW)
                                   "forall(lambda a: implies(a in graph, GW[a] in graph[a]))"]},
        # for i in range(len(regions)) / for j in range(max_order): the decision variables
        1: {"allocates": _VAR_FIELDS, "inv": ["frontier() >= A1", _VF.format(i="i", j="0"), _VB.format(i="i", j="0"), _VN,
                                              "rows_ok(vars_by_region, var_by_region_order, i, 0, max_order)",
                                              "cols_ok(vars_by_order, var_by_region_order, A1, frontier())"]},
        2: {"allocates": _VAR_FIELDS, "inv": ["frontier() >= A1", _VF.format(i="i", j="j"), _VB.format(i="i", j="j"), _VN,
                                              "rows_ok(vars_by_region, var_by_region_order, i, j, max_order)",
                                              "cols_ok(vars_by_order, var_by_region_order, A1, frontier())"]},
        # for order, vars in vars_by_order.items() / for var in vars: the objective terms
        3: {"index": "c3", "inv": ["forall(lambda q: implies(0 <= q and q < len(terms), ours(terms[q].var, A1, A2)))"]},
        4: {"index": "c4", "inv": ["forall(lambda q: implies(0 <= q and q < len(terms), ours(terms[q].var, A1, A2)))"]},
        # for region_vars in vars_by_region.values(): one level per region
        5: {"index": "c5", "writes": _PROB_FIELDS,
            "inv": _PROB_INV + ["len(P0.cons) == c5", "region_cons(P0, var_by_region_order, c5, max_order)"]},
        # for i in graph.keys() / for j in graph[i] / for order in range(max_order): adjacent regions on different levels
        6: {"index": "c6", "writes": _PROB_FIELDS, "inv": _ADJ_INV},
        7: {"index": "c7", "seq": "S7", "writes": _PROB_FIELDS,
            "inv": _ADJ_INV + ["i in G0 and len(S7) >= 0",
                               "forall(lambda q: implies(0 <= q and q < len(S7), S7[q] in G0[i]))",
                               "forall(lambda q, o: implies(0 <= q and q < c7 and 0 <= o and o < max_order, (i, S7[q], o) in ADJ))"]},
        8: {"writes": _PROB_FIELDS,
            "inv": _ADJ_INV + ["i in G0 and j in G0[i] and len(S7) >= 0",
                               "forall(lambda q: implies(0 <= q and q < len(S7), S7[q] in G0[i]))",
                               "forall(lambda q, o: implies(0 <= q and q < c7 and 0 <= o and o < max_order, (i, S7[q], o) in ADJ))",
                               "forall(lambda o: implies(0 <= o and o < order, (i, j, o) in ADJ))"]},
        # for variable in problem.variables(): read-back
        9: {"index": "c9", "iter": "VL", "inv": [
            "forall(lambda p: implies(0 <= p and p < len(VL), ours(VL[p], A1, A2)))",
            "len(orders) == len(regions)",
            "forall(lambda a: implies(0 <= a and a < len(regions), 0 <= orders[a] and orders[a] < max_order))",
            # a region one of whose variables with value 1 was seen points at a variable with value 1
            "forall(lambda p: implies(0 <= p and p < c9 and VL[p].varValue == 1, "
            "var_by_region_order[(GI[ident(VL[p])], orders[GI[ident(VL[p])]])].varValue == 1))"]},
    })
    ghost = [
        {"when": "before", "at": "return self.fcfs", "label": "fcfs-exit", "do": ["let VIA_FCFS = True", "unstash START"]},
        # the postcondition of __regions (regions are the stems, every pair in a region) is needed only as precondition of
        # __make_dot_bracket: set aside until then
        {"when": "before", "at": "regions = self.__regions", "label": "regions-mark", "do": ["mark RM"]},
        {"when": "after", "at": "regions = self.__regions", "label": "regions", "do": ["let GS = __regions_GS", "stash RM",
                                                                                       # likewise the quantified entry facts (valid(self.entries), heap well-formedness)
                                                                                       "mark START 0", "stash START"]},
        {"when": "before", "at": "for i, j in itertools.combinations", "label": "graph-positions", "do": ["let GPOS = fill(0, 0)", "let GW = fill(0, 0)"]},
        # ghost positions of the keys that the two statements `graph[i].add(j)`, `graph[j].add(i)` are about to insert
        {"when": "before", "at": "graph[i].add(j)", "label": "key-positions",
         "do": ["let GPOS = ite(j in graph, GPOS, upd(GPOS, j, len(list(graph.keys())) + ite(i in graph, 0, 1)))",
                "let GPOS = ite(i in graph, GPOS, upd(GPOS, i, len(list(graph.keys()))))",
                "let GW = upd(upd(GW, i, j), j, i)"]},
        {"when": "before", "at": "return self.__make_dot_bracket(regions, [0 for", "label": "no-crossing",
         "do": ["forall a | assert implies(a in graph, 0 <= GPOS[a] and GPOS[a] < len(list(graph.keys()))) | assert not (a in graph)",
                "forall a, b | assert implies(0 <= a and a < b and b < len(regions), not cross(regions, a, b))",
                "forall a, b | assert implies(0 <= a and a < len(regions) and 0 <= b and b < len(regions), not cross(regions, a, b))",
                "unstash RM", "unstash START"]},
        {"when": "before", "at": "max_order =", "label": "level-bound-mark", "do": ["mark LB"]},
        {"when": "after", "at": "max_order =", "label": "level-bound",
         "do": [
                "forall a, b | let CAB = 0 <= a and a < b and b < len(regions) and cross(regions, a, b) "
                "| assert implies(CAB, 0 <= combinations_pos[(a, b)] and combinations_pos[(a, b)] < c0) "
                "| assert implies(CAB, a in graph and b in graph[a]) | assert implies(CAB, b in graph and a in graph[b]) "
                "| assert implies(CAB, a in graph and b in graph[a] and b in graph and a in graph[b]) | pats regions[a][0]; regions[b][0]",
                "forall a, b | let CR = 0 <= a and a < len(regions) and 0 <= b and b < len(regions) and cross(regions, a, b) "
                "| assert implies(CR and a < b, a in graph and b in graph[a]) | assert implies(CR and b < a, cross(regions, b, a)) "
                "| assert implies(CR and b < a, a in graph and b in graph[a]) | assert implies(CR, a != b) "
                "| assert implies(CR, a in graph and b in graph[a]) | pats regions[a][0]; regions[b][0]",
                "assert graph_exact(graph, regions)",
                "forall a | use degree30_definition(self, regions, a, graph[a]) | assert implies(a in graph, card(graph[a]) <= 29)",
                "forall a | assert implies(a in graph, GW[a] in graph[a] and card(graph[a]) >= 1)",
                # max_order is (within one of) the size of the neighbour set of some key
                "assert exists(lambda p: 0 <= p and p < len(list(graph.keys())) and list(graph.keys())[p] in graph "
                "and card(graph[list(graph.keys())[p]]) <= max_order and max_order <= card(graph[list(graph.keys())[p]]) + 1)",
                "assert exists(lambda p: 0 <= p and p < len(list(graph.keys())) and list(graph.keys())[p] in graph "
                "and 1 <= card(graph[list(graph.keys())[p]]) and card(graph[list(graph.keys())[p]]) <= 29 "
                "and card(graph[list(graph.keys())[p]]) <= max_order and max_order <= card(graph[list(graph.keys())[p]]) + 1)",
                "assert 1 <= max_order and max_order <= 30",
                "assert len(list(graph.keys())) > 0 and list(graph.keys())[0] in graph",
                # only the bound is needed below: the defining facts of max / map / len are dropped
                "assert len(regions) >= 1",
                "summarize LB as 1 <= max_order and max_order <= 30 and len(regions) >= 1 and graph_exact(graph, regions)"]},
        {"when": "after", "at": "problem = pulp.LpProblem(", "label": "problem", "do": ["let P0 = problem"]},
        {"when": "before", "at": "for i in range(len(regions))", "label": "variables",
         "do": ["let A1 = frontier()", "let GI = fill(0, 0)", "let GJ = fill(0, 0)"]},
        {"when": "after", "at": "variable = pulp.LpVariable(", "label": "new-variable",
         "do": ["let GI = upd(GI, ident(variable), i)", "let GJ = upd(GJ, ident(variable), j)",
                # the string facts: proved from the five facts just stated alone (assert_last), inside a scope so that only the
                # conclusion stays in the context
                "scoped assert i >= 0 and j >= 0 | use int_str_roundtrip(i) | use int_str_roundtrip(j) "
                "| use split3('x', str(i), str(j)) | use numeral_definition(str(i)) | use numeral_definition(str(j)) "
                "| assert variable.name == 'x' + '_' + str(i) + '_' + str(j) "
                "| assert_last 7 parses_as(variable.name, i, j) | assert parses_as(variable.name, i, j)"]},
        {"when": "before", "at": "terms = []", "label": "variables-done", "do": ["let A2 = frontier()"]},
        {"when": "before", "at": "for i in graph.keys()", "label": "adjacency",
         "do": ["let ADJ = empty('dict[tuple[int,int,int],int]')", "let G0 = graph"]},
        {"when": "before", "at": "problem += var_by_region_order", "label": "adjacency-constraint",
         "do": ["let ADJ = dstore(ADJ, (i, j, order), len(P0.cons))"]},
        {"when": "after", "at": "problem.solve(solver)", "label": "solved",
         "do": ["let SOLVED = True", "let STATUS = P0.status", "use esum_definition(P0)",
                "assert all_integer(P0)"]},
        {"when": "before", "at": "problem.solve(solver)", "label": "solve-called", "do": ["let ATTEMPTED = True"]},
        {"when": "before", "at": "i, order = map(", "label": "parse-name",
         "do": ["let VI = GI[ident(variable)]", "let VJ = GJ[ident(variable)]", "assert parses_as(name, VI, VJ)",
                # the parsing statement is checked against the facts about this one name only: every quantified hypothesis
                # of the path is set aside while it executes (restored right after, see "parsed")
                "stash ENTRY",
                # int() of every element of name.split('_')[1:]: stated position-wise (the engine's raise condition quantifies
                # over the position), numerals unfolded to the regular language only here
                "assert forall(lambda q: implies(1 <= q and q < 3, numeral(name.split('_')[q])), pats=[\"name.split('_')[q]\"])",
                "use numeral_definition_all(name.split('_'))"]},
        {"when": "after", "at": "i, order = map(", "label": "parsed", "do": ["assert i == VI and order == VJ", "unstash ENTRY"]},
        {"when": "before", "at": "return self.__make_dot_bracket(regions, orders)", "label": "read-back",
         "do": [
             # every region has a variable with value 1 (its one-level constraint holds; sum of 0/1 values: lemma esum_witness)
             "forall a | assert implies(0 <= a and a < len(regions), esum_witness_pre(P0, a, max_order) and esum(a, max_order) >= 1)",
             "forall a | use esum_witness(P0, a, max_order) | assert implies(0 <= a and a < len(regions), "
             "exists(lambda o: 0 <= o and o < max_order and var_by_region_order[(a, o)].varValue == 1))",
             # ... which problem.variables() lists, so the loop has seen it
             "forall a, o | let IN = 0 <= a and a < len(regions) and 0 <= o and o < max_order "
             "| assert implies(IN, a < len(P0.cons) and P0.cons[a].expr.kind == 3 and o < len(P0.cons[a].expr.items) "
             "and P0.cons[a].expr.items[o] is var_by_region_order[(a, o)]) "
             "| assert implies(IN, listed(P0.cons[a].expr.items[o], VL, variables_pos)) "
             "| assert implies(IN, listed(var_by_region_order[(a, o)], VL, variables_pos) and GI[ident(var_by_region_order[(a, o)])] == a)",
             "forall a, o | assert implies(0 <= a and a < len(regions) and 0 <= o and o < max_order and var_by_region_order[(a, o)].varValue == 1, "
             "var_by_region_order[(a, orders[a])].varValue == 1)",
             "forall a | assert implies(0 <= a and a < len(regions), var_by_region_order[(a, orders[a])].varValue == 1)",
             # crossing regions: the adjacency constraint of the level of the first one (one chain over the same a, b)
             "forall a | assert implies(a in G0, 0 <= GPOS[a] and GPOS[a] < len(list(G0.keys())) and list(G0.keys())[GPOS[a]] == a)",
             "forall a, b, o | assert implies(a in G0 and b in G0[a] and 0 <= o and o < max_order, (a, b, o) in ADJ)",
             "forall a, b | let CR = 0 <= a and a < len(regions) and 0 <= b and b < len(regions) and cross(regions, a, b) "
             "| assert implies(CR, a in G0 and b in G0[a]) "
             "| assert implies(CR, (a, b, orders[a]) in ADJ) "
             "| assert implies(CR, adj_at(P0, var_by_region_order, ADJ, a, b, orders[a])) "
             "| assert implies(CR, var_by_region_order[(a, orders[a])].varValue + var_by_region_order[(b, orders[a])].varValue <= 1) "
             "| assert implies(CR, orders[a] != orders[b])",
             "assert proper(regions, orders)", "unstash RM", "unstash START"]},
    ]


def _with(loops, extra):
    out = {k: dict(v, inv=list(v["inv"]) + extra.get(k, [])) for k, v in loops.items()}
    return _labelled(out)


_VRO = "var_by_region_order"
_TF = "terms_fwd(terms, TPOS, regions, GI, GJ, A1, A2, {c}, {d})"
_TB = "terms_bwd(terms, TPOS, regions, var_by_region_order, {c}, {d})"
_OM = "objective_model(P0, TPOS, regions, GI, GJ, var_by_region_order, A1, A2, max_order)"
_AM = "adj_model(P0, G0, var_by_region_order, EA, EB, EO, len(regions), max_order)"
_IN = "0 <= a and a < len(regions) and 0 <= o and o < max_order"


class convert_to_dot_bracket_model(convert_to_dot_bracket):
    """C02 (second contract on the same function): the MILP model handed to the solver IS the model of the property -
    ghost asserts model-1 .. model-6 - and, with T-solver, the level assignment read back is proper; the result is the
    painting of the stems with that assignment.  (Optimality itself: see props/C02.py - not decided here.)"""
    ghost_returns = {**convert_to_dot_bracket.ghost_returns, "R": "list[tuple[int,int,int]]", "O": "list[int]", "G": "list[int]",
                     "MILP": "bool", "PLAIN": "bool"}
    ghost_entry = convert_to_dot_bracket.ghost_entry + [
        "let MILP = False", "let PLAIN = False", "let __make_dot_bracket_G = fill(0, 0)",
        "let R = empty('list[tuple[int,int,int]]')", "let O = fill(0, 0)"]
    ghost_exit = ["let G = __make_dot_bracket_G"]
    ensures = convert_to_dot_bracket.ensures + [
        # "crossing stems never share a bracket level": the result is the painting (OPEN/CLOSE[O[a]] on the strands of stem a,
        # dots elsewhere; G: inverse strand map) of the stems R of the structure with a proper level assignment O
        "implies(MILP or PLAIN, regions_match(self.entries, R) and proper(R, O) and region_map(G, R, len(self.entries), len(R)) "
        "and painted_g(result.structure, R, O, G))",
        # "a pseudoknot-free structure uses only round brackets": the MILP is only set up when two stems cross, and without
        # crossing stems every stem sits on level 0
        "implies(PLAIN, forall(lambda a: implies(0 <= a and a < len(R), O[a] == 0)))",
        "implies(MILP, exists(lambda a, b: 0 <= a and a < len(R) and 0 <= b and b < len(R) and cross(R, a, b)))",
    ]
    ensures_labels = {**convert_to_dot_bracket.ensures_labels, 5: "proper-level-assignment-painted", 6: "no-crossing-all-level-0",
                      7: "milp-only-when-knotted"}
    loops = _with(convert_to_dot_bracket.loops, {
        1: ["cols_full(vars_by_order, var_by_region_order, i, 0, max_order)"],
        2: ["cols_full(vars_by_order, var_by_region_order, i, j, max_order)"],
        3: ["len(terms) >= 0", _TF.format(c="c3", d="0"), _TB.format(c="c3", d="0")],
        4: ["len(terms) >= 0", _TF.format(c="c3", d="c4"), _TB.format(c="c3", d="c4")],
        5: [_OM], 6: [_OM, _AM], 7: [_OM, _AM], 8: [_OM, _AM],
    })
    ghost = [
        # (runs before the base contract's level-bound block, which drops the defining facts of max / map / len)
        {"when": "after", "at": "max_order =", "label": "model-2-level-bound",
         "do": ["mark M2",
                "forall a, b | let CAB = 0 <= a and a < b and b < len(regions) and cross(regions, a, b) "
                "| assert implies(CAB, 0 <= combinations_pos[(a, b)] and combinations_pos[(a, b)] < c0) "
                "| assert implies(CAB, a in graph and b in graph[a]) | assert implies(CAB, b in graph and a in graph[b]) "
                "| assert implies(CAB, a in graph and b in graph[a] and b in graph and a in graph[b]) | pats regions[a][0]; regions[b][0]",
                "forall a, b | let CR = 0 <= a and a < len(regions) and 0 <= b and b < len(regions) and cross(regions, a, b) "
                "| assert implies(CR and a < b, a in graph and b in graph[a]) | assert implies(CR and b < a, cross(regions, b, a)) "
                "| assert implies(CR and b < a, a in graph and b in graph[a]) | assert implies(CR, a != b) "
                "| assert implies(CR, a in graph and b in graph[a]) | pats regions[a][0]; regions[b][0]",
                "assert graph_exact(graph, regions)",
                "forall a | assert implies(a in graph, 0 <= GPOS[a] and GPOS[a] < len(list(graph.keys())) and list(graph.keys())[GPOS[a]] == a)",
                "forall a | assert implies(a in graph, card(graph[a]) + 1 <= max_order)",
                "assert exists(lambda p: 0 <= p and p < len(list(graph.keys())) and list(graph.keys())[p] in graph "
                "and card(graph[list(graph.keys())[p]]) + 1 == max_order)",
                "assert degree_bound(graph, regions, max_order)",
                "summarize M2 as 1 <= max_order"]},   # (the clause is recorded as an obligation; its lambda terms are not kept)
    ] + convert_to_dot_bracket.ghost + [
        {"when": "after", "at": "max_order =", "label": "model-1-conflict-graph", "do": ["assert graph_exact(graph, regions)"]},
        {"when": "before", "at": "terms = []", "label": "model-3-variables",
         "do": ["assert " + _VF.format(i="len(regions)", j="0") + " and " + _VB.format(i="len(regions)", j="0") + " and " + _VN,
                "let TPOS = empty('dict[tuple[int,int],int]')"]},
        {"when": "after", "at": "length = region_by_var[var][2]", "label": "term-position",
         "do": ["assert order == c3 and var is var_by_region_order[(c4, c3)] and GI[ident(var)] == c4 and GJ[ident(var)] == c3",
                "assert length == regions[c4][2] and ours(var, A1, A2)",
                "use times_definition(-1 * length, order)",
                "let TPOS = dstore(TPOS, (c4, c3), len(terms))"]},
        {"when": "after", "at": "problem += pulp.lpSum(terms)", "label": "model-4-objective", "do": ["assert " + _OM]},
        {"when": "before", "at": "for i in graph.keys()", "label": "edge-of-constraint",
         "do": ["let EA = fill(0, 0)", "let EB = fill(0, 0)", "let EO = fill(0, 0)"]},
        {"when": "before", "at": "problem += var_by_region_order", "label": "edge-of-constraint",
         "do": ["let EA = upd(EA, len(P0.cons), i)", "let EB = upd(EB, len(P0.cons), j)", "let EO = upd(EO, len(P0.cons), order)"]},
        {"when": "before", "at": "try:", "label": "model-5-constraints",
         "do": ["forall a | assert implies(a in G0, 0 <= GPOS[a] and GPOS[a] < len(list(G0.keys())) and list(G0.keys())[GPOS[a]] == a)",
                "assert adj_complete(G0, ADJ, max_order)",
                "assert region_cons(P0, var_by_region_order, len(regions), max_order) and " + _AM +
                " and adj_recorded(P0, var_by_region_order, ADJ) and " + _OM]},
        {"when": "before", "at": "return self.__make_dot_bracket(regions, [0 for", "label": "plain-exit",
         "do": ["let PLAIN = True", "let R = regions", "let O = fill(len(regions), 0)"]},
        {"when": "before", "at": "return self.__make_dot_bracket(regions, orders)", "label": "model-6-read-back",
         "do": ["forall a | let INA = 0 <= a and a < len(regions) "
                "| assert implies(INA, esum_witness_pre(P0, a, max_order) and esum(a, max_order) == 1) "
                "| use esum_atmost(P0, a, max_order) "
                "| assert implies(INA, forall(lambda q, w: implies(0 <= q and q < w and w < max_order, "
                "not (P0.cons[a].expr.items[q].varValue == 1 and P0.cons[a].expr.items[w].varValue == 1)))) "
                "| assert implies(INA, forall(lambda q: implies(0 <= q and q < max_order, "
                "var_by_region_order[(a, q)] is P0.cons[a].expr.items[q]), pats=['ident(var_by_region_order[(a, q)])'])) "
                "| assert implies(INA, forall(lambda q, w: implies(0 <= q and q < w and w < max_order, "
                "not (var_by_region_order[(a, q)].varValue == 1 and var_by_region_order[(a, w)].varValue == 1))))",
                "forall a, o | assert implies(" + _IN + ", (var_by_region_order[(a, o)].varValue == 1) == (o == orders[a]))",
                "let KA = list(G0.keys())[0]",
                "assert KA in G0 and GW[KA] in G0[KA] and 0 <= KA and KA < len(regions) and 0 <= GW[KA] and GW[KA] < len(regions) and cross(regions, KA, GW[KA])",
                "let MILP = True", "let R = regions", "let O = orders"]},
    ]


class dot_bracket:
    """C13: the solver selection in front of convert_to_dot_bracket"""
    target = "BpSeq.dot_bracket"
    params = {"self": "BpSeq"}
    requires = _REQ
    returns = "DotBracket"
    raises = []
    modifies = ["LpSolver.msg", "LpVariable.varValue"] + _PROB_FIELDS
    # `solver` below is the local variable: the solver object that was selected, or None
    ensures = _ENS + ["implies(is_none(solver) or (ATTEMPTED and not SOLVED) or (SOLVED and STATUS != 1), VIA_FCFS)"]
    ensures_labels = {**_ENS_LABELS, 4: "fcfs-when-no-optimum"}
    ghost_returns = {"ATTEMPTED": "bool", "SOLVED": "bool", "STATUS": "int", "VIA_FCFS": "bool"}
    ghost_exit = ["let ATTEMPTED = convert_to_dot_bracket_ATTEMPTED", "let SOLVED = convert_to_dot_bracket_SOLVED",
                  "let STATUS = convert_to_dot_bracket_STATUS", "let VIA_FCFS = convert_to_dot_bracket_VIA_FCFS"]


class dot_bracket_model(dot_bracket):
    """C02 at the observation point BpSeq.dot_bracket: the clauses of convert_to_dot_bracket@model, handed through"""
    callee_variants = {"BpSeq.convert_to_dot_bracket": "model"}
    ghost_returns = {**dot_bracket.ghost_returns, "R": "list[tuple[int,int,int]]", "O": "list[int]", "G": "list[int]", "MILP": "bool", "PLAIN": "bool"}
    ghost_exit = dot_bracket.ghost_exit + ["let %s = convert_to_dot_bracket_%s" % (g, g) for g in ("R", "O", "G", "MILP", "PLAIN")]
    ensures = dot_bracket.ensures + convert_to_dot_bracket_model.ensures[5:]
    ensures_labels = {**dot_bracket.ensures_labels, 5: "proper-level-assignment-painted", 6: "no-crossing-all-level-0", 7: "milp-only-when-knotted"}


CONTRACTS = dict(common_c.CONTRACTS)
CONTRACTS.update({
    "BpSeq.convert_to_dot_bracket": convert_to_dot_bracket,
    "BpSeq.convert_to_dot_bracket@model": convert_to_dot_bracket_model,
    "BpSeq.dot_bracket": dot_bracket,
    "BpSeq.dot_bracket@model": dot_bracket_model,
})
