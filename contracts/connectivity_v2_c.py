"""Sidecar for the connectivity test of rnapolis/tertiary_v2.py (Residue.is_connected): the vocabulary, externals and lemmas
of contracts/connectivity_c.py with the v2 class table and contracts (a shim, like contracts/tertiary_v2_c.py)"""
from contracts.connectivity_c import *  # noqa: F401,F403
from contracts import connectivity_c as _c

CLASSES = _c.CLASSES_V2
CONTRACTS = _c.CONTRACTS_V2
INLINE = []
__file_spec__ = _c.__file__
