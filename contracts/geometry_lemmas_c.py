"""Spec-level lemmas of C05 (invariance of the annotation under presentation): no code is under contract here.

Every geometric decision of the annotation specs (contracts/annotator_c.py, contracts/tertiary_c.py) is a function of
  (a) dot products of coordinate differences  (p - q).(r - s)              (distances, norms, cosines' numerators),
  (b) oriented volumes of coordinate differences  u.(v x w)                 (offset tests, the torsion's Y),
  (c) cross products, which only ever occur inside (a)/(b)                  (base normals, the torsion's X),
  (d) centroids (means of coordinates) that are then used as points in (a)/(b).
The lemmas below prove, over the reals (A-real), that each of these is unchanged by a proper rigid motion
p -> R p + t  with  R^T R = I (six polynomial equations) and det R = 1.

R is given by its three ROWS ra, rb, rc (vec3 each): (R v)[k] = row_k . v; G = R^T R has G[i][j] = ra[i] ra[j] + rb[i] rb[j]
+ rc[i] rc[j] (columns orthonormal).  z3's nlsat does not prove rotation invariance from these hypotheses (DESIGN 3,
probe 3: unknown at 120 s), so every lemma carries its CERTIFICATE in `steps`:
  * `identity ...` - a pure ring identity, proved without hypotheses by polynomial normalisation
                     (goal - sum m_ij (G_ij - delta_ij) == 0;  det[Ru Rv Rw] == det R det[u v w];  Binet-Cauchy; ...);
  * `use mul_zero(m, G_ij - delta_ij)` / `use mul_one(x, det R)` / `use mul_eq(..)` - one instance of a tiny algebra
    lemma per certificate multiplier m; after that the goal is LINEAR over the monomials;
  * `use lin_zero6 / lin_sum3 / lin_diff2 / trans3 / trans4 (..)` - that linear combination itself, as a lemma over abstract
    reals, so that every single obligation is a ring identity or literally an established fact (cvc5 finds the linear
    combination among expanded polynomials by itself, z3's nlsat does not - and z3 is even sensitive to the orientation of an
    equation it is given as a hypothesis, hence the care about `a == b` vs `b == a` in rot_cross_k).
  Result: 334 obligations, all discharged by z3, slowest about 0.1 s.
Float rounding, the 1e-6 margins of the property, the enumeration order of the KD-tree contact set and PDB-vs-mmCIF
agreement are not lemmas of this file (see props/C05.py EXPLANATION).

FALSE_SIBLINGS are deliberately false variants (reflection instead of rotation, a dropped orthogonality equation, a
non-strict renaming, ...): `python -m contracts.geometry_lemmas_c` runs them and expects every one to be REFUTED (sat with a
model).  They are not targets of any property."""
import os

_HERE = os.path.dirname(os.path.abspath(__file__))
# vocabulary of C18 (dot3, cross3, iupac_x, triple, iupac_y, inv) is reused, not restated
__file_spec__ = [os.path.join(_HERE, "tertiary_c.py"), os.path.join(_HERE, "geometry_lemmas_c.py")]

from contracts.externals import NUMPY


def spec(f):
    return f


EXTERNALS = NUMPY
SPEC_EXTERNALS = {"norm": "numpy.linalg.norm"}
CLASSES = {}
INLINE = []
CONTRACTS = {}


# --------------------------------------------------------------------------- vocabulary
@spec
def rot(ra, rb, rc, v):
    """R v for the matrix with rows ra, rb, rc"""
    return vec(dot3(ra, v), dot3(rb, v), dot3(rc, v))


@spec
def mv(ra, rb, rc, t, p):
    """the rigid motion p -> R p + t"""
    return rot(ra, rb, rc, p) + t


@spec
def g00(ra, rb, rc):
    return ra[0] * ra[0] + rb[0] * rb[0] + rc[0] * rc[0]


@spec
def g11(ra, rb, rc):
    return ra[1] * ra[1] + rb[1] * rb[1] + rc[1] * rc[1]


@spec
def g22(ra, rb, rc):
    return ra[2] * ra[2] + rb[2] * rb[2] + rc[2] * rc[2]


@spec
def g01(ra, rb, rc):
    return ra[0] * ra[1] + rb[0] * rb[1] + rc[0] * rc[1]


@spec
def g02(ra, rb, rc):
    return ra[0] * ra[2] + rb[0] * rb[2] + rc[0] * rc[2]


@spec
def g12(ra, rb, rc):
    return ra[1] * ra[2] + rb[1] * rb[2] + rc[1] * rc[2]


@spec
def det3(a, b, c):
    """determinant of the matrix with rows a, b, c = oriented volume a.(b x c)"""
    return dot3(a, cross3(b, c))


@spec
def normal3(a, b, c):
    """the (unnormalised) base normal as rnapolis.tertiary.Residue3D.base_normal_vector builds it: cross(v1, v2) with
    v1 = b - a, v2 = c - a, where (a, b, c) = (N9, N7, N3) for purines and (N1, C4, O2) otherwise.  The code then divides
    by the norm; angle_between_vectors divides by the norms again, so every angle is a function of the numerators and
    squared norms treated below."""
    return cross3(b - a, c - a)


@spec
def lex_lt(c1, n1, i1, c2, n2, i2):
    """the residue order of C05/C06: (chain, number, icode) compared lexicographically"""
    return c1 < c2 or (c1 == c2 and (n1 < n2 or (n1 == n2 and i1 < i2)))


R = ["real"]
ROT = ["ra", "rb", "rc"]
ORTH = ["g00(ra, rb, rc) == 1", "g11(ra, rb, rc) == 1", "g22(ra, rb, rc) == 1",
        "g01(ra, rb, rc) == 0", "g02(ra, rb, rc) == 0", "g12(ra, rb, rc) == 0"]
DET1 = ["det3(ra, rb, rc) == 1"]
A3 = "ra, rb, rc"
A4 = "ra, rb, rc, t"


def V(n):
    return ["vec3"] * n


def M(p):
    return f"mv({A4}, {p})"


def comps(lhs, rhs):
    """vector equality, one clause per component (keeps every obligation small)"""
    return [f"({lhs})[{k}] == ({rhs})[{k}]" for k in range(3)]


LEMMAS = {
    # ---- tiny algebra lemmas (each proved in isolation); they turn a certificate into linear facts over monomials
    "mul_zero": {"kind": "smt", "params": ["a", "b"], "shapes": R * 2, "requires": ["b == 0"], "ensures": ["a * b == 0"]},
    "mul_one": {"kind": "smt", "params": ["a", "b"], "shapes": R * 2, "requires": ["b == 1"], "ensures": ["a * b == a"]},
    "mul_eq": {"kind": "smt", "params": ["a", "b", "c"], "shapes": R * 3, "requires": ["b == c"], "ensures": ["a * b == a * c"]},
    "mul_eq2": {"kind": "smt", "params": ["a", "b", "c", "d"], "shapes": R * 4, "requires": ["a == c", "b == d"],
                "ensures": ["a * b == c * d"]},
    "sqrt_unique": {"kind": "smt", "params": ["a", "b"], "shapes": R * 2, "requires": ["a >= 0", "b >= 0", "a * a == b * b"],
                    "ensures": ["a == b"]},
    # linear bookkeeping over ABSTRACT reals: the last step of a certificate.  Instantiated with polynomials, every
    # `requires` instance is either a ring identity or literally one of the facts established before, so no solver ever has
    # to find the linear combination among expanded polynomials itself (z3's nlsat does not: 10 s unknown on rot_dot)
    "lin_zero6": {"kind": "smt", "params": ["x", "y", "z1", "z2", "z3", "z4", "z5", "z6"], "shapes": R * 8,
                  "requires": ["x - y == z1 + z2 + z3 + z4 + z5 + z6", "z1 == 0", "z2 == 0", "z3 == 0", "z4 == 0", "z5 == 0", "z6 == 0"],
                  "ensures": ["x == y"]},
    "lin_sum3": {"kind": "smt", "params": ["x", "y", "z1", "z2", "z3", "w1", "w2", "w3"], "shapes": R * 8,
                 "requires": ["x == z1 + z2 + z3", "y == w1 + w2 + w3", "z1 == w1", "z2 == w2", "z3 == w3"], "ensures": ["x == y"]},
    "lin_diff2": {"kind": "smt", "params": ["x", "y", "z1", "z2", "w1", "w2"], "shapes": R * 6,
                  "requires": ["x == z1 - z2", "y == w1 - w2", "z1 == w1", "z2 == w2"], "ensures": ["x == y"]},
    "trans3": {"kind": "smt", "params": ["a", "b", "c"], "shapes": R * 3, "requires": ["a == b", "b == c"], "ensures": ["a == c"]},
    "trans4": {"kind": "smt", "params": ["a", "b", "c", "d"], "shapes": R * 4, "requires": ["a == b", "b == c", "c == d"],
               "ensures": ["a == d"]},
}

# ---- pure identities (no hypotheses at all)
# Binet-Cauchy: every dot product of two cross products is a polynomial in dot products
LEMMAS["binet_cauchy"] = {"kind": "smt", "params": ["a", "b", "c", "d"], "shapes": V(4),
                          "ensures": ["dot3(cross3(a, b), cross3(c, d)) == dot3(a, c) * dot3(b, d) - dot3(a, d) * dot3(b, c)"]}
# linearity: differences of moved points are rotated differences (the translation drops out)
LEMMAS["rigid_diff"] = {"kind": "smt", "params": ROT + ["t", "p", "q"], "shapes": V(6),
                        "ensures": comps(f"{M('p')} - {M('q')}", f"rot({A3}, p - q)")}
# det(R A) = det R det A, for arbitrary R (rows ra, rb, rc) and A = [u v w]
LEMMAS["det_product"] = {"kind": "smt", "params": ROT + ["u", "v", "w"], "shapes": V(6),
                         "ensures": [f"det3(rot({A3}, u), rot({A3}, v), rot({A3}, w)) == det3(ra, rb, rc) * det3(u, v, w)"]}
# (R u) x (R v) = cof(R) (u x v); the cofactor matrix of R has rows rb x rc, rc x ra, ra x rb
LEMMAS["cross_cofactor"] = {"kind": "smt", "params": ROT + ["u", "v"], "shapes": V(5),
                            "ensures": comps(f"cross3(rot({A3}, u), rot({A3}, v))",
                                             "rot(cross3(rb, rc), cross3(rc, ra), cross3(ra, rb), cross3(u, v))")}

# ---- 1(a) rotations keep dot products.  Certificate:
#   (R u).(R v) - u.v == sum_i u_i v_i (G_ii - 1) + sum_{i<j} (u_i v_j + u_j v_i) G_ij
_DOT_MULT = [("u[0] * v[0]", "g00({A}) - 1"), ("u[1] * v[1]", "g11({A}) - 1"), ("u[2] * v[2]", "g22({A}) - 1"),
             ("u[0] * v[1] + u[1] * v[0]", "g01({A})"), ("u[0] * v[2] + u[2] * v[0]", "g02({A})"),
             ("u[1] * v[2] + u[2] * v[1]", "g12({A})")]
_DOT_MULT = [(m, g.format(A=A3)) for m, g in _DOT_MULT]
LEMMAS["rot_dot"] = {
    "kind": "smt", "params": ROT + ["u", "v"], "shapes": V(5), "requires": ORTH,
    "steps": [f"identity dot3(rot({A3}, u), rot({A3}, v)) - dot3(u, v) == " + " + ".join(f"({m}) * ({g})" for m, g in _DOT_MULT)]
             + [f"use mul_zero({m}, {g})" for m, g in _DOT_MULT]
             + [f"use lin_zero6(dot3(rot({A3}, u), rot({A3}, v)), dot3(u, v), " + ", ".join(f"({m}) * ({g})" for m, g in _DOT_MULT) + ")"],
    "ensures": [f"dot3(rot({A3}, u), rot({A3}, v)) == dot3(u, v)"]}

# ---- 1(b) proper rotations keep oriented volumes: det[Ru Rv Rw] = det R det[u v w], det R = 1 (orthogonality not needed)
LEMMAS["rot_det"] = {
    "kind": "smt", "params": ROT + ["u", "v", "w"], "shapes": V(6), "requires": DET1,
    "steps": [f"identity det3(rot({A3}, u), rot({A3}, v), rot({A3}, w)) == det3(u, v, w) * det3(ra, rb, rc)",
              "use mul_one(det3(u, v, w), det3(ra, rb, rc))"],
    "ensures": [f"det3(rot({A3}, u), rot({A3}, v), rot({A3}, w)) == det3(u, v, w)"]}

# ---- 1(c) adjugate identity: a proper rotation equals its cofactor matrix.  Certificate (entry (j, i) of
#   det R . R^T == (R^T R) adj R):   det R * row_j[i] == sum_k G_ik * cof_j[k],   cof_a = rb x rc, cof_b = rc x ra, cof_c = ra x rb
_G = [["g00", "g01", "g02"], ["g01", "g11", "g12"], ["g02", "g12", "g22"]]
_ROWS = [("ra", "cross3(rb, rc)"), ("rb", "cross3(rc, ra)"), ("rc", "cross3(ra, rb)")]
_cof_steps, _cof_ens = [], []
for _row, _cof in _ROWS:
    for _i in range(3):
        _cof_steps.append(f"identity det3(ra, rb, rc) * {_row}[{_i}] == "
                          + " + ".join(f"{_G[_i][_k]}({A3}) * {_cof}[{_k}]" for _k in range(3)))
        _cof_steps.append(f"use mul_one({_row}[{_i}], det3(ra, rb, rc))")
        for _k in range(3):
            _cof_steps.append(f"use mul_eq({_cof}[{_k}], {_G[_i][_k]}({A3}), {1 if _i == _k else 0})")
        _cof_steps.append(f"assert {_row}[{_i}] == {_cof}[{_i}]")
        _cof_ens.append(f"{_row}[{_i}] == {_cof}[{_i}]")
LEMMAS["rot_cofactor"] = {"kind": "smt", "params": ROT, "shapes": V(3), "requires": ORTH + DET1,
                          "steps": _cof_steps, "ensures": _cof_ens}

# cross products transform covariantly under proper rotations: (R u) x (R v) == R (u x v)
# (one lemma per component: component j of (R u) x (R v) is cof_j . (u x v) by cross_cofactor, and cof_j == row_j)
for _j, (_row, _cof) in enumerate(_ROWS):
    LEMMAS[f"rot_cross_{_j}"] = {
        "kind": "smt", "params": ROT + ["u", "v"], "shapes": V(5), "requires": ORTH + DET1,
        "steps": [f"use rot_cofactor({A3})", f"use cross_cofactor({A3}, u, v)"]
                 + [f"use mul_eq(cross3(u, v)[{_k}], {_row}[{_k}], {_cof}[{_k}])" for _k in range(3)]
                 + [f"use lin_sum3(rot({A3}, cross3(u, v))[{_j}], cross3(rot({A3}, u), rot({A3}, v))[{_j}], "
                    + ", ".join(f"cross3(u, v)[{_k}] * {_row}[{_k}]" for _k in range(3)) + ", "
                    + ", ".join(f"cross3(u, v)[{_k}] * {_cof}[{_k}]" for _k in range(3)) + ")"],
        "ensures": [f"rot({A3}, cross3(u, v))[{_j}] == cross3(rot({A3}, u), rot({A3}, v))[{_j}]"]}
LEMMAS["rot_cross"] = {"kind": "smt", "params": ROT + ["u", "v"], "shapes": V(5), "requires": ORTH + DET1,
                       "steps": [f"use rot_cross_{_j}({A3}, u, v)" for _j in range(3)],
                       "ensures": comps(f"rot({A3}, cross3(u, v))", f"cross3(rot({A3}, u), rot({A3}, v))")}

# ---- corollaries for rigid motions p -> R p + t, stated for the expressions the annotation specs use -------------------
RIG = ROT + ["t"]
# dot products of coordinate differences
LEMMAS["inv_dot_diff"] = {
    "kind": "smt", "params": RIG + ["p", "q", "r", "s"], "shapes": V(8), "requires": ORTH,
    "steps": [f"identity dot3({M('p')} - {M('q')}, {M('r')} - {M('s')}) == dot3(rot({A3}, p - q), rot({A3}, r - s))",
              f"use rot_dot({A3}, p - q, r - s)",
              f"use trans3(dot3({M('p')} - {M('q')}, {M('r')} - {M('s')}), dot3(rot({A3}, p - q), rot({A3}, r - s)), dot3(p - q, r - s))"],
    "ensures": [f"dot3({M('p')} - {M('q')}, {M('r')} - {M('s')}) == dot3(p - q, r - s)"]}
# squared distance (hydrogen-bond / contact / centroid distance tests)
LEMMAS["inv_sqdist"] = {
    "kind": "smt", "params": RIG + ["p", "q"], "shapes": V(6), "requires": ORTH,
    "steps": [f"use inv_dot_diff({A4}, p, q, p, q)"],
    "ensures": [f"dot3({M('p')} - {M('q')}, {M('p')} - {M('q')}) == dot3(p - q, p - q)"]}
# ... and the distance itself, numpy.linalg.norm as the non-negative square root (contracts/externals.py)
LEMMAS["inv_dist"] = {
    "kind": "smt", "params": RIG + ["p", "q"], "shapes": V(6), "requires": ORTH,
    "steps": [f"use inv_sqdist({A4}, p, q)",
              f"use trans4(norm({M('p')} - {M('q')}) * norm({M('p')} - {M('q')}), dot3({M('p')} - {M('q')}, {M('p')} - {M('q')}), "
              "dot3(p - q, p - q), norm(p - q) * norm(p - q))",
              f"use sqrt_unique(norm({M('p')} - {M('q')}), norm(p - q))"],
    "ensures": [f"norm({M('p')} - {M('q')}) == norm(p - q)"]}
# oriented volume of three coordinate differences
LEMMAS["inv_volume"] = {
    "kind": "smt", "params": RIG + ["p1", "q1", "p2", "q2", "p3", "q3"], "shapes": V(10), "requires": DET1,
    "steps": [f"identity det3({M('p1')} - {M('q1')}, {M('p2')} - {M('q2')}, {M('p3')} - {M('q3')}) == "
              f"det3(rot({A3}, p1 - q1), rot({A3}, p2 - q2), rot({A3}, p3 - q3))",
              f"use rot_det({A3}, p1 - q1, p2 - q2, p3 - q3)",
              f"use trans3(det3({M('p1')} - {M('q1')}, {M('p2')} - {M('q2')}, {M('p3')} - {M('q3')}), "
              f"det3(rot({A3}, p1 - q1), rot({A3}, p2 - q2), rot({A3}, p3 - q3)), det3(p1 - q1, p2 - q2, p3 - q3))"],
    "ensures": [f"det3({M('p1')} - {M('q1')}, {M('p2')} - {M('q2')}, {M('p3')} - {M('q3')}) == det3(p1 - q1, p2 - q2, p3 - q3)"]}


def _N(a, b, c, moved):
    return f"normal3({M(a)}, {M(b)}, {M(c)})" if moved else f"normal3({a}, {b}, {c})"


def _D(x, y, moved):
    return f"({M(x)} - {M(y)})" if moved else f"({x} - {y})"


# cos-numerator of the angle between two base normals n1 = (b1 - a1) x (c1 - a1), n2 = (b2 - a2) x (c2 - a2) (stacking:
# angle between normals, same_direction = sign of this number) and, with both triples equal, the squared norm of a normal.
# By Binet-Cauchy n1.n2 = (v1.w1)(v2.w2) - (v1.w2)(v2.w1) with v = b - a, w = c - a: four dot products of differences.
_bc = lambda m: (f"dot3({_D('b1', 'a1', m)}, {_D('b2', 'a2', m)})", f"dot3({_D('c1', 'a1', m)}, {_D('c2', 'a2', m)})",
                 f"dot3({_D('b1', 'a1', m)}, {_D('c2', 'a2', m)})", f"dot3({_D('c1', 'a1', m)}, {_D('b2', 'a2', m)})")
_m, _u = _bc(True), _bc(False)
LEMMAS["inv_normal_dot"] = {
    "kind": "smt", "params": RIG + ["a1", "b1", "c1", "a2", "b2", "c2"], "shapes": V(10), "requires": ORTH,
    "steps": [f"use binet_cauchy({_D('b1', 'a1', True)}, {_D('c1', 'a1', True)}, {_D('b2', 'a2', True)}, {_D('c2', 'a2', True)})",
              "use binet_cauchy(b1 - a1, c1 - a1, b2 - a2, c2 - a2)",
              f"use inv_dot_diff({A4}, b1, a1, b2, a2)", f"use inv_dot_diff({A4}, c1, a1, c2, a2)",
              f"use inv_dot_diff({A4}, b1, a1, c2, a2)", f"use inv_dot_diff({A4}, c1, a1, b2, a2)",
              f"use mul_eq2({_m[0]}, {_m[1]}, {_u[0]}, {_u[1]})", f"use mul_eq2({_m[2]}, {_m[3]}, {_u[2]}, {_u[3]})",
              f"use lin_diff2(dot3({_N('a1', 'b1', 'c1', True)}, {_N('a2', 'b2', 'c2', True)}), dot3({_N('a1', 'b1', 'c1', False)}, {_N('a2', 'b2', 'c2', False)}), "
              f"{_m[0]} * {_m[1]}, {_m[2]} * {_m[3]}, {_u[0]} * {_u[1]}, {_u[2]} * {_u[3]})"],
    "ensures": [f"dot3({_N('a1', 'b1', 'c1', True)}, {_N('a2', 'b2', 'c2', True)}) == dot3({_N('a1', 'b1', 'c1', False)}, {_N('a2', 'b2', 'c2', False)})"]}
LEMMAS["inv_normal_sqnorm"] = {
    "kind": "smt", "params": RIG + ["a", "b", "c"], "shapes": V(7), "requires": ORTH,
    "steps": [f"use inv_normal_dot({A4}, a, b, c, a, b, c)"],
    "ensures": [f"dot3({_N('a', 'b', 'c', True)}, {_N('a', 'b', 'c', True)}) == dot3({_N('a', 'b', 'c', False)}, {_N('a', 'b', 'c', False)})"]}
# numerator of the angle between a difference vector g - h and a base normal: the stacking offset test (g, h = base
# centroids, see centroid_<n>) and the hydrogen-bond-vs-normal test of find_pairs (g, h = donor / acceptor atoms).
# (g - h).((b - a) x (c - a)) is an oriented volume of coordinate differences.
LEMMAS["inv_offset_num"] = {
    "kind": "smt", "params": RIG + ["g", "h", "a", "b", "c"], "shapes": V(9), "requires": DET1,
    "steps": [f"use inv_volume({A4}, g, h, b, a, c, a)"],
    "ensures": [f"dot3({M('g')} - {M('h')}, {_N('a', 'b', 'c', True)}) == dot3(g - h, {_N('a', 'b', 'c', False)})"]}
# the torsion of four points: C18's IUPAC polynomials X = (v1 x v2).(v2 x v3), T = v1.(v2 x v3), Y = |v2| T; the angle is
# atan2(Y, X), so it is the same real number for the moved points
_P4 = ", ".join(M(p) for p in ("p1", "p2", "p3", "p4"))
LEMMAS["inv_torsion"] = {
    "kind": "smt", "params": RIG + ["p1", "p2", "p3", "p4"], "shapes": V(8), "requires": ORTH + DET1,
    "steps": [f"use binet_cauchy({_D('p2', 'p1', True)}, {_D('p3', 'p2', True)}, {_D('p3', 'p2', True)}, {_D('p4', 'p3', True)})",
              "use binet_cauchy(p2 - p1, p3 - p2, p3 - p2, p4 - p3)",
              f"use inv_dot_diff({A4}, p2, p1, p3, p2)", f"use inv_dot_diff({A4}, p3, p2, p4, p3)",
              f"use inv_dot_diff({A4}, p2, p1, p4, p3)", f"use inv_dot_diff({A4}, p3, p2, p3, p2)",
              f"use mul_eq2(dot3({_D('p2', 'p1', True)}, {_D('p3', 'p2', True)}), dot3({_D('p3', 'p2', True)}, {_D('p4', 'p3', True)}), "
              "dot3(p2 - p1, p3 - p2), dot3(p3 - p2, p4 - p3))",
              f"use mul_eq2(dot3({_D('p2', 'p1', True)}, {_D('p4', 'p3', True)}), dot3({_D('p3', 'p2', True)}, {_D('p3', 'p2', True)}), "
              "dot3(p2 - p1, p4 - p3), dot3(p3 - p2, p3 - p2))",
              f"use lin_diff2(iupac_x({_P4}), iupac_x(p1, p2, p3, p4), "
              f"dot3({_D('p2', 'p1', True)}, {_D('p3', 'p2', True)}) * dot3({_D('p3', 'p2', True)}, {_D('p4', 'p3', True)}), "
              f"dot3({_D('p2', 'p1', True)}, {_D('p4', 'p3', True)}) * dot3({_D('p3', 'p2', True)}, {_D('p3', 'p2', True)}), "
              "dot3(p2 - p1, p3 - p2) * dot3(p3 - p2, p4 - p3), dot3(p2 - p1, p4 - p3) * dot3(p3 - p2, p3 - p2))",
              f"use inv_volume({A4}, p2, p1, p3, p2, p4, p3)",
              f"use inv_dist({A4}, p3, p2)",
              f"use mul_eq2(norm({M('p3')} - {M('p2')}), triple({_P4}), norm(p3 - p2), triple(p1, p2, p3, p4))"],
    "ensures": [f"iupac_x({_P4}) == iupac_x(p1, p2, p3, p4)", f"triple({_P4}) == triple(p1, p2, p3, p4)",
                f"iupac_y({_P4}) == iupac_y(p1, p2, p3, p4)"]}


# ---- 2. the centroid commutes with the rigid motion: mean(R p_i + t) == R mean(p_i) + t (ring identities; no hypothesis on
# R at all).  n = 2, 3 and every count of base heavy atoms that occurs (BASE_ATOMS: C/U 8, T 9, A 10, G 11; rings 6 and 9)
def _mean(ps):
    return "(" + " + ".join(ps) + f") / {len(ps)}"


CENTROID_NS = (2, 3, 6, 8, 9, 10, 11)
for _n in CENTROID_NS:
    _ps = [f"p{k}" for k in range(1, _n + 1)]
    LEMMAS[f"centroid_{_n}"] = {"kind": "smt", "params": RIG + _ps, "shapes": V(4 + _n),
                                "ensures": comps(_mean([M(p) for p in _ps]), M(_mean(_ps)))}

# ---- 3. order of the atoms inside a residue: sums / means do not depend on it (n = 3: all six orders)
LEMMAS["centroid_perm_3"] = {
    "kind": "smt", "params": ["p1", "p2", "p3"], "shapes": V(3),
    "ensures": [c for perm in (("p1", "p3", "p2"), ("p2", "p1", "p3"), ("p2", "p3", "p1"), ("p3", "p1", "p2"), ("p3", "p2", "p1"))
                for c in comps(_mean(list(perm)), _mean(["p1", "p2", "p3"]))]}

# ---- 4. order-preserving renaming commutes with the residue order (hence with sorting).  Two residue keys
# (chain, number, icode) and their images under component-wise strictly increasing maps fc, fn, fi: the requires are
# exactly the instances of strict monotonicity at the two keys (x < y <-> f(x) < f(y), both directions because the
# component orders are total).  Chains / insertion codes are strings (lexicographic order), numbers are integers.
_ISO = lambda x, y, fx, fy: [f"({x} < {y}) == ({fx} < {fy})", f"({y} < {x}) == ({fy} < {fx})"]
LEMMAS["rename_order"] = {
    "kind": "smt", "params": ["c1", "n1", "i1", "c2", "n2", "i2", "fc1", "fn1", "fi1", "fc2", "fn2", "fi2"],
    "shapes": ["str", "int", "str"] * 4,
    "requires": _ISO("c1", "c2", "fc1", "fc2") + _ISO("n1", "n2", "fn1", "fn2") + _ISO("i1", "i2", "fi1", "fi2"),
    "ensures": ["lex_lt(c1, n1, i1, c2, n2, i2) == lex_lt(fc1, fn1, fi1, fc2, fn2, fi2)",
                "lex_lt(c2, n2, i2, c1, n1, i1) == lex_lt(fc2, fn2, fi2, fc1, fn1, fi1)",
                "(c1 == c2 and n1 == n2 and i1 == i2) == (fc1 == fc2 and fn1 == fn2 and fi1 == fi2)"]}
# the renaming the bounded part applies to numbers: n -> mul * n + off with mul >= 1 is strictly increasing
LEMMAS["affine_renumbering_increasing"] = {
    "kind": "smt", "params": ["n1", "n2", "mul", "off"], "shapes": ["int"] * 4, "requires": ["mul >= 1"],
    "ensures": ["(n1 < n2) == (mul * n1 + off < mul * n2 + off)"]}

# ... hence with sorting: ks (keys) and fs (their images, same positions) - any two adjacent positions compare the same way, so
# a permutation sorts ks iff it sorts fs (apply the lemma to the permuted lists), i.e. sorted(map(f, L)) == map(f, sorted(L))
_PAIR_ISO = " and ".join(f"(ks[i][{c}] < ks[j][{c}]) == (fs[i][{c}] < fs[j][{c}])" for c in range(3))
_K = lambda l, i: f"{l}[{i}][0], {l}[{i}][1], {l}[{i}][2]"
LEMMAS["rename_sorted"] = {
    "kind": "smt", "params": ["ks", "fs"], "shapes": ["list[tuple[str,int,str]]"] * 2,
    "requires": ["len(ks) == len(fs)",
                 f"forall(lambda i: forall(lambda j: implies(0 <= i and i < len(ks) and 0 <= j and j < len(ks), {_PAIR_ISO})))"],
    "ensures": [f"forall(lambda i: implies(0 <= i and i + 1 < len(ks), lex_lt({_K('ks', 'i')}, {_K('ks', 'i + 1')}) == lex_lt({_K('fs', 'i')}, {_K('fs', 'i + 1')})))",
                f"forall(lambda i: implies(0 <= i and i + 1 < len(ks), lex_lt({_K('ks', 'i + 1')}, {_K('ks', 'i')}) == lex_lt({_K('fs', 'i + 1')}, {_K('fs', 'i')})))"]}

SMT_LEMMAS = [k for k, v in LEMMAS.items() if v["kind"] == "smt"]


# --------------------------------------------------------------------------- vacuity protection: false siblings
def _variant(name, **changes):
    d = dict(LEMMAS[name])
    d.update(changes)
    return d


REFLECT = ["det3(ra, rb, rc) == 0 - 1"]
FALSE_SIBLINGS = {
    # a reflection (det R = -1) does NOT keep oriented volumes / the torsion's sign / cross-product covariance
    "false_volume_reflection": _variant("rot_det", requires=ORTH + REFLECT, steps=[]),
    "false_cross_reflection": _variant("rot_cross", requires=ORTH + REFLECT, steps=[]),
    "false_cofactor_reflection": _variant("rot_cofactor", requires=ORTH + REFLECT, steps=[], ensures=_cof_ens[6:]),
    # without the sign condition a square has two roots (norm is the NON-NEGATIVE one)
    "false_sqrt_no_sign": _variant("sqrt_unique", requires=["a * a == b * b"]),
    "false_torsion_reflection": _variant("inv_torsion", requires=ORTH + REFLECT, steps=[],
                                         ensures=[f"triple({_P4}) == triple(p1, p2, p3, p4)"]),
    # one orthogonality equation dropped (a shear / scaling is not an isometry)
    "false_dot_without_g12": _variant("rot_dot", requires=ORTH[:5], steps=[]),
    "false_dot_without_g00": _variant("rot_dot", requires=ORTH[1:], steps=[]),
    "false_sqdist_no_orth": _variant("inv_sqdist", requires=DET1, steps=[]),
    # volume with the determinant unconstrained
    "false_volume_any_det": _variant("rot_det", requires=ORTH, steps=[]),
    # absolute coordinates are not invariant: a dot product of POSITIONS (not differences) changes under translation
    "false_dot_of_positions": _variant("inv_dot_diff", steps=[], ensures=[f"dot3({M('p')}, {M('r')}) == dot3(p, r)"]),
    # wrong divisor in the centroid
    "false_centroid_divisor": {"kind": "smt", "params": RIG + ["p1", "p2", "p3"], "shapes": V(7),
                               "ensures": comps("(" + " + ".join(M(p) for p in ("p1", "p2", "p3")) + ") / 3", M("(p1 + p2 + p3) / 2"))},
    # a weighted mean is order dependent
    "false_weighted_mean_perm": {"kind": "smt", "params": ["p1", "p2", "p3"], "shapes": V(3),
                                 "ensures": comps("(p1 + p2 * 2 + p3) / 4", "(p2 + p1 * 2 + p3) / 4")},
    # a merely non-decreasing renaming (two chains collapsed) does not preserve the order
    "false_rename_nonstrict": _variant("rename_order",
                                       requires=["implies(c1 < c2, fc1 <= fc2)", "implies(c2 < c1, fc2 <= fc1)"]
                                       + _ISO("n1", "n2", "fn1", "fn2") + _ISO("i1", "i2", "fi1", "fi2")),
    "false_renumbering_mul0": _variant("affine_renumbering_increasing", requires=["mul >= 0"]),
}


def run_false_siblings(z3_ms=20000, cvc5_s=20):
    """every false sibling must be refuted; returns [(name, [(obligation, result, ms)])]"""
    import sys
    import types
    sys.path.insert(0, os.path.dirname(_HERE))
    from pyvc.engine import Engine
    from pyvc.solve import discharge
    me = sys.modules[__name__]
    side = types.ModuleType("geometry_false_siblings")
    side.__dict__.update({k: v for k, v in me.__dict__.items() if not k.startswith("__")})
    side.__file__ = me.__file__
    side.__file_spec__ = __file_spec__
    side.LEMMAS = dict(LEMMAS, **FALSE_SIBLINGS)
    out = []
    for name in FALSE_SIBLINGS:
        eng = Engine("rnapolis.tertiary", side)
        obls = eng.verify_lemma(name)
        res = discharge(obls, opts={"z3_ms": z3_ms, "cvc5_s": cvc5_s})
        out.append((name, [(o.name, r["result"], r["ms"]) for o, r in zip(obls, res)],
                    next((r.get("model") for r in res if r["result"] == "sat" and r.get("model")), None)))
    return out


if __name__ == "__main__":
    bad = 0
    import sys
    for name, rs, model in run_false_siblings():
        refuted = any(r == "sat" for _, r, _ in rs)
        proved = all(r == "unsat" for _, r, _ in rs)
        bad += proved or not refuted
        print(f"{name}: {'REFUTED (model)' if refuted else 'PROVED?!' if proved else 'not proved, no model'}  "
              + ", ".join(f"{n.split('#')[1]}={r}/{ms}ms" for n, r, ms in rs))
        if "-v" in sys.argv and model:
            print("    model: " + ", ".join(f"{k}={v}" for k, v in sorted(model.items()) if not k.startswith(("inv!", "norm!")))[:400])
    raise SystemExit(1 if bad else 0)
