"""Sidecar contract for motif_extractor.main (C07, observe_at `motif_extractor.main`): data flow of the command-line tool.

main() is executed symbolically on the real source.  What the library calls compute is NOT re-proved here (BpSeq.elements,
without_isolated, without_pseudoknots, from_dotbracket are under contract in contracts/common_elems_c.py, BpSeq.from_string in
contracts/common_text_c.py); at this level every library call is an OPAQUE function of the value it is applied to.

Model (every callee contract below is ASSUMED - none is a verify target of this sidecar - and every EXTERNAL is trusted base;
all are listed in props/C07.py):
  structure values   an abstract integer `val` per BpSeq / DotBracket object (ghost field): "which structure the object holds".
                     No call of main changes an existing object (callee contracts: modifies nothing).
  bpseq_file(p) / dbn_file(p)     the value BpSeq.from_file / DotBracket.from_file return for the file at path p
  bp_of_db(d), wo_isolated(v), wo_pseudoknots(v), dot_bracket_of(v)
                     BpSeq.from_dotbracket, BpSeq.without_isolated, BpSeq.without_pseudoknots, BpSeq.dot_bracket as functions
                     of the value (uninterpreted: nothing is assumed about them, in particular not idempotence or commutation)
  elements           BpSeq.elements of an object of value v: four lists (stems, single strands, hairpins, loops; kinds 0..3) of
                     n_el(v, kind) element objects; element number k of a list carries (src, kind, idx) = (v, kind, k);
                     str(element) = elem_text(src, kind, idx); str(dot-bracket object) = db_text(val)
  ghost results      dot_bracket_on / elements_on: the OBJECT the latest BpSeq.dot_bracket / BpSeq.elements was read from
  argparse           parse_args() exits (SystemExit) or returns a namespace whose attributes are the constants cli_<dest>()
                     (Optional string: None unless cli_has_<dest>(); store_true flags: bool)
  stdout             the ghost object ref(Stdout, 0): `lines` = what this call of main has printed so far, one entry per
                     print() / print_help() call (print_help: the single entry help_text()).  print inside a loop is accepted only
                     if the loop contract declares writes = ["Stdout.lines"] (the field is then unknown at the loop head)
  itertools.chain    of lists of one element shape: their concatenation
"""
import z3

from pyvc.values import Unsupported, VConc, VList, VOpt, VRef, VSet, to_z3, uid


def spec(f):
    return f


I, S, B = z3.IntSort(), z3.StringSort(), z3.BoolSort()

CLASSES = {
    "Parser": {"kind": "object", "fields": {"positionals": "set[str]", "flags": "set[str]", "optionals": "set[str]"}},
    "Namespace": {"kind": "object", "fields": {"dbn": "opt[str]", "bpseq": "opt[str]", "remove_pseudoknots": "bool",
                                               "remove_isolated": "bool"}},
    "Stdout": {"kind": "object", "fields": {"lines": "list[str]"}},
    "BpSeq": {"kind": "object", "fields": {"val": "int"}},
    "DotBracket": {"kind": "object", "fields": {"val": "int"}},
    "Element": {"kind": "object", "fields": {"src": "int", "kind": "int", "idx": "int"}},
}
INLINE = []
PRUNE_BRANCHES = False

UFUNS = {
    "cli_dbn": ([], "str"), "cli_has_dbn": ([], "bool"), "cli_bpseq": ([], "str"), "cli_has_bpseq": ([], "bool"),
    "cli_remove_pseudoknots": ([], "bool"), "cli_remove_isolated": ([], "bool"),
    "bpseq_file": (["str"], "int"), "dbn_file": (["str"], "int"), "bp_of_db": (["int"], "int"),
    "wo_isolated": (["int"], "int"), "wo_pseudoknots": (["int"], "int"), "dot_bracket_of": (["int"], "int"),
    "db_text": (["int"], "str"), "n_el": (["int", "int"], "int"), "elem_text": (["int", "int", "int"], "str"),
    "help_text": ([], "str"),
}


# ------------------------------------------------------------------------------------------------ externals (trusted base)
def _alloc(e, st, cls):
    ref = VRef(cls, st.alloc)
    st.alloc = z3.simplify(to_z3(st.alloc) + 1)
    return ref


def _simp(v):
    return z3.simplify(to_z3(v))


def ext_ArgumentParser(e, args, kw, node, st):
    if args or kw:
        raise Unsupported("ArgumentParser(...) with arguments")
    p = _alloc(e, st, "Parser")
    for f in ("positionals", "flags", "optionals"):
        e.heap_write(st, p, f, e.default_of(("set", ("str",))))
    return p


def ext_add_argument(e, args, kw, node, st):
    """add_argument(name, help=..[, action='store_true']): registers the destination `name` (positional, a string), or for
    '--some-name' the destination some_name: a bool (False unless given) with action='store_true', else a string or None"""
    if len(args) != 2 or not isinstance(args[1], str) or set(kw) - {"help", "action"} or kw.get("action", "store_true") != "store_true":
        raise Unsupported("add_argument: only add_argument(<one name>, help=..[, action='store_true']) is modelled")
    nm = args[1]
    if nm.startswith("--") and len(nm) > 2 and not nm[2:].startswith("-"):
        fld, dest = ("flags" if "action" in kw else "optionals"), nm[2:].replace("-", "_")
    elif not nm.startswith("-") and nm and "action" not in kw:
        fld, dest = "positionals", nm
    else:
        raise Unsupported(f"add_argument({nm!r})")
    cur = e.heap_read(st, args[0], fld)
    e.heap_write(st, args[0], fld, VSet(cur.kshape, z3.Store(cur.mem, z3.StringVal(dest), z3.BoolVal(True))))
    return VConc(object())


def ext_parse_args(e, args, kw, node, st):
    """parse_args(): exits (SystemExit) on a bad command line / --help, else a namespace with one attribute per registered
    destination whose value is the constant cli_<dest>() (Optional string: None unless cli_has_<dest>())"""
    if len(args) != 1 or kw:
        raise Unsupported("parse_args(...) with arguments")
    U = e.ufuns
    e.may_raise(z3.Bool(uid("bad_command_line")), "SystemExit", node)
    ns = _alloc(e, st, "Namespace")
    regs = {k: e.heap_read(st, args[0], k) for k in ("positionals", "flags", "optionals")}
    for fld, shp in e.classes["Namespace"]["fields"].items():
        kind = {"str": "positionals", "bool": "flags", "opt[str]": "optionals"}[shp]
        for k, reg in regs.items():
            if z3.is_true(_simp(z3.Select(reg.mem, z3.StringVal(fld)))) != (k == kind):
                raise Unsupported(f"the namespace model declares {fld}: {shp}, which is not how add_argument registered it")
        val = U["cli_" + fld]()
        e.heap_write(st, ns, fld, VOpt(z3.Not(U["cli_has_" + fld]()), val) if shp == "opt[str]" else val)
    return ns


STDOUT = VRef("Stdout", z3.IntVal(0))  # the ghost cell holding what main has printed (identity 0: never an allocated object)


def _emit_line(e, st, node, line):
    """one more entry of the stdout ghost list.  A heap write the engine's syntactic loop analysis cannot see: inside a loop it
    is accepted only if every enclosing loop contract declares writes = ['Stdout.lines']; refused inside comprehensions"""
    if getattr(e, "binders", ()):
        raise Unsupported("print inside a comprehension")
    k_ = e.enclosing_loop.get(id(getattr(e, "cur_stmt", None)))
    while k_ is not None:
        lc_ = e.cur_loops.get(k_)
        if not (isinstance(lc_, dict) and "Stdout.lines" in lc_.get("writes", ())):
            raise Unsupported(f"print is called in loop #{k_}, whose contract does not declare writes = ['Stdout.lines']")
        k_ = getattr(e, "loop_parent", {}).get(k_)
    cur = e.heap_read(st, STDOUT, "lines")
    q = z3.Int(uid("q"))
    n = to_z3(cur.length)
    new = VList(z3.simplify(n + 1), z3.Lambda([q], z3.If(q == n, to_z3(line), z3.Select(cur.elems, q))), ("str",))
    e.heap_write(st, STDOUT, "lines", new)


def ext_print(e, args, kw, node, st):
    """print(x) for one str, or one object whose str() the sidecar models (Cls.__str__): one more line on stdout"""
    if len(args) != 1 or kw:
        raise Unsupported("print: only print(<one value>) is modelled")
    x = args[0]
    if isinstance(x, VRef):
        x = e.conv_dunder("__str__", x, node, st)
        if x is e._NO_CONV:
            raise Unsupported(f"print of a {args[0].cls} object (no assumed contract {args[0].cls}.__str__)")
    if not (isinstance(x, str) or (z3.is_expr(x) and x.sort() == S)):
        raise Unsupported("print of this value")
    _emit_line(e, st, node, x)
    return None


def ext_print_help(e, args, kw, node, st):
    """parser.print_help(): writes the help text (one opaque entry help_text()) to stdout"""
    if len(args) != 1 or kw:
        raise Unsupported("print_help(...) with arguments")
    _emit_line(e, st, node, e.ufuns["help_text"]())
    return None


def ext_db_str(e, args, kw, node, st):
    """str(d) of a DotBracket object: a function of the structure it holds"""
    return e.ufuns["db_text"](to_z3(e.heap_read(st, args[0], "val")))


def ext_elem_str(e, args, kw, node, st):
    """str(x) of a Stem / SingleStrand / Hairpin / Loop object: a function of (structure, kind, position in its list)"""
    x = args[0]
    return e.ufuns["elem_text"](*[to_z3(e.heap_read(st, x, f)) for f in ("src", "kind", "idx")])


ext_db_str.pure = ext_elem_str.pure = True


def ext_chain(e, args, kw, node, st):
    """itertools.chain(L1, .., Ln) for lists of one element shape: iterating it visits L1's elements, then L2's, ..."""
    if kw or not args or not all(isinstance(a, VList) and a.elems is not None and a.eshape == args[0].eshape for a in args):
        raise Unsupported("itertools.chain: only of lists of one element shape")
    out = args[0]
    for a in args[1:]:
        out = e.list_concat(out, a)
    return out


ext_chain.pure = True

EXTERNALS = {
    "argparse.ArgumentParser": ext_ArgumentParser, "Parser.add_argument": ext_add_argument, "Parser.parse_args": ext_parse_args,
    "Parser.print_help": ext_print_help, "builtins.print": ext_print, "itertools.chain": ext_chain,
    "DotBracket.__str__": ext_db_str, "Element.__str__": ext_elem_str,
}


# ------------------------------------------------------------------------------------------------ spec vocabulary
@spec
def out():
    """what this call of main has printed so far (one entry per print / print_help call)"""
    return ref(Stdout, 0).lines


@spec
def dbn_given():
    return cli_has_dbn() and len(cli_dbn()) > 0


@spec
def bpseq_given():
    return cli_has_bpseq() and len(cli_bpseq()) > 0


@spec
def source_val():
    """the file's structure: --dbn wins over --bpseq"""
    return ite(dbn_given(), bp_of_db(dbn_file(cli_dbn())), bpseq_file(cli_bpseq()))


@spec
def after_isolated():
    return ite(cli_remove_isolated(), wo_isolated(source_val()), source_val())


@spec
def final_val():
    """... its without_isolated() when --remove-isolated; THEN its without_pseudoknots() when --remove-pseudoknots"""
    return ite(cli_remove_pseudoknots(), wo_pseudoknots(after_isolated()), after_isolated())


@spec
def offset(v, kind):
    """number of elements printed before the list of that kind: stems, single strands, hairpins, loops - in that order"""
    return ite(kind <= 0, 0, n_el(v, 0)) + ite(kind <= 1, 0, n_el(v, 1)) + ite(kind <= 2, 0, n_el(v, 2)) + ite(kind <= 3, 0, n_el(v, 3))


@spec
def elems_of(T, v):
    """T is the 4-tuple BpSeq.elements returns for an object of value v"""
    return (len(T[0]) == n_el(v, 0) and len(T[1]) == n_el(v, 1) and len(T[2]) == n_el(v, 2) and len(T[3]) == n_el(v, 3)
            and n_el(v, 0) >= 0 and n_el(v, 1) >= 0 and n_el(v, 2) >= 0 and n_el(v, 3) >= 0
            and forall(lambda k: implies(0 <= k and k < len(T[0]), T[0][k].src == v and T[0][k].kind == 0 and T[0][k].idx == k))
            and forall(lambda k: implies(0 <= k and k < len(T[1]), T[1][k].src == v and T[1][k].kind == 1 and T[1][k].idx == k))
            and forall(lambda k: implies(0 <= k and k < len(T[2]), T[2][k].src == v and T[2][k].kind == 2 and T[2][k].idx == k))
            and forall(lambda k: implies(0 <= k and k < len(T[3]), T[3][k].src == v and T[3][k].kind == 3 and T[3][k].idx == k)))


@spec
def printed_elements(O, v):
    """after the first line: every element of `elements` of the structure v, list by list, in list order, nothing else"""
    return (len(O) == 1 + offset(v, 4)
            and forall(lambda kind, k: implies(0 <= kind and kind <= 3 and 0 <= k and k < n_el(v, kind),
                                               O[1 + offset(v, kind) + k] == elem_text(v, kind, k))))


# ------------------------------------------------------------------------------------------------ assumed callee contracts
LIB_ERRORS = ["ValueError", "IndexError", "KeyError", "RuntimeError"]  # what the library may raise on a malformed input file


class bpseq_from_file:
    """ASSUMED: BpSeq.from_file(path) -> an object holding bpseq_file(path); may fail (OSError, malformed numbers)"""
    params = {"bpseq_path": "str"}
    nonnull_params = True  # (an Optional argument must be shown not to be None at the call site)
    requires = []
    returns = "BpSeq"
    raises = ["OSError"] + LIB_ERRORS
    modifies = []
    ensures = ["result.val == bpseq_file(bpseq_path)"]


class db_from_file:
    """ASSUMED: DotBracket.from_file(path) -> an object holding dbn_file(path); may fail"""
    params = {"path": "str"}
    nonnull_params = True
    requires = []
    returns = "DotBracket"
    raises = ["OSError"] + LIB_ERRORS
    modifies = []
    ensures = ["result.val == dbn_file(path)"]


class bpseq_from_dotbracket:
    params = {"dot_bracket": "DotBracket"}
    requires = []
    returns = "BpSeq"
    raises = LIB_ERRORS
    modifies = []
    ensures = ["result.val == bp_of_db(dot_bracket.val)"]


class bpseq_without_isolated:
    """ASSUMED: b.without_isolated() -> an object (b itself or a new one) holding wo_isolated(b.val); b is not changed"""
    params = {"self": "BpSeq"}
    requires = []
    returns = "BpSeq"
    raises = LIB_ERRORS
    modifies = []
    ensures = ["result.val == wo_isolated(self.val)"]


class bpseq_without_pseudoknots:
    params = {"self": "BpSeq"}
    requires = []
    returns = "BpSeq"
    raises = LIB_ERRORS
    modifies = []
    ensures = ["result.val == wo_pseudoknots(self.val)"]


class bpseq_dot_bracket:
    """ASSUMED: the cached property b.dot_bracket -> a DotBracket object holding dot_bracket_of(b.val); ghost `on`: b"""
    is_property = True
    params = {"self": "BpSeq"}
    requires = []
    returns = "DotBracket"
    ghost_returns = {"on": "BpSeq"}
    raises = LIB_ERRORS
    modifies = []
    ensures = ["on is self", "result.val == dot_bracket_of(self.val)"]


class bpseq_elements:
    """ASSUMED: the cached property b.elements -> (stems, single strands, hairpins, loops) of b.val; ghost `on`: b"""
    is_property = True
    params = {"self": "BpSeq"}
    requires = []
    returns = "tuple[list[Element],list[Element],list[Element],list[Element]]"
    ghost_returns = {"on": "BpSeq"}
    raises = LIB_ERRORS
    modifies = []
    ensures = ["on is self", "elems_of(result, self.val)"]


# ------------------------------------------------------------------------------------------------ main
class main:
    """motif_extractor.main(): the dot-bracket printed and the elements printed are `dot_bracket` and `elements` of ONE BpSeq
    object b, and b holds: the file's structure; its without_isolated() when --remove-isolated; then its without_pseudoknots()
    when --remove-pseudoknots - in that order.  Neither --dbn nor --bpseq: the help text and nothing else."""
    params = {}
    requires = ["len(out()) == 0"]  # `out()` counts from the start of this call
    raises = ["SystemExit", "OSError"] + LIB_ERRORS
    modifies = ["Stdout.lines"]
    ghost_entry = ["let dot_bracket_on = ref(BpSeq, 0)", "let elements_on = ref(BpSeq, 0 - 1)"]
    ensures = [
        "implies(not dbn_given() and not bpseq_given(), len(out()) == 1 and out()[0] == help_text())",
        "implies(dbn_given() or bpseq_given(), dot_bracket_on is elements_on)",
        "implies(dbn_given() or bpseq_given(), elements_on.val == final_val())",
        "implies(dbn_given() or bpseq_given(), out()[0] == 'Full dot-bracket:\\n' + db_text(dot_bracket_of(final_val())))",
        "implies(dbn_given() or bpseq_given(), printed_elements(out(), final_val()))",
    ]
    ensures_labels = {0: "no-input-option-prints-help-and-nothing-else",
                      1: "dot-bracket-and-elements-are-read-from-ONE-object",
                      2: "that-object-is-file-then-without-isolated-then-without-pseudoknots",
                      3: "first-line-is-the-dot-bracket-of-that-structure",
                      4: "then-every-element-of-that-structure-in-order-and-nothing-else"}
    loops = {0: {"index": "n", "iter": "CH", "writes": ["Stdout.lines"], "inv": [
        "len(out()) == 1 + n and out()[0] == old_first",
        "forall(lambda j: implies(1 <= j and j <= n, out()[j] == elem_text(CH[j - 1].src, CH[j - 1].kind, CH[j - 1].idx)), pats=['out()[j]'])",
    ], "labels": {0: "one-line-per-element-so-far", 1: "line-j-is-element-j-1-of-the-chain"}}}
    ghost = [
        {"when": "before", "at": "for element in", "label": "first-line", "do": ["let old_first = out()[0]"]},
        # the chain, list by list (line j of the output, j >= 1, is element j - 1 of the chain)
        {"when": "after", "at": "for element in", "label": "list-by-list", "do": [
            "let V = elements_on.val", "let n0 = len(stems)", "let n1 = len(single_strands)", "let n2 = len(hairpins)", "let n3 = len(loops)",
            "assert forall(lambda j: implies(1 <= j and j < 1 + n0, out()[j] == elem_text(V, 0, j - 1)), pats=['out()[j]'])",
            "assert forall(lambda j: implies(1 + n0 <= j and j < 1 + n0 + n1, out()[j] == elem_text(V, 1, j - 1 - n0)), pats=['out()[j]'])",
            "assert forall(lambda j: implies(1 + n0 + n1 <= j and j < 1 + n0 + n1 + n2, out()[j] == elem_text(V, 2, j - 1 - n0 - n1)), pats=['out()[j]'])",
            "assert forall(lambda j: implies(1 + n0 + n1 + n2 <= j and j < 1 + n0 + n1 + n2 + n3, out()[j] == elem_text(V, 3, j - 1 - n0 - n1 - n2)), pats=['out()[j]'])",
            "assert len(out()) == 1 + n0 + n1 + n2 + n3 and n0 == n_el(V, 0) and n1 == n_el(V, 1) and n2 == n_el(V, 2) and n3 == n_el(V, 3)",
        ]},
    ]


CONTRACTS = {"main": main,
             "BpSeq.from_file": bpseq_from_file, "DotBracket.from_file": db_from_file, "BpSeq.from_dotbracket": bpseq_from_dotbracket,
             "BpSeq.without_isolated": bpseq_without_isolated, "BpSeq.without_pseudoknots": bpseq_without_pseudoknots,
             "BpSeq.dot_bracket": bpseq_dot_bracket, "BpSeq.elements": bpseq_elements}
