"""Sidecar contracts for C14 (outputs are a function of the input), part 3: rnapolis.common.BpSeq.elements.

BpSeq.elements collects the stem ends in the SET `stopset` and cuts the sequence at `stops = sorted(stopset)`; the hairpin /
loop-candidate loop and the 5' / 3' tails then run over `range(len(stops))`, i.e. their order is the order of `stops`.

    BpSeq.elements@stops   PREFIX contract up to `loop_candidates = []` (the statement behind `stops = sorted(stopset)`): `stops` is the
                           strictly increasing list of exactly the members of stopset - strictly increasing + same members = unique,
                           so the cut positions do not depend on how the set enumerates.  `list(stopset)`, no sort or a sort in
                           another order fail `stops-strictly-increasing`.

The stems loop in front of it is verified as in contracts/common_elems_c.py (bpseq_elements_prefix: the same loop invariants and ghost
steps, reused by reference) because its callee Stem.from_bpseq_entries has preconditions.

NOT covered here (stays with the bounded stand-in): the loop-linking walk behind it, `for j in graph[i]` (common.py:619) iterates a set
of candidate indices and takes the first usable member.  It is order-independent because graph[i] has at most one member (graph[i]
holds the candidates whose first nucleotide is the partner of candidate i's last one, and the candidates start at pairwise different
stops) - that argument is not under contract.

Reused by import, not edited: contracts/common_elems_c.py and through it contracts/common_c.py."""
import z3

import contracts.common_c as _c
import contracts.common_elems_c as CE
from pyvc.values import VSet, sel, to_z3, uid


def spec(f):
    return f


__file_spec__ = [_c.__file__, CE.__file__, __file__]
for _n in ("STABLE_BINDERS", "PRUNE_BRANCHES", "PACK_KEYS", "FINITE_MEMBERSHIP", "PURE_EXTERNALS", "SPEC_EXTERNALS", "SPEC_CONSTS", "INLINE"):
    if hasattr(CE, _n):
        globals()[_n] = getattr(CE, _n)
CLASSES = CE.CLASSES
LEMMAS = dict(CE.LEMMAS)
UFUNS = dict(CE.UFUNS)
EXTERNALS = dict(CE.EXTERNALS)


def _sorted_int_set(e, args, kw, node, st):
    """sorted(S) for a set of integers as assumed in contracts/common_elems_c.py (the strictly increasing list of exactly the members,
    position map SORTED_IDX).  Added: the consequence `every member stands at some position` in existential form (witness
    SORTED_IDX[k]), so that the completeness clause needs no ghost name that exists only when sorted() was called."""
    if set(kw) == {"reverse"} and len(args) == 1 and isinstance(args[0], VSet):
        rev = kw.pop("reverse")
        if rev is True or (z3.is_expr(rev) and z3.is_true(rev)):
            # sorted(.., reverse=True): the members in strictly DEcreasing order; over-approximated by `a list holding exactly the
            # members, each once, in SOME order` (enough to judge an `increasing` clause: both fail as soon as two members exist)
            e.set_iter_plan(args[0], node, st)
            return e.last_enum
        if not (rev is False or (z3.is_expr(rev) and z3.is_false(rev))):
            kw["reverse"] = rev  # undecided flag: no assumed contract (Unsupported below)
    out = CE._sorted_int_set(e, args, kw, node, st)
    S = args[0]
    if isinstance(S, VSet):
        k, q = z3.Int(uid("k")), z3.Int(uid("q"))
        st.assume(z3.ForAll([k], z3.Implies(to_z3(sel(S.mem, k)), z3.Exists([q], z3.And(q >= 0, q < to_z3(out.length), z3.Select(out.elems, q) == k)))))
    return out


EXTERNALS["builtins.sorted"] = _sorted_int_set

_B = CE.bpseq_elements_prefix


class bpseq_elements_stops(_B):
    __doc__ = "see the module text; ghost names S, GS, E, DB as in bpseq_elements_prefix"
    stop_before = "loop_candidates = []"
    stop_ensures = [
        "forall(lambda q, w: implies(0 <= q and q < w and w < len(stops), stops[q] < stops[w]))",
        "forall(lambda q: implies(0 <= q and q < len(stops), stops[q] in stopset))",
        "forall(lambda x: implies(x in stopset, exists(lambda q: 0 <= q and q < len(stops) and stops[q] == x)))",
    ]
    stop_ensures_labels = {0: "stops-strictly-increasing", 1: "every-stop-is-a-stem-end", 2: "every-stem-end-is-a-stop"}
    locals = dict(_B.locals, stops="list[int]")
    loops = {0: _B.loops[0]}
    # (the last step is anchored at `stops = ` instead of `stops = sorted(stopset)`: it must bind whatever the right-hand side is)
    ghost = [dict(g, at="stops = ") if g["label"] == "stems-done" else g for g in _B.ghost if g["label"] in ("names", "stem-k", "stops-k", "stems-done")]


CONTRACTS = dict(CE.CONTRACTS)
CONTRACTS["BpSeq.elements@stops"] = bpseq_elements_stops
