"""Sidecar contracts for the mmCIF legs of rnapolis/parser_v2.py (C09: "Writing an atom table and reading it back is the
identity on record type, serial, atom name, ... for ... mmCIF->mmCIF and for the cross paths PDB->mmCIF->PDB ...").

Under contract (real code, re-read on every run)
  _pdb_charge_to_int_str     PDB charge text ('2+', '1-', also '+2' / '-1') -> the signed integer text mmCIF carries
  write_cif@rows             PREFIX contract (up to, not including, the construction of the mmcif DataCategory): the item names
                             `attributes` and, for every table row i, the list rows[i] of item texts - which column feeds which
                             atom_site item, what is written for an absent value
The tail of write_cif (DataCategory / DataContainer / IoAdapterPy.writeFile / temporary file) is the mmcif library's writer: trusted.

Abstraction of pandas: the one of contracts/parser_v2_write_c.py (Frame / Row / Cell, uninterpreted has_col / cell_of / cell_isna /
cell_str / cell_int / cell_float), extended by
  df.columns          the list of column names (field `columns` of Frame); has_col(df, name) holds for each of them (requires)
  row[key]            the cell of column key; KeyError when the table lacks the column
  row.get(key)        also for a computed key (the loop over `attributes`)
"""
import z3 as _z3

from contracts import parser_v2_c as _V
from contracts import parser_v2_write_c as _W
from contracts.parser_v2_c import DIGIT_SIGN, SIGNED_DIGIT, WS_CHARS  # noqa: F401  (regex names used by matches(..))
from pyvc.expr import AND, NOT, OR
from pyvc.values import Unsupported, VList, VOpt, VRec, VRef, VTuple, to_z3, uid

__file_spec__ = list(_W.__file_spec__) + [__file__]


def spec(f):
    return f


_I, _S, _B, _R = _z3.IntSort(), _z3.StringSort(), _z3.BoolSort(), _z3.RealSort()

CLASSES = dict(_W.CLASSES)
# the table: as in parser_v2_write_c plus the list of column names (df.columns)
CLASSES["Frame"] = {"kind": "record", "fields": {"id": "int", "empty": "bool", "attrs": "rec[Attrs]", "columns": "list[str]"}}
# mmcif DataContainer("name"): an object; nothing of it is read before the cut of the prefix contract
CLASSES["Container"] = {"kind": "object", "fields": {"name": "str"}}
INLINE = []
PRUNE_BRANCHES = False
UFUNS = dict(_W.UFUNS)
LEMMAS = dict(_W.LEMMAS)

SIGN_DIGIT = "[+-][0-9]"


# ------------------------------------------------------------------------------------------------ assumed externals
def _zkey(key):
    return _z3.StringVal(key) if isinstance(key, str) else to_z3(key)


def _cell(e, row, key):
    return VRec("Cell", {"id": e.ufuns["cell_of"](to_z3(row.fields["df"]), to_z3(row.fields["i"]), _zkey(key))})


def _has(e, row, key):
    return e.ufuns["has_col"](to_z3(row.fields["df"]), _zkey(key))


def _ext_row_get(e, args, kw, node, st):
    """row.get(key[, default]): for a constant key the model of contracts/parser_v2_write_c.py; for a computed key (and no
    default): the cell of column `key` when the table has that column (uninterpreted has_col), else None"""
    if len(args) >= 2 and isinstance(args[1], str):
        return _W._ext_row_get(e, args, kw, node, st)
    if len(args) != 2 or kw or not (_z3.is_expr(args[1]) and args[1].sort() == _S):
        raise Unsupported("row.get: only row.get(<column name>[, default for a constant name])")
    return VOpt(NOT(_has(e, args[0], args[1])), _cell(e, args[0], args[1]))


_ext_row_get.pure = True


def _ext_row_getitem(e, args, kw, node, st):
    """row[key] (pandas Series.__getitem__ with a label): the cell of column `key`; KeyError when the table lacks the column"""
    if len(args) != 2 or kw or not isinstance(args[1], str):
        raise Unsupported("row[...]: only a constant column name")
    e.may_raise(NOT(_has(e, args[0], args[1])), "KeyError", node)
    return _cell(e, args[0], args[1])


_ext_row_getitem.pure = True


def _ext_format(e, args, kw, node, st):
    """format(x, '.3f') / format(x, '.2f') of a float (no width): uninterpreted functions py_fmt__3f / py_fmt__2f of the value
    (what they compute enters only through the assumed lemmas fmt3_roundtrip / fmt2_roundtrip); every other spec: the model of
    contracts/parser_v2_c.py"""
    v, spc = args
    if spc in (".3f", ".2f") and (isinstance(v, (int, float)) or hasattr(v, "numerator") or (hasattr(v, "sort") and v.sort() in (_R, _I))):
        return e.ufun("py_fmt_" + spc.replace(".", "_"), _R, _S)(to_z3(v, "real"))
    return _V._ext_format(e, args, kw, node, st)


def _ext_fmt_spec(spc):
    def f(e, args, kw, node, st):
        return _ext_format(e, [args[0], spc], kw, node, st)
    return f


def _ext_container(e, args, kw, node, st):
    """mmcif DataContainer(name): a new container object"""
    if len(args) != 1 or kw:
        raise Unsupported("DataContainer(...)")
    ref = VRef("Container", st.alloc)
    st.alloc = _z3.simplify(to_z3(st.alloc) + 1)
    e.heap_write(st, ref, "name", args[0])
    return ref


def _sx_cell(e, args, kw, node, st):
    return _cell(e, args[0], args[1])


def _sx_has(e, args, kw, node, st):
    return e.ufuns["has_col"](to_z3(args[0].fields["id"]), _zkey(args[1]))


from mmcif.io.PdbxReader import DataContainer as _DC

EXTERNALS = dict(_W.EXTERNALS)
EXTERNALS.update({
    "Row.get": _ext_row_get, "Row.__getitem__": _ext_row_getitem, "builtins.format": _ext_format,
    f"{_DC.__module__}.{_DC.__qualname__}": _ext_container,
    "spec.cell": _sx_cell, "spec.has": _sx_has, "spec.fmt3": _ext_fmt_spec(".3f"), "spec.fmt2": _ext_fmt_spec(".2f"),
})
SPEC_EXTERNALS = dict(_W.SPEC_EXTERNALS)
SPEC_EXTERNALS.update({"fmt3": "spec.fmt3", "fmt2": "spec.fmt2"})


# ------------------------------------------------------------------------------------------------ _pdb_charge_to_int_str
ASCII = "[\\x00-\\x7f]*"


@spec
def signed_text(t):
    """the signed integer text for a two-character PDB charge text t = digit, sign: '2+' -> '2', '1-' -> '-1'"""
    return ite(t[1:2] == "-", "-", "") + t[0:1]


@spec
def signed_text_sign_first(t):
    """the same for the sign-first spelling: '+2' -> '2', '-1' -> '-1'"""
    return ite(t[0:1] == "-", "-", "") + t[1:2]


@spec
def pdb_charge_value(t):
    """the signed integer a PDB charge text (digit, sign) stands for: '2+' = 2, '1-' = -1"""
    return ite(t[1:2] == "-", 0 - int(t[0:1]), int(t[0:1]))


LEMMAS["signed_text_value"] = {
    # the text written for a PDB charge is an optionally negated digit and spells the integer the PDB text stands for
    "kind": "smt", "params": ["t"], "shapes": ["str"], "requires": ["matches(t, DIGIT_SIGN)"],
    "ensures": ["matches(signed_text(t), SIGNED_DIGIT)", "implies(t[1:2] == '-', int(signed_text(t)) == 0 - int(t[0:1])) and implies(t[1:2] != '-', int(signed_text(t)) == int(t[0:1]))", "not null_marker(signed_text(t))"],
    "steps": ["assert len(t) == 2 and matches(t[0:1], '[0-9]')",
              "assert implies(t[1:2] == '-', signed_text(t) == '-' + t[0:1])", "assert implies(t[1:2] != '-', signed_text(t) == t[0:1])"]}


class charge_to_int_c:
    """_pdb_charge_to_int_str(cell): with t = the cell's text without surrounding whitespace - a PDB charge (digit, sign) or its
    sign-first spelling becomes the optionally negated digit that spells the same integer (lemma signed_text_value); a text of
    another length is handed on as t.  (pyvc models str.isdigit() for ASCII text only: requires)"""
    params = {"charge": "rec[Cell]"}
    requires = ["matches(strip(cstr(charge)), ASCII)"]
    returns = "str"
    raises = []
    modifies = []
    ensures = [
        "implies(matches(strip(cstr(charge)), DIGIT_SIGN), result == signed_text(strip(cstr(charge))))",
        "implies(matches(strip(cstr(charge)), SIGN_DIGIT), result == signed_text_sign_first(strip(cstr(charge))))",
        "implies(not matches(strip(cstr(charge)), DIGIT_SIGN) and not matches(strip(cstr(charge)), SIGN_DIGIT), result == strip(cstr(charge)))",
    ]
    ensures_labels = {0: "digit-sign-becomes-the-signed-integer-text", 1: "sign-digit-becomes-the-signed-integer-text", 2: "every-other-text-unchanged"}


# ------------------------------------------------------------------------------------------------ write_cif: the rows
PDB_ITEMS = ["group_PDB", "id", "type_symbol", "label_atom_id", "label_alt_id", "label_comp_id", "label_asym_id", "label_entity_id",
             "label_seq_id", "pdbx_PDB_ins_code", "Cartn_x", "Cartn_y", "Cartn_z", "occupancy", "B_iso_or_equiv", "pdbx_formal_charge",
             "auth_seq_id", "auth_comp_id", "auth_asym_id", "auth_atom_id", "pdbx_PDB_model_num"]


@spec
def trow(df, i):
    """row i of the table (spec `row` of parser_v2_write_c under a name that no local of write_cif shadows)"""
    return row(df, i)


@spec
def null_marker(s):
    """one of the two mmCIF markers for "no value" """
    return s == "?" or s == "."


@spec
def text_or_null(c, s):
    """s is what is written for the optional text cell c: a null marker when the value is missing, else the cell as text"""
    return ite(isna(c), null_marker(s), s == cstr(c))


@spec
def charge_item(c, s):
    """s is what is written for the charge cell c: a null marker when missing; for a PDB charge text (digit, sign) the signed
    integer text of the same value ('2+' -> '2', '1-' -> '-1')"""
    return ite(isna(c), null_marker(s),
               implies(matches(strip(cstr(c)), DIGIT_SIGN), s == signed_text(strip(cstr(c)))))


@spec
def items_of_pdb_row(r, R):
    """R is the atom_site row written for row r of a table in the PDB column naming: item by item (order PDB_ITEMS) the fields
    of r.  Residue number, residue name, chain and atom name fill the label_* and the auth_* item alike."""
    return (len(R) == 21
            and R[0] == cstr(cell(r, "record_type"))
            and R[1] == str(cint(cell(r, "serial")))
            and text_or_null(cell(r, "element"), R[2])
            and R[3] == cstr(cell(r, "name")) and R[19] == cstr(cell(r, "name"))
            and text_or_null(cell(r, "altLoc"), R[4])
            and R[5] == cstr(cell(r, "resName")) and R[17] == cstr(cell(r, "resName"))
            and R[6] == cstr(cell(r, "chainID")) and R[18] == cstr(cell(r, "chainID"))
            and not null_marker(R[7])
            and R[8] == str(cint(cell(r, "resSeq"))) and R[16] == str(cint(cell(r, "resSeq")))
            and text_or_null(cell(r, "iCode"), R[9])
            and R[10] == fmt3(cfloat(cell(r, "x"))) and R[11] == fmt3(cfloat(cell(r, "y"))) and R[12] == fmt3(cfloat(cell(r, "z")))
            and R[13] == fmt2(cfloat(cell(r, "occupancy"))) and R[14] == fmt2(cfloat(cell(r, "tempFactor")))
            and charge_item(cell(r, "charge"), R[15])
            and R[20] == str(cint(cell(r, "model"))))


@spec
def items_of_cif_row(df, r, R):
    """R is the atom_site row written for row r of a table in the mmCIF naming: one item per column, in column order; a null
    marker for a missing value, else the cell as text"""
    return (len(R) == len(df.columns)
            and forall(lambda k: implies(0 <= k and k < len(df.columns), text_or_null(cell(r, df.columns[k]), R[k]))))


@spec
def numbers_readable(r):
    """the numeric cells of a PDB-format row hold numbers (int() / float() accept them)"""
    return (cint_ok(cell(r, "serial")) and cint_ok(cell(r, "resSeq")) and cint_ok(cell(r, "model")) and cfloat_ok(cell(r, "x"))
            and cfloat_ok(cell(r, "y")) and cfloat_ok(cell(r, "z")) and cfloat_ok(cell(r, "occupancy")) and cfloat_ok(cell(r, "tempFactor")))


@spec
def is_pdb_items(A):
    return (len(A) == 21 and A[0] == "group_PDB" and A[1] == "id" and A[2] == "type_symbol" and A[3] == "label_atom_id"
            and A[4] == "label_alt_id" and A[5] == "label_comp_id" and A[6] == "label_asym_id" and A[7] == "label_entity_id"
            and A[8] == "label_seq_id" and A[9] == "pdbx_PDB_ins_code" and A[10] == "Cartn_x" and A[11] == "Cartn_y"
            and A[12] == "Cartn_z" and A[13] == "occupancy" and A[14] == "B_iso_or_equiv" and A[15] == "pdbx_formal_charge"
            and A[16] == "auth_seq_id" and A[17] == "auth_comp_id" and A[18] == "auth_asym_id" and A[19] == "auth_atom_id"
            and A[20] == "pdbx_PDB_model_num")


class write_cif_rows_c:
    """PREFIX contract: write_cif up to (not including) `atom_site_category = DataCategory("atom_site", attributes, rows)`.
    A table whose format tag is 'mmCIF' is written column by column; every other table is taken to be in the PDB naming."""
    params = {"df": "rec[Frame]"}
    defaults = {"output": None}
    requires = [
        # the abstraction: every name in df.columns is a column of the table
        "len(df.columns) >= 0 and forall(lambda k: implies(0 <= k and k < len(df.columns), has(df, df.columns[k])))",
        "implies(not is_cif(df), pdb_columns(df))",
        "forall(lambda i: implies(0 <= i and i < nrows(df.id) and not is_cif(df), numbers_readable(trow(df, i))))",
        # pyvc models str.isdigit() (used by _pdb_charge_to_int_str) for ASCII text only
        "forall(lambda i: implies(0 <= i and i < nrows(df.id) and not is_cif(df), matches(strip(cstr(cell(trow(df, i), 'charge'))), ASCII)))",
    ]
    raises = []
    modifies = []
    ensures = []
    stop_before = "atom_site_category = DataCategory("
    stop_ensures = [
        "ite(is_cif(df), len(attributes) == len(df.columns) and forall(lambda k: implies(0 <= k and k < len(df.columns), attributes[k] == df.columns[k])), is_pdb_items(attributes))",
        "len(rows) == nrows(df.id)",
        "forall(lambda i: implies(0 <= i and i < nrows(df.id) and not is_cif(df), items_of_pdb_row(trow(df, i), rows[i])))",
        "forall(lambda i: implies(0 <= i and i < nrows(df.id) and is_cif(df), items_of_cif_row(df, trow(df, i), rows[i])))",
    ]
    stop_ensures_labels = {0: "item-names-are-the-mmCIF-columns-or-the-21-items-for-a-PDB-table", 1: "one-atom_site-row-per-table-row",
                           2: "PDB-table-row-i-item-by-item", 3: "mmCIF-table-row-i-column-by-column"}
    locals = {"rows": "list[list[str]]", "row_data": "list[str]"}
    loops = {
        0: {"index": "n", "inv": [
            "n >= 0 and len(rows) == n",
            "ite(is_cif(df), len(attributes) == len(df.columns) and forall(lambda k: implies(0 <= k and k < len(df.columns), attributes[k] == df.columns[k])), is_pdb_items(attributes))",
            "forall(lambda i: implies(0 <= i and i < n and not is_cif(df), items_of_pdb_row(trow(df, i), rows[i])))",
            "forall(lambda i: implies(0 <= i and i < n and is_cif(df), items_of_cif_row(df, trow(df, i), rows[i])))",
        ]},
        1: {"index": "m", "inv": [
            "m >= 0 and len(row_data) == m and is_cif(df)",
            "forall(lambda k: implies(0 <= k and k < m, text_or_null(cell(trow(df, n), df.columns[k]), row_data[k])))",
        ]},
    }
    ghost = [
        {"when": "before", "at": "rows.append(row_data)", "loop": 0, "label": "remember", "do": ["let R0 = rows"]},
        {"when": "before", "at": "rows.append(row_data)", "loop": 0, "label": "PDB-table-row-n-item-by-item",
         "do": ["assert implies(not is_cif(df), items_of_pdb_row(trow(df, n), row_data))"]},
        {"when": "before", "at": "rows.append(row_data)", "loop": 0, "label": "mmCIF-table-row-n-column-by-column",
         "do": ["assert implies(is_cif(df), items_of_cif_row(df, trow(df, n), row_data))"]},
        {"when": "after", "at": "rows.append(row_data)", "loop": 0, "label": "earlier-rows-kept",
         "do": ["assert len(rows) == n + 1 and rows[n] == row_data and forall(lambda i: implies(0 <= i and i < n, rows[i] == R0[i]))"]},
    ]


CONTRACTS = {"write_cif@rows": write_cif_rows_c, "_pdb_charge_to_int_str": charge_to_int_c}
