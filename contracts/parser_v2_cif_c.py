"""Sidecar contracts for the mmCIF legs of rnapolis/parser_v2.py (C09: "Writing an atom table and reading it back is the
identity on record type, serial, atom name, ... for ... mmCIF->mmCIF and for the cross paths PDB->mmCIF->PDB ...").

Under contract (real code, re-read on every run)
  _pdb_charge_to_int_str     PDB charge text ('2+', '1-', also '+2' / '-1') -> the signed integer text mmCIF carries
  write_cif@rows             PREFIX contract (up to, not including, the construction of the mmcif DataCategory): the item names
                             `attributes` and, for every table row i, the list rows[i] of item texts - which column feeds which
                             atom_site item, what is written for an absent value (a null marker '?' / '.')
  parse_cif_atoms@decode, @decode_stringio, @decode_file
                             one PREFIX contract for the three input forms (str / io.StringIO / open file with a name; up to, not
                             including, `df = pd.DataFrame(records)`): relative to
                             the document the mmcif reader returns (ghost parameters NB, HAS, ATTRS, ROWS) `records` holds one
                             dict per atom_site row, item name -> cell text, None for the null markers, no other keys
Lemmas (kind "smt": proved)
  pdb_row_through_cif        one row of a PDB-format table -> the 21 items of write_cif@rows -> the record of parse_cif_atoms@decode
                             holds the row's fields under the mmCIF item names
  cif_row_through_cif        the same for a row of an mmCIF-format table (column by column)
  pdb_atom_back_from_cif     ... and the atom write_pdb reads (spec atom_cif of parser_v2_write_c) from the table row built from that
                             record is the atom of the PDB-format row (numbers to 0.0005 / 0.005, charge as signed integer text)
  signed_text_value, signed_digit_canonical, int_ok_of_str, charge_text_back     string / integer text helpers
ASSUMED lemmas: fmt3_roundtrip / fmt2_roundtrip (CPython float formatting / parsing).
TRUSTED, not verified: the tail of write_cif (DataCategory / DataContainer / IoAdapterPy.writeFile / temporary file: the mmcif
library's writer), the head of parse_cif_atoms as far as it is the mmcif reader (readFile: modelled as "returns the ghost
document"), and the pandas tail of parse_cif_atoms (DataFrame construction, to_numeric / astype: pandas from there to the end;
its assumed effect on one row is the spec frame_holds_record, a hypothesis of lemma pdb_atom_back_from_cif).

Abstraction of pandas: the one of contracts/parser_v2_write_c.py (Frame / Row / Cell, uninterpreted has_col / cell_of / cell_isna /
cell_str / cell_int / cell_float), extended by
  df.columns          the list of column names (field `columns` of Frame); has_col(df, name) holds for each of them (requires)
  row[key]            the cell of column key; KeyError when the table lacks the column
  row.get(key)        also for a computed key (the loop over `attributes`): the cell, None when the table lacks the column
"""
import z3 as _z3

from contracts import parser_v2_c as _V
from contracts import parser_v2_write_c as _W
from contracts.parser_v2_c import DIGIT_SIGN, SIGNED_DIGIT, WS_CHARS  # noqa: F401  (regex names used by matches(..))
from pyvc.expr import AND, NOT, OR
from pyvc.values import Unsupported, VList, VOpt, VRec, VRef, VTuple, to_z3, uid

__file_spec__ = list(_W.__file_spec__) + [__file__]


def spec(f):
    return f


_I, _S, _B, _R = _z3.IntSort(), _z3.StringSort(), _z3.BoolSort(), _z3.RealSort()

CLASSES = dict(_W.CLASSES)
# the table: as in parser_v2_write_c plus the list of column names (df.columns)
CLASSES["Frame"] = {"kind": "record", "fields": {"id": "int", "empty": "bool", "attrs": "rec[Attrs]", "columns": "list[str]"}}
# mmcif DataContainer("name"): an object; nothing of it is read before the cut of the prefix contract
CLASSES["Container"] = {"kind": "object", "fields": {"name": "str"}}
INLINE = []
PRUNE_BRANCHES = False
UFUNS = dict(_W.UFUNS)
LEMMAS = dict(_W.LEMMAS)

SIGN_DIGIT = "[+-][0-9]"


# ------------------------------------------------------------------------------------------------ assumed externals
def _zkey(key):
    return _z3.StringVal(key) if isinstance(key, str) else to_z3(key)


def _cell(e, row, key):
    return VRec("Cell", {"id": e.ufuns["cell_of"](to_z3(row.fields["df"]), to_z3(row.fields["i"]), _zkey(key))})


def _has(e, row, key):
    return e.ufuns["has_col"](to_z3(row.fields["df"]), _zkey(key))


def _ext_row_get(e, args, kw, node, st):
    """row.get(key[, default]): for a constant key the model of contracts/parser_v2_write_c.py; for a computed key (and no
    default): the cell of column `key` when the table has that column (uninterpreted has_col), else None"""
    if len(args) >= 2 and isinstance(args[1], str):
        return _W._ext_row_get(e, args, kw, node, st)
    if len(args) != 2 or kw or not (_z3.is_expr(args[1]) and args[1].sort() == _S):
        raise Unsupported("row.get: only row.get(<column name>[, default for a constant name])")
    return VOpt(NOT(_has(e, args[0], args[1])), _cell(e, args[0], args[1]))


_ext_row_get.pure = True


def _ext_row_getitem(e, args, kw, node, st):
    """row[key] (pandas Series.__getitem__ with a label): the cell of column `key`; KeyError when the table lacks the column"""
    if len(args) != 2 or kw or not isinstance(args[1], str):
        raise Unsupported("row[...]: only a constant column name")
    e.may_raise(NOT(_has(e, args[0], args[1])), "KeyError", node)
    return _cell(e, args[0], args[1])


_ext_row_getitem.pure = True


def _ext_format(e, args, kw, node, st):
    """format(x, '.3f') / format(x, '.2f') of a float (no width): uninterpreted functions py_fmt__3f / py_fmt__2f of the value
    (what they compute enters only through the assumed lemmas fmt3_roundtrip / fmt2_roundtrip); every other spec: the model of
    contracts/parser_v2_c.py"""
    v, spc = args
    if spc in (".3f", ".2f") and (isinstance(v, (int, float)) or hasattr(v, "numerator") or (hasattr(v, "sort") and v.sort() in (_R, _I))):
        return e.ufun("py_fmt_" + spc.replace(".", "_"), _R, _S)(to_z3(v, "real"))
    return _V._ext_format(e, args, kw, node, st)


def _ext_fmt_spec(spc):
    def f(e, args, kw, node, st):
        return _ext_format(e, [args[0], spc], kw, node, st)
    return f


def _ext_container(e, args, kw, node, st):
    """mmcif DataContainer(name): a new container object"""
    if len(args) != 1 or kw:
        raise Unsupported("DataContainer(...)")
    ref = VRef("Container", st.alloc)
    st.alloc = _z3.simplify(to_z3(st.alloc) + 1)
    e.heap_write(st, ref, "name", args[0])
    return ref


def _sx_cell(e, args, kw, node, st):
    return _cell(e, args[0], args[1])


def _sx_has(e, args, kw, node, st):
    return e.ufuns["has_col"](to_z3(args[0].fields["id"]), _zkey(args[1]))


from mmcif.io.PdbxReader import DataContainer as _DC

EXTERNALS = dict(_W.EXTERNALS)
EXTERNALS.update({
    "Row.get": _ext_row_get, "Row.__getitem__": _ext_row_getitem, "builtins.format": _ext_format,
    f"{_DC.__module__}.{_DC.__qualname__}": _ext_container,
    "spec.cell": _sx_cell, "spec.has": _sx_has, "spec.fmt3": _ext_fmt_spec(".3f"), "spec.fmt2": _ext_fmt_spec(".2f"),
})
SPEC_EXTERNALS = dict(_W.SPEC_EXTERNALS)
SPEC_EXTERNALS.update({"fmt3": "spec.fmt3", "fmt2": "spec.fmt2"})


# ------------------------------------------------------------------------------------------------ _pdb_charge_to_int_str
ASCII = "[\\x00-\\x7f]*"


@spec
def signed_text(t):
    """the signed integer text for a two-character PDB charge text t = digit, sign: '2+' -> '2', '1-' -> '-1'"""
    return ite(t[1:2] == "-", "-", "") + t[0:1]


@spec
def signed_text_sign_first(t):
    """the same for the sign-first spelling: '+2' -> '2', '-1' -> '-1'"""
    return ite(t[0:1] == "-", "-", "") + t[1:2]


LEMMAS["signed_text_value"] = {
    # the text written for a PDB charge is an optionally negated digit and spells the integer the PDB text stands for
    "kind": "smt", "params": ["t"], "shapes": ["str"], "requires": ["matches(t, DIGIT_SIGN)"],
    "ensures": ["matches(signed_text(t), SIGNED_DIGIT)", "implies(t[1:2] == '-', int(signed_text(t)) == 0 - int(t[0:1])) and implies(t[1:2] != '-', int(signed_text(t)) == int(t[0:1]))", "not null_marker(signed_text(t))"],
    "steps": ["assert len(t) == 2 and matches(t[0:1], '[0-9]')",
              "assert implies(t[1:2] == '-', signed_text(t) == '-' + t[0:1])", "assert implies(t[1:2] != '-', signed_text(t) == t[0:1])"]}


class charge_to_int_c:
    """_pdb_charge_to_int_str(cell): with t = the cell's text without surrounding whitespace - a PDB charge (digit, sign) or its
    sign-first spelling becomes the optionally negated digit that spells the same integer (lemma signed_text_value); a text of
    another length is handed on as t.  (pyvc models str.isdigit() for ASCII text only: requires)"""
    params = {"charge": "rec[Cell]"}
    requires = ["matches(strip(cstr(charge)), ASCII)"]
    returns = "str"
    raises = []
    modifies = []
    ensures = [
        "implies(matches(strip(cstr(charge)), DIGIT_SIGN), result == signed_text(strip(cstr(charge))))",
        "implies(matches(strip(cstr(charge)), SIGN_DIGIT), result == signed_text_sign_first(strip(cstr(charge))))",
        "implies(not matches(strip(cstr(charge)), DIGIT_SIGN) and not matches(strip(cstr(charge)), SIGN_DIGIT), result == strip(cstr(charge)))",
    ]
    ensures_labels = {0: "digit-sign-becomes-the-signed-integer-text", 1: "sign-digit-becomes-the-signed-integer-text", 2: "every-other-text-unchanged"}


# ------------------------------------------------------------------------------------------------ write_cif: the rows
PDB_ITEMS = ["group_PDB", "id", "type_symbol", "label_atom_id", "label_alt_id", "label_comp_id", "label_asym_id", "label_entity_id",
             "label_seq_id", "pdbx_PDB_ins_code", "Cartn_x", "Cartn_y", "Cartn_z", "occupancy", "B_iso_or_equiv", "pdbx_formal_charge",
             "auth_seq_id", "auth_comp_id", "auth_asym_id", "auth_atom_id", "pdbx_PDB_model_num"]


@spec
def trow(df, i):
    """row i of the table (spec `row` of parser_v2_write_c under a name that no local of write_cif shadows)"""
    return row(df, i)


@spec
def null_marker(s):
    """one of the two mmCIF markers for "no value" """
    return s == "?" or s == "."


@spec
def text_or_null(c, s):
    """s is what is written for the optional text cell c: a null marker when the value is missing, else the cell as text"""
    return ite(isna(c), null_marker(s), s == cstr(c))


@spec
def charge_item(c, s):
    """s is what is written for the charge cell c: a null marker when missing; for a PDB charge text (digit, sign) the signed
    integer text of the same value ('2+' -> '2', '1-' -> '-1')"""
    return ite(isna(c), null_marker(s),
               implies(matches(strip(cstr(c)), DIGIT_SIGN), s == signed_text(strip(cstr(c)))))


@spec
def items_record_entity(r, R):
    """group_PDB = record name; label_entity_id = some text (generated, not a table field)"""
    return len(R) == 21 and R[0] == cstr(cell(r, "record_type")) and not null_marker(R[7])


@spec
def items_names(r, R):
    """atom name, residue name and chain fill the label_* and the auth_* item alike"""
    return (R[3] == cstr(cell(r, "name")) and R[19] == cstr(cell(r, "name")) and R[5] == cstr(cell(r, "resName")) and R[17] == cstr(cell(r, "resName"))
            and R[6] == cstr(cell(r, "chainID")) and R[18] == cstr(cell(r, "chainID")))


@spec
def items_integers(r, R):
    """id = serial, label_seq_id = auth_seq_id = residue number, pdbx_PDB_model_num = model, as decimal texts"""
    return (R[1] == str(cint(cell(r, "serial"))) and R[8] == str(cint(cell(r, "resSeq"))) and R[16] == str(cint(cell(r, "resSeq")))
            and R[20] == str(cint(cell(r, "model"))))


@spec
def items_optional_texts(r, R):
    """type_symbol = element, label_alt_id = altLoc, pdbx_PDB_ins_code = iCode; a null marker when missing"""
    return text_or_null(cell(r, "element"), R[2]) and text_or_null(cell(r, "altLoc"), R[4]) and text_or_null(cell(r, "iCode"), R[9])


@spec
def items_reals(r, R):
    """Cartn_x/y/z with three decimals, occupancy and B_iso_or_equiv with two"""
    return (R[10] == fmt3(cfloat(cell(r, "x"))) and R[11] == fmt3(cfloat(cell(r, "y"))) and R[12] == fmt3(cfloat(cell(r, "z")))
            and R[13] == fmt2(cfloat(cell(r, "occupancy"))) and R[14] == fmt2(cfloat(cell(r, "tempFactor"))))


@spec
def items_of_pdb_row(r, R):
    """R is the atom_site row written for row r of a table in the PDB column naming: item by item (order PDB_ITEMS) the fields
    of r"""
    return (items_record_entity(r, R) and items_names(r, R) and items_integers(r, R) and items_optional_texts(r, R) and items_reals(r, R)
            and charge_item(cell(r, "charge"), R[15]))


@spec
def items_of_cif_row(df, r, R):
    """R is the atom_site row written for row r of a table in the mmCIF naming: one item per column, in column order; a null
    marker for a missing value, else the cell as text"""
    return (len(R) == len(df.columns)
            and forall(lambda k: implies(0 <= k and k < len(df.columns), text_or_null(cell(r, df.columns[k]), R[k]))))


@spec
def numbers_readable(r):
    """the numeric cells of a PDB-format row hold numbers (int() / float() accept them)"""
    return (cint_ok(cell(r, "serial")) and cint_ok(cell(r, "resSeq")) and cint_ok(cell(r, "model")) and cfloat_ok(cell(r, "x"))
            and cfloat_ok(cell(r, "y")) and cfloat_ok(cell(r, "z")) and cfloat_ok(cell(r, "occupancy")) and cfloat_ok(cell(r, "tempFactor")))


@spec
def is_pdb_items(A):
    return (len(A) == 21 and A[0] == "group_PDB" and A[1] == "id" and A[2] == "type_symbol" and A[3] == "label_atom_id"
            and A[4] == "label_alt_id" and A[5] == "label_comp_id" and A[6] == "label_asym_id" and A[7] == "label_entity_id"
            and A[8] == "label_seq_id" and A[9] == "pdbx_PDB_ins_code" and A[10] == "Cartn_x" and A[11] == "Cartn_y"
            and A[12] == "Cartn_z" and A[13] == "occupancy" and A[14] == "B_iso_or_equiv" and A[15] == "pdbx_formal_charge"
            and A[16] == "auth_seq_id" and A[17] == "auth_comp_id" and A[18] == "auth_asym_id" and A[19] == "auth_atom_id"
            and A[20] == "pdbx_PDB_model_num")


class write_cif_rows_c:
    """PREFIX contract: write_cif up to (not including) `atom_site_category = DataCategory("atom_site", attributes, rows)`.
    A table whose format tag is 'mmCIF' is written column by column; every other table is taken to be in the PDB naming."""
    params = {"df": "rec[Frame]"}
    defaults = {"output": None}
    requires = [
        # the abstraction: every name in df.columns is a column of the table
        "len(df.columns) >= 0 and forall(lambda k: implies(0 <= k and k < len(df.columns), has(df, df.columns[k])))",
        "implies(not is_cif(df), pdb_columns(df))",
        "forall(lambda i: implies(0 <= i and i < nrows(df.id) and not is_cif(df), numbers_readable(trow(df, i))))",
        # pyvc models str.isdigit() (used by _pdb_charge_to_int_str) for ASCII text only
        "forall(lambda i: implies(0 <= i and i < nrows(df.id) and not is_cif(df), matches(strip(cstr(cell(trow(df, i), 'charge'))), ASCII)))",
    ]
    raises = []
    modifies = []
    ensures = []
    stop_before = "atom_site_category = DataCategory("
    stop_ensures = [
        "ite(is_cif(df), len(attributes) == len(df.columns) and forall(lambda k: implies(0 <= k and k < len(df.columns), attributes[k] == df.columns[k])), is_pdb_items(attributes))",
        "len(rows) == nrows(df.id)",
        "forall(lambda i: implies(0 <= i and i < nrows(df.id) and not is_cif(df), items_of_pdb_row(trow(df, i), rows[i])))",
        "forall(lambda i: implies(0 <= i and i < nrows(df.id) and is_cif(df), items_of_cif_row(df, trow(df, i), rows[i])))",
    ]
    stop_ensures_labels = {0: "item-names-are-the-mmCIF-columns-or-the-21-items-for-a-PDB-table", 1: "one-atom_site-row-per-table-row",
                           2: "PDB-table-row-i-item-by-item", 3: "mmCIF-table-row-i-column-by-column"}
    locals = {"rows": "list[list[str]]", "row_data": "list[str]"}
    loops = {
        0: {"index": "n", "inv": [
            "n >= 0 and len(rows) == n",
            "ite(is_cif(df), len(attributes) == len(df.columns) and forall(lambda k: implies(0 <= k and k < len(df.columns), attributes[k] == df.columns[k])), is_pdb_items(attributes))",
            "forall(lambda i: implies(0 <= i and i < n and not is_cif(df), items_of_pdb_row(trow(df, i), rows[i])))",
            "forall(lambda i: implies(0 <= i and i < n and is_cif(df), items_of_cif_row(df, trow(df, i), rows[i])))",
        ], "labels": {0: "one-atom_site-row-per-table-row-so-far", 1: "item-names-are-the-mmCIF-columns-or-the-21-items-for-a-PDB-table",
                      2: "PDB-table-row-i-item-by-item", 3: "mmCIF-table-row-i-column-by-column"}},
        1: {"index": "m", "inv": [
            "m >= 0 and len(row_data) == m and is_cif(df)",
            "forall(lambda k: implies(0 <= k and k < m, text_or_null(cell(trow(df, n), df.columns[k]), row_data[k])))",
        ], "labels": {0: "one-item-per-column-so-far", 1: "item-k-is-column-k-of-this-row-null-marker-when-missing"}},
    }
    ghost = [
        {"when": "before", "at": "rows.append(row_data)", "loop": 0, "label": "remember", "do": ["let R0 = rows"]},
        {"when": "before", "at": "rows.append(row_data)", "loop": 0, "label": "PDB-table-row.group_PDB-is-the-record-name-21-items",
         "do": ["assert implies(not is_cif(df), items_record_entity(trow(df, n), row_data))"]},
        {"when": "before", "at": "rows.append(row_data)", "loop": 0, "label": "PDB-table-row.atom-name-residue-name-chain-in-label-and-auth-items",
         "do": ["assert implies(not is_cif(df), items_names(trow(df, n), row_data))"]},
        {"when": "before", "at": "rows.append(row_data)", "loop": 0, "label": "PDB-table-row.serial-residue-number-model-as-decimal-texts",
         "do": ["assert implies(not is_cif(df), items_integers(trow(df, n), row_data))"]},
        {"when": "before", "at": "rows.append(row_data)", "loop": 0, "label": "PDB-table-row.element-altLoc-iCode-or-a-null-marker",
         "do": ["assert implies(not is_cif(df), items_optional_texts(trow(df, n), row_data))"]},
        {"when": "before", "at": "rows.append(row_data)", "loop": 0, "label": "PDB-table-row.coordinates-3-decimals-occupancy-B-2-decimals",
         "do": ["assert implies(not is_cif(df), items_reals(trow(df, n), row_data))"]},
        {"when": "before", "at": "rows.append(row_data)", "loop": 0, "label": "PDB-table-row.charge-as-signed-integer-text-or-a-null-marker",
         "do": ["assert implies(not is_cif(df), charge_item(cell(trow(df, n), 'charge'), row_data[15]))"]},
        {"when": "before", "at": "rows.append(row_data)", "loop": 0, "label": "mmCIF-table-row.one-item-per-column-value-or-null-marker",
         "do": ["assert implies(is_cif(df), items_of_cif_row(df, trow(df, n), row_data))"]},
        # the step of the two row invariants is proved from three facts only (earlier rows, this row, what append does)
        {"when": "before", "at": "rows.append(row_data)", "loop": 0, "label": "earlier-rows-item-by-item",
         "do": ["assert forall(lambda i: implies(0 <= i and i < n and not is_cif(df), items_of_pdb_row(trow(df, i), R0[i]))) "
                "and forall(lambda i: implies(0 <= i and i < n and is_cif(df), items_of_cif_row(df, trow(df, i), R0[i])))"]},
        {"when": "before", "at": "rows.append(row_data)", "loop": 0, "label": "this-row-item-by-item",
         "do": ["assert implies(not is_cif(df), items_of_pdb_row(trow(df, n), row_data)) and implies(is_cif(df), items_of_cif_row(df, trow(df, n), row_data))"]},
        {"when": "after", "at": "rows.append(row_data)", "loop": 0, "label": "earlier-rows-kept",
         "do": ["assert len(rows) == n + 1 and rows[n] == row_data and forall(lambda i: implies(0 <= i and i < n, rows[i] == R0[i]))"]},
        {"when": "after", "at": "rows.append(row_data)", "loop": 0, "label": "PDB-table-row-i-item-by-item",
         "do": ["assert_last 3 forall(lambda i: implies(0 <= i and i < n + 1 and not is_cif(df), items_of_pdb_row(trow(df, i), rows[i])))"]},
        {"when": "after", "at": "rows.append(row_data)", "loop": 0, "label": "mmCIF-table-row-i-column-by-column",
         "do": ["assert_last 4 forall(lambda i: implies(0 <= i and i < n + 1 and is_cif(df), items_of_cif_row(df, trow(df, i), rows[i])))"]},
    ]


# ------------------------------------------------------------------------------------------------ parse_cif_atoms: per-row decode
# The mmCIF document is named by GHOST PARAMETERS (as in contracts/parser_cif_c.py): NB = number of data blocks the reader
# returns, HAS = the first block has a category atom_site, ATTRS = its item names in file order, ROWS = its rows in file order.
CLASSES["Adapter"] = {"kind": "object", "fields": {"tag": "int"}}
CLASSES["TempFile"] = {"kind": "object", "fields": {"name": "str", "text": "str"}}
# an open text file handed in by the caller (`with open(path) as f: parse_cif_atoms(f)`): not a str, not an io.StringIO; it has
# the attribute `name` (its path) - the only thing the function uses of it
CLASSES["NamedFile"] = {"kind": "object", "fields": {"name": "str"}, "isinstance": {"str": False, "_io.StringIO": False}}
# an io.StringIO handed in by the caller: its whole text is read after seek(0)
CLASSES["StringIn"] = {"kind": "object", "fields": {"text": "str"}, "isinstance": {"str": False, "_io.StringIO": True}}
CLASSES["CifBlock"] = {"kind": "record", "fields": {"idx": "int"}}          # the idx-th data block of the document read
CLASSES["Category"] = {"kind": "record", "fields": {"doc": "int"}}         # doc == 0: atom_site of the first block; else: some other category
_DOC = {}


def _doc(e, st=None):
    need = ("NB", "HAS", "ATTRS", "ROWS")
    if st is not None:
        if any(n_ not in st.env for n_ in need):
            raise Unsupported("the contract under verification does not declare the ghost document (NB, HAS, ATTRS, ROWS)")
        _DOC[id(e)] = tuple(st.env[n_] for n_ in need)
    return _DOC[id(e)]


def _ext_adapter(e, args, kw, node, st):
    """mmcif IoAdapterPy(): a new adapter object"""
    if args or kw:
        raise Unsupported("IoAdapterPy(...) with arguments")
    return e.construct("Adapter", [], {"tag": 0}, node, st)


def _ext_tempfile(e, args, kw, node, st):
    """tempfile.NamedTemporaryFile(mode='w+', suffix=.., delete=..): a new, empty temporary text file with some name"""
    if args or set(kw) - {"mode", "suffix", "delete"} or kw.get("mode") != "w+":
        raise Unsupported("NamedTemporaryFile: only (mode='w+', suffix=.., delete=..)")
    name = _z3.String(uid("tmpname"))
    return e.construct("TempFile", [], {"name": name, "text": ""}, node, st)


def _ext_tmp_enter(e, args, kw, node, st):
    """with-protocol of the temporary file: __enter__ returns the file object"""
    return args[0]


def _ext_tmp_exit(e, args, kw, node, st):
    """... and __exit__ closes it and does not swallow exceptions (returns False)"""
    return False


def _ext_tmp_write(e, args, kw, node, st):
    """temp_file.write(s): s is appended to the file's text"""
    f_, s = args
    e.heap_write(st, f_, "text", e.concat_str([e.heap_read(st, f_, "text"), s]))
    return _z3.Length(to_z3(s))


_ext_tmp_write.writes = ["TempFile.text"]


def _ext_readFile(e, args, kw, node, st):
    """ASSUMED (the one statement about the mmcif reader): adapter.readFile(path) returns the list of the data blocks of the
    document named by the contract's ghost parameters: NB blocks; the first one has a category atom_site iff HAS, with item
    names ATTRS and rows ROWS.  Nothing is said about other categories / blocks, nor about how the text becomes the document."""
    if len(args) != 2 or kw:
        raise Unsupported("readFile(path) only")
    nb = _doc(e, st)[0]
    q = _z3.Int(uid("q"))
    return VList(to_z3(nb), VRec("CifBlock", {"idx": _z3.Lambda([q], q)}), ("rec", "CifBlock"))


def _ext_remove(e, args, kw, node, st):
    """os.remove(path): deletes the file; no effect on anything the function reads afterwards (an OSError is not modelled)"""
    return None


def _ext_getObj(e, args, kw, node, st):
    """block.getObj(name): the category of that name, None when the block has none - for the first block and 'atom_site'
    the ghost document's (None iff not HAS); every other block / name: an unknown optional category"""
    blk, name = args
    nb, has, attrs, rows = _doc(e)
    hit = AND(to_z3(blk.fields["idx"]) == 0, _zkey(name) == _z3.StringVal("atom_site"))
    other_missing = e.ufun("cif_other_missing", _I, _S, _B)(to_z3(blk.fields["idx"]), _zkey(name))
    return VOpt(_z3.If(hit, NOT(to_z3(has)), other_missing), VRec("Category", {"doc": _z3.If(hit, _z3.IntVal(0), _z3.IntVal(1))}))


def _unknown_list(e, shape, nm):
    from pyvc.values import fresh
    return fresh(shape, uid(nm))


def _ext_getAttributeList(e, args, kw, node, st):
    """category.getAttributeList(): the item names in file order (ATTRS for the ghost document's atom_site)"""
    L = _unknown_list(e, ("list", ("str",)), "other_attrs")
    if st is not None:
        st.assume(to_z3(L.length) >= 0)
    return e.merge(to_z3(args[0].fields["doc"]) == 0, _doc(e)[2], L)


def _ext_getRowList(e, args, kw, node, st):
    """category.getRowList(): the rows in file order, each the list of its cell texts (ROWS for the ghost document's atom_site)"""
    L = _unknown_list(e, ("list", ("list", ("str",))), "other_rows")
    if st is not None:
        st.assume(to_z3(L.length) >= 0)
    return e.merge(to_z3(args[0].fields["doc"]) == 0, _doc(e)[3], L)


def _ext_cat_len(e, args, kw, node, st):
    """len(category) (mmcif DataCategory.__len__, which also decides its truth value): the number of rows"""
    other = e.ufun("cif_other_len", _I, _I)(to_z3(args[0].fields["doc"]))
    return _z3.If(to_z3(args[0].fields["doc"]) == 0, to_z3(_doc(e)[3].length), _z3.If(other >= 0, other, 0 - other))


def _ext_dataframe(e, args, kw, node, st):
    """pd.DataFrame() without arguments: some table (returned for a missing / empty atom_site; nothing is claimed about it)"""
    if args or kw:
        raise Unsupported("pd.DataFrame(...) with arguments")
    return VRec("Frame", {"id": _z3.Int(uid("emptyframe")), "empty": True, "attrs": VRec("Attrs", {"format": _z3.String(uid("fmt"))}),
                          "columns": VList(0, None, ("str",))})


def _ext_sio_seek(e, args, kw, node, st):
    """stringio.seek(0): the read position goes back to the start (only seek(0) is modelled)"""
    if len(args) != 2 or kw or args[1] != 0:
        raise Unsupported("StringIO.seek: only seek(0)")
    return 0


def _ext_sio_read(e, args, kw, node, st):
    """stringio.read() right after seek(0): the whole text"""
    if len(args) != 1 or kw:
        raise Unsupported("StringIO.read(n)")
    return e.heap_read(st, args[0], "text")


def _ext_hasattr(e, args, kw, node, st):
    """hasattr(obj, name) for an object of a class modelled by this sidecar and a constant name: True for a declared field"""
    if len(args) != 2 or kw or not isinstance(args[0], VRef) or not isinstance(args[1], str):
        raise Unsupported("hasattr: only (object of a sidecar class, constant name)")
    if args[1] in e.classes[args[0].cls]["fields"]:
        return True
    raise Unsupported(f"hasattr({args[0].cls} object, {args[1]!r}): not a declared field")


for _f in (_ext_sio_seek, _ext_sio_read, _ext_hasattr, _ext_tmp_enter, _ext_tmp_exit, _ext_readFile, _ext_remove, _ext_getObj, _ext_getAttributeList, _ext_getRowList, _ext_cat_len, _ext_dataframe):
    _f.pure = True

EXTERNALS.update({
    "mmcif.io.IoAdapterPy.IoAdapterPy": _ext_adapter, "tempfile.NamedTemporaryFile": _ext_tempfile,
    "TempFile.__enter__": _ext_tmp_enter, "TempFile.__exit__": _ext_tmp_exit, "TempFile.write": _ext_tmp_write,
    "Adapter.readFile": _ext_readFile, "posix.remove": _ext_remove, "CifBlock.getObj": _ext_getObj,
    "Category.getAttributeList": _ext_getAttributeList, "Category.getRowList": _ext_getRowList, "Category.__len__": _ext_cat_len,
    "pandas.core.frame.DataFrame": _ext_dataframe, "builtins.hasattr": _ext_hasattr,
    "StringIn.seek": _ext_sio_seek, "StringIn.read": _ext_sio_read,
})


@spec
def none_if_null(s):
    """an mmCIF cell text as a table value: None for the null markers '?' and '.', else the text"""
    return ite(s == "?" or s == ".", None, s)


@spec
def distinct_names(A):
    return forall(lambda k1, k2: implies(0 <= k1 and k1 < k2 and k2 < len(A), A[k1] != A[k2]))


class parse_cif_atoms_decode_c:
    """PREFIX contract: parse_cif_atoms(content: str) up to (not including) `df = pd.DataFrame(records)`.  The cut is reached
    exactly when the document has a data block whose atom_site category exists and has at least one row; `records` then holds
    one dict per atom_site row, in file order, whose entry for item name ATTRS[k] is cell k of that row (None for a null
    marker) and which has no other keys."""
    params = {"content": "str"}
    ghost_params = {"NB": "int", "HAS": "bool", "ATTRS": "list[str]", "ROWS": "list[list[str]]"}
    requires = ["NB >= 0 and len(ATTRS) >= 0 and len(ROWS) >= 0 and forall(lambda j: implies(0 <= j and j < len(ROWS), len(ROWS[j]) >= 0))",
                # item names of one category are pairwise different (a CIF loop_ cannot name an item twice)
                "distinct_names(ATTRS)"]
    raises = {"IndexError": "NB == 0"}
    raises_exact = ["IndexError"]
    modifies = ["TempFile.text", "TempFile.name", "Adapter.tag"]
    ensures = []
    stop_before = "df = pd.DataFrame(records)"
    stop_ensures = [
        "HAS and len(ROWS) > 0",
        "len(attributes) == len(ATTRS) and forall(lambda k: implies(0 <= k and k < len(ATTRS), attributes[k] == ATTRS[k]))",
        "len(records) == len(ROWS)",
        "forall(lambda j, k: implies(0 <= j and j < len(ROWS) and 0 <= k and k < len(ATTRS) and k < len(ROWS[j]), "
        "ATTRS[k] in records[j] and records[j][ATTRS[k]] == none_if_null(ROWS[j][k])))",
        "forall(lambda j, key: implies(0 <= j and j < len(ROWS) and key in records[j], "
        "exists(lambda k: 0 <= k and k < len(ATTRS) and k < len(ROWS[j]) and ATTRS[k] == key)), sorts={'key': 'str'})",
    ]
    stop_ensures_labels = {0: "reached-only-with-a-non-empty-atom_site", 1: "item-names-are-the-category's",
                           2: "one-record-per-atom_site-row", 3: "entry-of-item-k-is-cell-k-null-markers-None",
                           4: "no-other-keys"}
    locals = {"records": "list[dict[str,opt[str]]]", "record": "dict[str,opt[str]]"}
    loops = {
        0: {"index": "n", "inv": [
            "n >= 0 and len(records) == n",
            "forall(lambda j, k: implies(0 <= j and j < n and 0 <= k and k < len(ATTRS) and k < len(ROWS[j]), "
            "ATTRS[k] in records[j] and records[j][ATTRS[k]] == none_if_null(ROWS[j][k])))",
            "forall(lambda j, key: implies(0 <= j and j < n and key in records[j], "
            "exists(lambda k: 0 <= k and k < len(ATTRS) and k < len(ROWS[j]) and ATTRS[k] == key)), sorts={'key': 'str'})",
        ], "labels": {0: "one-record-per-atom_site-row-so-far", 1: "entry-of-item-k-is-cell-k-null-markers-None", 2: "no-other-keys"}},
        1: {"index": "m", "inv": [
            "m >= 0",
            "forall(lambda k: implies(0 <= k and k < m, ATTRS[k] in record and record[ATTRS[k]] == none_if_null(ROWS[n][k])))",
            "forall(lambda key: implies(key in record, exists(lambda k: 0 <= k and k < m and ATTRS[k] == key)), sorts={'key': 'str'})",
        ], "labels": {0: "bookkeeping", 1: "entry-of-item-k-is-cell-k-null-markers-None", 2: "no-other-keys"}},
    }
    ghost = []


class parse_cif_atoms_decode_file_c(parse_cif_atoms_decode_c):
    """the same PREFIX contract for content given as an open text file with a name (third branch: the form in which
    splitter / aligner / unifier call the function): the reader is handed content.name; no temporary file is involved"""
    params = {"content": "NamedFile"}


class parse_cif_atoms_decode_stringio_c(parse_cif_atoms_decode_c):
    """the same PREFIX contract for content given as an io.StringIO (second branch: its text goes through a temporary file)"""
    params = {"content": "StringIn"}


# ------------------------------------------------------------------------------------------------ PDB table -> mmCIF items -> decode
LEMMAS["fmt3_roundtrip"] = {
    # ASSUMED (CPython float formatting and parsing): the 3-decimal text of a value within the PDB coordinate range is a float
    # literal within half a unit of the last place of the value (and, being a number text, not a null marker)
    "kind": "assumed-external", "params": ["x"], "shapes": ["real"], "requires": ["fits83(x)"],
    "ensures": ["float_ok(fmt3(x))", "abs(float(fmt3(x)) - x) <= 0.0005", "not null_marker(fmt3(x))"]}
LEMMAS["fmt2_roundtrip"] = {
    "kind": "assumed-external", "params": ["x"], "shapes": ["real"], "requires": ["fits62(x)"],
    "ensures": ["float_ok(fmt2(x))", "abs(float(fmt2(x)) - x) <= 0.005", "not null_marker(fmt2(x))"]}


@spec
def present_text_ok(c):
    """an optional text cell that holds a value holds a non-empty text other than the null markers"""
    return implies(not isna(c), cstr(c) != "" and not null_marker(cstr(c)))


@spec
def texts_survive_cif(r):
    """the text cells of the PDB-format row r can be told from the mmCIF null markers"""
    return (not null_marker(cstr(cell(r, "name"))) and not null_marker(cstr(cell(r, "resName"))) and not null_marker(cstr(cell(r, "chainID")))
            and present_text_ok(cell(r, "altLoc")) and present_text_ok(cell(r, "iCode")) and present_text_ok(cell(r, "element"))
            and present_text_ok(cell(r, "charge")))


@spec
def decoded_items(A, R, D):
    """D is the record parse_cif_atoms@decode builds for the atom_site row R under the item names A (its clauses
    entry-of-item-k-is-cell-k-null-markers-None for one row whose length is the number of item names)"""
    return forall(lambda k: implies(0 <= k and k < len(A) and k < len(R), A[k] in D and D[A[k]] == none_if_null(R[k])))


LEMMAS["pdb_row_through_cif"] = {
    # cross path PDB -> mmCIF of the property, one row: r = a row of a PDB-format table within PDB limits, a = atom_pdb(r) the
    # atom it stands for (spec of parser_v2_write_c), R = the atom_site row write_cif builds for it (stop-postcondition of
    # write_cif@rows), A = the 21 item names, D = the record parse_cif_atoms builds from (A, R) (stop-postcondition of
    # parse_cif_atoms@decode).  Then D holds a's fields under the mmCIF item names; numbers through int() / float() of the text
    # (what pandas.to_numeric is taken to compute), the charge as the signed integer the PDB text stands for.
    # Between R and D lies the mmcif library (writer, then reader): TRUSTED to hand the item names and cell texts through.
    "kind": "smt", "params": ["r", "A", "R", "D"], "shapes": ["rec[Row]", "list[str]", "list[str]", "dict[str,opt[str]]"],
    "requires": ["fits_pdb(atom_pdb(r))", "texts_survive_cif(r)", "is_pdb_items(A)", "items_of_pdb_row(r, R)", "decoded_items(A, R, D)"],
    "ensures": [
        "D['group_PDB'] == atom_pdb(r).record_name",
        "D['id'] == str(atom_pdb(r).serial) and int(str(atom_pdb(r).serial)) == atom_pdb(r).serial",
        "D['label_atom_id'] == atom_pdb(r).name and D['auth_atom_id'] == atom_pdb(r).name",
        "D['label_alt_id'] == none_if_blank(atom_pdb(r).altLoc)",
        "D['label_comp_id'] == atom_pdb(r).resName and D['auth_comp_id'] == atom_pdb(r).resName",
        "D['label_asym_id'] == atom_pdb(r).chainID and D['auth_asym_id'] == atom_pdb(r).chainID",
        "D['label_seq_id'] == str(atom_pdb(r).resSeq) and D['auth_seq_id'] == str(atom_pdb(r).resSeq) and int(str(atom_pdb(r).resSeq)) == atom_pdb(r).resSeq",
        "D['pdbx_PDB_ins_code'] == none_if_blank(atom_pdb(r).iCode)",
        "D['Cartn_x'] == fmt3(atom_pdb(r).x) and D['Cartn_y'] == fmt3(atom_pdb(r).y) and D['Cartn_z'] == fmt3(atom_pdb(r).z)",
        "float_ok(fmt3(atom_pdb(r).x)) and float_ok(fmt3(atom_pdb(r).y)) and float_ok(fmt3(atom_pdb(r).z)) "
        "and abs(float(fmt3(atom_pdb(r).x)) - atom_pdb(r).x) <= 0.0005 and abs(float(fmt3(atom_pdb(r).y)) - atom_pdb(r).y) <= 0.0005 "
        "and abs(float(fmt3(atom_pdb(r).z)) - atom_pdb(r).z) <= 0.0005",
        "D['occupancy'] == fmt2(atom_pdb(r).occupancy) and D['B_iso_or_equiv'] == fmt2(atom_pdb(r).tempFactor)",
        "float_ok(fmt2(atom_pdb(r).occupancy)) and float_ok(fmt2(atom_pdb(r).tempFactor)) "
        "and abs(float(fmt2(atom_pdb(r).occupancy)) - atom_pdb(r).occupancy) <= 0.005 and abs(float(fmt2(atom_pdb(r).tempFactor)) - atom_pdb(r).tempFactor) <= 0.005",
        "D['type_symbol'] == none_if_blank(atom_pdb(r).element)",
        "implies(atom_pdb(r).charge == '', D['pdbx_formal_charge'] is None)",
        "implies(atom_pdb(r).charge != '', D['pdbx_formal_charge'] == signed_text(atom_pdb(r).charge) and matches(signed_text(atom_pdb(r).charge), SIGNED_DIGIT))",
        "implies(atom_pdb(r).charge != '' and atom_pdb(r).charge[1:2] == '-', int(signed_text(atom_pdb(r).charge)) == 0 - int(atom_pdb(r).charge[0:1]))",
        "implies(atom_pdb(r).charge != '' and atom_pdb(r).charge[1:2] != '-', int(signed_text(atom_pdb(r).charge)) == int(atom_pdb(r).charge[0:1]))",
        "D['pdbx_PDB_model_num'] == str(atom_pdb(r).model)",
    ],
    "steps": ["use int_of_str(atom_pdb(r).serial)", "use int_of_str(atom_pdb(r).resSeq)",
              "use fmt3_roundtrip(atom_pdb(r).x)", "use fmt3_roundtrip(atom_pdb(r).y)", "use fmt3_roundtrip(atom_pdb(r).z)",
              "use fmt2_roundtrip(atom_pdb(r).occupancy)", "use fmt2_roundtrip(atom_pdb(r).tempFactor)",
              "use strip_digit_sign(atom_pdb(r).charge) when atom_pdb(r).charge != ''",
              "use signed_text_value(atom_pdb(r).charge) when atom_pdb(r).charge != ''",
              ] + [f"assert '{n_}' in D and D['{n_}'] == none_if_null(R[{k_}])" for k_, n_ in enumerate(PDB_ITEMS)]}


# ---- the table parse_cif_atoms builds from the records (pandas, TRUSTED) as write_pdb reads it
@spec
def text_cell_holds(df2, r2, D, K):
    """ASSUMED effect of pd.DataFrame(records) + astype('category') on a text item K: the column exists; the cell is missing
    exactly when the record holds None, else its text is the record's"""
    return has(df2, K) and isna(cell(r2, K)) == (D[K] is None) and implies(not (D[K] is None), cstr(cell(r2, K)) == D[K])


@spec
def int_cell_holds(df2, r2, D, K):
    """... + pd.to_numeric(..).astype('Int64') on an integer item K whose text (if any) is an integer literal: missing exactly
    when None, else int() of the cell is int() of the text and str() of the cell is the decimal text of that integer"""
    return (has(df2, K) and isna(cell(r2, K)) == (D[K] is None)
            and implies(not (D[K] is None), cint_ok(cell(r2, K)) and cint(cell(r2, K)) == int(some(D[K])) and cstr(cell(r2, K)) == str(int(some(D[K])))))


@spec
def float_cell_holds(df2, r2, D, K):
    """... + pd.to_numeric on a float item K whose text is a float literal: float() of the cell is float() of the text"""
    return has(df2, K) and implies(not (D[K] is None) and float_ok(some(D[K])), cfloat_ok(cell(r2, K)) and cfloat(cell(r2, K)) == float(some(D[K])))


@spec
def int_of_text_cell(c):
    """int(x) for a cell x holding a str: int() of that text (raises unless the text is an integer literal)"""
    return implies(int_ok(cstr(c)), cint_ok(c) and cint(c) == int(cstr(c)))


@spec
def frame_holds_record(df2, r2, D):
    """row r2 of the mmCIF-format table df2 is what parse_cif_atoms's pandas tail (DataFrame construction, dtype conversion:
    TRUSTED, not verified) makes of the record D - for the 21 items write_cif writes for a PDB-format table"""
    return (text_cell_holds(df2, r2, D, "group_PDB") and is_str(cell(r2, "group_PDB")) and text_cell_holds(df2, r2, D, "id")
            and text_cell_holds(df2, r2, D, "type_symbol") and text_cell_holds(df2, r2, D, "label_atom_id")
            and text_cell_holds(df2, r2, D, "label_alt_id") and text_cell_holds(df2, r2, D, "label_comp_id")
            and text_cell_holds(df2, r2, D, "label_asym_id") and text_cell_holds(df2, r2, D, "pdbx_PDB_ins_code")
            and text_cell_holds(df2, r2, D, "auth_seq_id") and text_cell_holds(df2, r2, D, "auth_comp_id")
            and text_cell_holds(df2, r2, D, "auth_asym_id") and text_cell_holds(df2, r2, D, "auth_atom_id")
            and int_cell_holds(df2, r2, D, "label_seq_id") and int_cell_holds(df2, r2, D, "pdbx_formal_charge")
            and int_cell_holds(df2, r2, D, "pdbx_PDB_model_num")
            and float_cell_holds(df2, r2, D, "Cartn_x") and float_cell_holds(df2, r2, D, "Cartn_y") and float_cell_holds(df2, r2, D, "Cartn_z")
            and float_cell_holds(df2, r2, D, "occupancy") and float_cell_holds(df2, r2, D, "B_iso_or_equiv")
            and int_of_text_cell(cell(r2, "id")) and int_of_text_cell(cell(r2, "auth_seq_id")))


LEMMAS["signed_digit_canonical"] = {
    # the decimal text of an integer in -9..9 is an optionally negated digit that spells it
    "kind": "smt", "params": ["v"], "shapes": ["int"], "requires": ["0 - 9 <= v and v <= 9"],
    "ensures": ["matches(str(v), SIGNED_DIGIT)", "int(str(v)) == v"],
    "steps": ["assert implies(v >= 0, len(str(v)) == 1)", "assert implies(v < 0, str(v) == '-' + str(0 - v) and len(str(0 - v)) == 1)", "use int_of_str(v)"]}

LEMMAS["int_ok_of_str"] = {
    # the decimal text of an integer is an integer literal
    "kind": "smt", "params": ["n"], "shapes": ["int"], "requires": ["0 - 99999 <= n and n <= 99999"], "ensures": ["int_ok(str(n))"],
    "steps": ["assert implies(n >= 0, matches(str(n), '[0-9]+'))",
              "assert implies(n < 0, str(n) == '-' + str(0 - n) and matches(str(0 - n), '[0-9]+'))",
              "assert implies(n < 0, matches(str(n), '-[0-9]+'))"]}

LEMMAS["charge_text_back"] = {
    # a PDB charge text t (digit, sign) written as signed_text(t), read as an integer and printed again (what the Int64 column
    # of the mmCIF-format table gives write_pdb): an optionally negated digit spelling the integer t stands for
    "kind": "smt", "params": ["t"], "shapes": ["str"], "requires": ["matches(t, DIGIT_SIGN)"],
    "ensures": ["matches(str(int(signed_text(t))), SIGNED_DIGIT)",
                "implies(t[1:2] == '-', int(str(int(signed_text(t)))) == 0 - int(t[0:1])) and implies(t[1:2] != '-', int(str(int(signed_text(t)))) == int(t[0:1]))"],
    "steps": ["use signed_text_value(t)", "use signed_digit_value(signed_text(t))", "use signed_digit_canonical(int(signed_text(t)))"]}

LEMMAS["pdb_atom_back_from_cif"] = {
    # cross path PDB -> mmCIF -> (table) of the property at the level of the atom write_pdb will lay out: a = atom_pdb(r) the atom
    # of row r of the PDB-format table, b = atom_cif(df2, r2) the atom write_pdb reads from row r2 of the mmCIF-format table that
    # parse_cif_atoms built from the record D of r's atom_site row.  b has a's record name, serial, atom name, altLoc, residue
    # name, chain, residue number, insertion code, element and model; coordinates within 0.0005, occupancy / B within 0.005; the
    # charge as the signed-integer text of a's PDB charge (the form _format_pdb_atom_line@signed_charge lays out as digit, sign);
    # and row r2 is readable by write_pdb (its precondition `readable`).
    "kind": "smt", "params": ["r", "A", "R", "D", "df2", "r2"],
    "shapes": ["rec[Row]", "list[str]", "list[str]", "dict[str,opt[str]]", "rec[Frame]", "rec[Row]"],
    "requires": ["fits_pdb(atom_pdb(r))", "0 <= atom_pdb(r).model and atom_pdb(r).model <= 9999", "texts_survive_cif(r)", "is_pdb_items(A)",
                 "items_of_pdb_row(r, R)", "decoded_items(A, R, D)", "r2.df == df2.id", "frame_holds_record(df2, r2, D)"],
    "ensures": [
        "atom_cif(df2, r2).record_name == atom_pdb(r).record_name and atom_cif(df2, r2).serial == atom_pdb(r).serial",
        "atom_cif(df2, r2).name == atom_pdb(r).name and atom_cif(df2, r2).altLoc == atom_pdb(r).altLoc and atom_cif(df2, r2).resName == atom_pdb(r).resName",
        "atom_cif(df2, r2).chainID == atom_pdb(r).chainID and atom_cif(df2, r2).resSeq == atom_pdb(r).resSeq and atom_cif(df2, r2).iCode == atom_pdb(r).iCode",
        "abs(atom_cif(df2, r2).x - atom_pdb(r).x) <= 0.0005 and abs(atom_cif(df2, r2).y - atom_pdb(r).y) <= 0.0005 and abs(atom_cif(df2, r2).z - atom_pdb(r).z) <= 0.0005",
        "abs(atom_cif(df2, r2).occupancy - atom_pdb(r).occupancy) <= 0.005 and abs(atom_cif(df2, r2).tempFactor - atom_pdb(r).tempFactor) <= 0.005",
        "atom_cif(df2, r2).element == atom_pdb(r).element and atom_cif(df2, r2).model == atom_pdb(r).model",
        "implies(atom_pdb(r).charge == '', atom_cif(df2, r2).charge == '')",
        "implies(atom_pdb(r).charge != '', matches(atom_cif(df2, r2).charge, SIGNED_DIGIT))",
        "implies(atom_pdb(r).charge != '' and atom_pdb(r).charge[1:2] == '-', int(atom_cif(df2, r2).charge) == 0 - int(atom_pdb(r).charge[0:1]))",
        "implies(atom_pdb(r).charge != '' and atom_pdb(r).charge[1:2] != '-', int(atom_cif(df2, r2).charge) == int(atom_pdb(r).charge[0:1]))",
        "readable_cif(df2, r2)",
    ],
    "steps": ["use pdb_row_through_cif(r, A, R, D)",
              "use int_of_str(atom_pdb(r).model)",
              "use charge_text_back(atom_pdb(r).charge) when atom_pdb(r).charge != ''",
              "use int_ok_of_str(atom_pdb(r).serial)", "use int_ok_of_str(atom_pdb(r).resSeq)",
              "assert implies(atom_pdb(r).charge != '', not (D['pdbx_formal_charge'] is None) and some(D['pdbx_formal_charge']) == signed_text(atom_pdb(r).charge))",
              "assert implies(atom_pdb(r).charge != '', atom_cif(df2, r2).charge == str(int(signed_text(atom_pdb(r).charge))))"]}


LEMMAS["cif_row_through_cif"] = {
    # path mmCIF -> mmCIF of the property, one row: r = row i of a table in the mmCIF naming, R = the atom_site row write_cif
    # builds for it (stop-postcondition mmCIF-table-row-i-column-by-column of write_cif@rows, item names = df.columns), D = the
    # record parse_cif_atoms builds from (df.columns, R).  Then every column comes back: None for a missing value, else the
    # cell's text - provided a present text is not itself a null marker.  (mmcif writer + reader between R and D: TRUSTED.)
    "kind": "smt", "params": ["df", "i", "R", "D"], "shapes": ["rec[Frame]", "int", "list[str]", "dict[str,opt[str]]"],
    "requires": ["len(df.columns) >= 0", "items_of_cif_row(df, trow(df, i), R)", "decoded_items(df.columns, R, D)",
                 "forall(lambda k: implies(0 <= k and k < len(df.columns), implies(not isna(cell(trow(df, i), df.columns[k])), not null_marker(cstr(cell(trow(df, i), df.columns[k]))))))"],
    "ensures": ["forall(lambda k: implies(0 <= k and k < len(df.columns), df.columns[k] in D "
                "and D[df.columns[k]] == ite(isna(cell(trow(df, i), df.columns[k])), None, cstr(cell(trow(df, i), df.columns[k])))))"]}


CONTRACTS = {"write_cif@rows": write_cif_rows_c, "_pdb_charge_to_int_str": charge_to_int_c, "parse_cif_atoms@decode": parse_cif_atoms_decode_c,
             "parse_cif_atoms@decode_file": parse_cif_atoms_decode_file_c,
             "parse_cif_atoms@decode_stringio": parse_cif_atoms_decode_stringio_c}
