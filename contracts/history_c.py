"""Sidecar of spec-level LEMMAS for property C12: lemma L-hist (composition of the per-method contracts over an arbitrary
finite history of calls), SMT version - an independent second proof of the statement proved in lean/History.lean (which is
the more general one: relational steps, relational postconditions).  No code of /repo is involved: every target is a
`lemma:` proved by SMT with induction (`decreases`).

THE OBJECTS (a recorded history of n calls, times 0 .. n; everything a lemma PARAMETER constrained by the two hypotheses -
no definitional axiom; `hans` is an uninterpreted function = "some function of (operation, view)")
  AL[t]      allocation frontier at time t: the objects 0 .. AL[t]-1 exist before step t (objects are numbered in the order of
             their creation, as references are in the engine)
  VV[t][o]   the observable view of object o at time t, as an abstract code (int): for a BpSeq the pairs dict, the
             (index_, sequence, pair) of its entries in order and the contents of the cached_property slots
  H[t], RC[t], A[t]   operation, receiver and observed answer of step t (0 <= t < n)
  hans(op, w)         the answer function of hypothesis (ii): what operation op returns on a receiver whose view is w

HYPOTHESES - exactly the two kinds of clause the verified method contracts provide (table: props/C12.py EXPLANATION,
lean/README.md section History.lean)
  frame_steps(VV, AL, n)            (i)  every step keeps every existing object (AL never shrinks) and the view of every
                                         object that exists before the step (modifies = [] + frame.* obligations)
  post_steps(VV, AL, H, RC, A, n)   (ii) the receiver of every step exists and the answer is hans(op, view of the receiver
                                         before the step) - a function of the receiver's view ONLY

WHAT IS PROVED
  hist_view_stable     for 0 <= j <= k <= n and every object o existing at time j: o exists at time k and VV[k][o] == VV[j][o]
                       (induction on k - j): "every object's view is what it was after construction" (j = the time right
                       after o's construction)
  hist_answers         for 0 <= j <= k < n, receiver of step k existing at time j: A[k] == hans(H[k], VV[j][RC[k]]): every call
                       returns the function of the view its receiver had at ANY earlier time, e.g. after construction
  hist_as_fresh_copy   ... hence equals the answer A2 of the same operation run - in any other history, at any time - on an
                       object whose view equals the receiver's construction-time view (first call on a fresh equal object)
  hist_cached          two calls of the same operation on the same object in one history return the same answer
"""


def spec(f):
    return f


__file_spec__ = [__file__]

CLASSES = {}
CONTRACTS = {}
INLINE = []
UFUNS = {"hans": (["int", "int"], "int")}

_VV = "list[list[int]]"
_L = "list[int]"


@spec
def frame_steps(VV, AL, n):
    """hypothesis (i), for each of the n steps: existing objects stay, and the view of every object existing before the step
    is the same after it"""
    return (forall(lambda t: implies(0 <= t and t < n, AL[t] <= AL[t + 1]))
            and forall(lambda t, o: implies(0 <= t and t < n and 0 <= o and o < AL[t], VV[t + 1][o] == VV[t][o])))


@spec
def post_steps(VV, AL, H, RC, A, n):
    """hypothesis (ii): the receiver of step t exists, and the answer is a function of the operation and of the receiver's
    view before the step"""
    return forall(lambda t: implies(0 <= t and t < n, 0 <= RC[t] and RC[t] < AL[t] and A[t] == hans(H[t], VV[t][RC[t]])))


LEMMAS = {
    "hist_view_stable": {
        "kind": "smt", "params": ["VV", "AL", "n", "j", "k", "o"], "shapes": [_VV, _L, "int", "int", "int", "int"],
        "requires": ["frame_steps(VV, AL, n)"],
        "decreases": "ite(k > j, k - j, 0)",
        "steps": ["use hist_view_stable(VV, AL, n, j, k - 1, o) when k > j",
                  "let IN = 0 <= j and j < k and k <= n and 0 <= o and o < AL[j]",
                  "assert implies(IN, o < AL[k - 1] and VV[k - 1][o] == VV[j][o])",
                  "assert implies(IN, AL[k - 1] <= AL[k - 1 + 1] and VV[k - 1 + 1][o] == VV[k - 1][o])"],
        "ensures": ["implies(0 <= j and j <= k and k <= n and 0 <= o and o < AL[j], o < AL[k] and VV[k][o] == VV[j][o])"]},
    "hist_answers": {
        "kind": "smt", "params": ["VV", "AL", "H", "RC", "A", "n", "j", "k"], "shapes": [_VV, _L, _L, _L, _L, "int", "int", "int"],
        "requires": ["frame_steps(VV, AL, n)", "post_steps(VV, AL, H, RC, A, n)"],
        "steps": ["use hist_view_stable(VV, AL, n, j, k, RC[k])",
                  "assert implies(0 <= k and k < n, 0 <= RC[k] and A[k] == hans(H[k], VV[k][RC[k]]))"],
        "ensures": ["implies(0 <= j and j <= k and k < n and RC[k] < AL[j], A[k] == hans(H[k], VV[j][RC[k]]))"]},
    # the same operation run anywhere else (second history VV2 .. A2, step k2) on an object whose view equals the view the
    # receiver of step k had at time j (after its construction) returns the same answer
    "hist_as_fresh_copy": {
        "kind": "smt", "params": ["VV", "AL", "H", "RC", "A", "n", "j", "k", "VV2", "AL2", "H2", "RC2", "A2", "n2", "k2"],
        "shapes": [_VV, _L, _L, _L, _L, "int", "int", "int", _VV, _L, _L, _L, _L, "int", "int"],
        "requires": ["frame_steps(VV, AL, n)", "post_steps(VV, AL, H, RC, A, n)", "post_steps(VV2, AL2, H2, RC2, A2, n2)",
                     "0 <= j and j <= k and k < n and RC[k] < AL[j]", "0 <= k2 and k2 < n2",
                     "H2[k2] == H[k] and VV2[k2][RC2[k2]] == VV[j][RC[k]]"],
        "steps": ["use hist_answers(VV, AL, H, RC, A, n, j, k)",
                  "assert A2[k2] == hans(H2[k2], VV2[k2][RC2[k2]])"],
        "ensures": ["A[k] == A2[k2]"]},
    "hist_cached": {
        "kind": "smt", "params": ["VV", "AL", "H", "RC", "A", "n", "j", "k1", "k2"], "shapes": [_VV, _L, _L, _L, _L, "int", "int", "int", "int"],
        "requires": ["frame_steps(VV, AL, n)", "post_steps(VV, AL, H, RC, A, n)",
                     "0 <= j and j <= k1 and k1 < n and j <= k2 and k2 < n and RC[k1] < AL[j]",
                     "H[k1] == H[k2] and RC[k1] == RC[k2]"],
        "steps": ["use hist_answers(VV, AL, H, RC, A, n, j, k1)", "use hist_answers(VV, AL, H, RC, A, n, j, k2)"],
        "ensures": ["A[k1] == A[k2]"]},
}
