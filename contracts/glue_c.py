"""Sidecar contracts for the GLUE functions between the library's computations and its observation points
(observe_at of C06 / C14 / C16 / C19): data flow only.

Verify targets
  rnapolis.adapter    extract_secondary_structure_from_external, parse_external_output, process_external_tool_output, main@adapter
  rnapolis.annotator  extract_base_interactions, extract_secondary_structure, write_bpseq, write_json, add_common_output_arguments,
                      handle_output_arguments@prefix (the body up to, not including, `if args.inter_stem_csv:`), main@annotator
Not under contract: the rest of handle_output_arguments (two pandas exports: a dict display inside a comprehension, DataFrame
item assignment / column selection / to_csv, try/except around dict.get) - it contains no print; annotator.write_csv (assumed).
At call sites handle_output_arguments is therefore OPAQUE (contract hoa_call: it may print, write files and raise; ghost names for
its arguments only): the mains are proved to hand it the right values, the prefix contract says what it does with them.

Every function is executed symbolically on the real source.  What the library calls compute is NOT re-proved here (Mapping2D3D.bpseq /
dot_bracket / extended_dot_bracket / all_dot_brackets are under contract in contracts/mapping*_c.py and common_all_c.py, the importers in
contracts/adapter_c.py): at this level the result of every library call is an OPAQUE value - an uninterpreted function of the OBJECT the
call was made on and of the values it was given.  Nothing is assumed about those functions (no determinism across two objects, no
relation between two of them), so a clause "X is mapping.all_dot_brackets" can only be proved by actually reading that attribute of that
object.

Model (every callee contract marked ASSUMED is never a verify target of this sidecar, every EXTERNAL is trusted base; all are listed in
the properties' TRUSTED / ASSUMPTIONS):
  Structure3D, IList      objects with identity and no modelled content (`val`: ghost).  IList = one Python list of interactions
                          (basePairs, stackings, ...): the code only passes these objects on
  BaseInteractions, Structure2D     the real frozen dataclasses as records (the real field lists, in order)
  Mapping2D3D             the real dataclass: an object with the four real fields; Mapping2D3D(a, b, c, d) stores them (no __post_init__)
  mapping.bpseq           -> a BpSeq object b with b.val == m_bpseq(M, S, P, K, g): M the mapping object, S / P / K / g its structure3d /
                          base_pairs2d / stackings2d / find_gaps AT THE TIME OF THE READ.  Likewise m_db (dot_bracket), m_ext
                          (extended_dot_bracket), m_nall / m_all (length and entries of all_dot_brackets), isp_of
                          (calculate_all_inter_stem_parameters).  str(b) = bp_text(b.val); b.elements = four list objects holding
                          el_of(b.val, 0..3); b.all_dot_brackets = bp_nall / bp_all of b.val (a DIFFERENT list of texts)
  argparse / stdout       as in contracts/motif_c.py: parse_args() exits or returns a namespace whose attributes are the constants
                          cli_<dest>(); stdout is the ghost object ref(Stdout, 0), one entry of `lines` per print() call
  files                   the ghost object ref(Fs, 0): `paths` / `texts` = (path, final content) of every file written through
                          open(path, 'w'|'wb') .. write .. close in this call, in order of closing; the three writers write_csv /
                          write_json / write_bpseq append one entry each (csv_text / json_text of the Structure2D's fields; the given
                          text for write_bpseq - that one is proved here)
"""
import ast

import z3

from pyvc.values import Unsupported, VConc, VList, VOpt, VRec, VRef, VSet, to_z3, uid


def spec(f):
    return f


I, S, B = z3.IntSort(), z3.StringSort(), z3.BoolSort()

IL = "IList"
# argparse destinations: shape str = positional or required option, bool = store_true flag, opt[str] = option (None unless given)
NS_COMMON = {"all_dot_brackets": "bool", "bpseq": "opt[str]", "csv": "opt[str]", "json": "opt[str]", "extended": "bool", "dot": "opt[str]",
             "pml": "opt[str]", "inter_stem_csv": "opt[str]", "stems_csv": "opt[str]"}
NS_FIELDS = dict(NS_COMMON, input="str", find_gaps="bool", external="str", tool="str")
NS_BY_MODULE = {"rnapolis.annotator": set(NS_COMMON) | {"input", "find_gaps"}, "rnapolis.adapter": set(NS_FIELDS)}
CLASSES = {
    "Structure3D": {"kind": "object", "fields": {"val": "int"}},
    # Python lists whose content the glue never looks at: list OBJECTS (boxed_list: truth value / == / iteration of such an object
    # is refused or goes through `items`, never decided as for a plain object); `val` (ghost) = which content the list holds
    "IList": {"kind": "object", "boxed_list": "items", "derived": ["val"], "fields": {"items": "list[int]", "val": "int"}},
    "ElemList": {"kind": "object", "boxed_list": "items", "derived": ["val"], "fields": {"items": "list[int]", "val": "int"}},
    "IspList": {"kind": "object", "boxed_list": "items", "derived": ["val"], "fields": {"items": "list[int]", "val": "int"}},
    "BpSeq": {"kind": "object", "fields": {"val": "int"}},
    "BaseInteractions": {"kind": "record", "fields": {"basePairs": IL, "stackings": IL, "baseRiboseInteractions": IL,
                                                      "basePhosphateInteractions": IL, "otherInteractions": IL}},
    "Structure2D": {"kind": "record", "fields": {"baseInteractions": "rec[BaseInteractions]", "bpseq": "str", "dotBracket": "str",
                                                 "extendedDotBracket": "str", "stems": "ElemList", "singleStrands": "ElemList",
                                                 "hairpins": "ElemList", "loops": "ElemList", "interStemParameters": "IspList"}},
    "Mapping2D3D": {"kind": "object", "fields": {"structure3d": "Structure3D", "base_pairs2d": IL, "stackings2d": IL, "find_gaps": "bool"}},
    # command-line glue
    "Parser": {"kind": "object", "fields": {"positionals": "set[str]", "flags": "set[str]", "optionals": "set[str]", "required": "set[str]"}},
    "Namespace": {"kind": "object", "fields": dict(NS_FIELDS)},
    "Stdout": {"kind": "object", "fields": {"lines": "list[str]"}},
    "Fs": {"kind": "object", "fields": {"paths": "list[str]", "texts": "list[str]"}},
    "OutFile": {"kind": "object", "fields": {"name": "str", "buf": "str"}},
    "InFile": {"kind": "object", "fields": {"src": "str"}},
}
INLINE = []
PRUNE_BRANCHES = False


def _tools():
    from rnapolis.adapter import ExternalTool
    return {"FR3D": ExternalTool.FR3D, "DSSR": ExternalTool.DSSR}


SPEC_CONSTS = _tools()
# modelling declaration (listed in C19): the parameter `tool` is declared enum[ExternalTool] (the member's ordinal in definition order);
# `tool == ExternalTool.FR3D` compares ordinals
ENUM_ORDINAL_EQ = True

m5 = ["int", "int", "int", "int", "bool"]
UFUNS = {
    "m_bpseq": (m5, "int"), "m_db": (m5, "str"), "m_ext": (m5, "str"), "m_nall": (m5, "int"), "m_all": (m5 + ["int"], "str"),
    "isp_of": (m5, "int"),
    "fr3d_list": (["str", "int"], "int"), "dssr_list": (["str", "int", "int"], "int"),
    "bp_text": (["int"], "str"), "bp_from_string": (["str"], "int"), "gv_text": (["int"], "str"),
    "pml_text": (m5 + ["int"], "str"), "basename": (["str"], "str"),
    "csv_text": (["int"] * 5, "str"), "json_text": (["int"] * 5 + ["str"] * 3 + ["int"] * 5, "str"),
    "s3d_read": (["str"], "int"),
    **{"cli_" + k: ([], {"opt[str]": "str"}.get(v, v)) for k, v in NS_FIELDS.items()},
    **{"cli_has_" + k: ([], "bool") for k, v in NS_FIELDS.items() if v == "opt[str]"}, "el_of": (["int", "int"], "int"), "bp_nall": (["int"], "int"), "bp_all": (["int", "int"], "str"),
}


# ------------------------------------------------------------------------------------------------ externals (trusted base)
def _alloc(e, st, cls):
    ref = VRef(cls, st.alloc)
    st.alloc = z3.simplify(to_z3(st.alloc) + 1)
    return ref


def _simp(v):
    return z3.simplify(to_z3(v))


def ext_bpseq_str(e, args, kw, node, st):
    """str(b) of a BpSeq object: a function of the structure it holds"""
    return e.ufuns["bp_text"](to_z3(e.heap_read(st, args[0], "val")))


ext_bpseq_str.pure = True


def _mfields(e, st, m):
    return [to_z3(m.ident)] + [to_z3(getattr(x, "ident", x)) for x in (e.heap_read(st, m, f) for f in ("structure3d", "base_pairs2d", "stackings2d", "find_gaps"))]


def ext_calc_isp(e, args, kw, node, st):
    """tertiary.calculate_all_inter_stem_parameters(mapping): a NEW list object holding isp_of(mapping object and its four fields);
    changes nothing"""
    if len(args) != 1 or kw or not (isinstance(args[0], VRef) and args[0].cls == "Mapping2D3D"):
        raise Unsupported("calculate_all_inter_stem_parameters(<one Mapping2D3D>) only")
    r = _alloc(e, st, "IspList")
    e.heap_write(st, r, "val", e.ufuns["isp_of"](*_mfields(e, st, args[0])))
    return r


# -- argparse (as in contracts/motif_c.py, plus: several option strings, required=True, choices=)
def ext_ArgumentParser(e, args, kw, node, st):
    if args or kw:
        raise Unsupported("ArgumentParser(...) with arguments")
    p = _alloc(e, st, "Parser")
    for f in ("positionals", "flags", "optionals", "required"):
        e.heap_write(st, p, f, e.default_of(("set", ("str",))))
    return p


def ext_add_argument(e, args, kw, node, st):
    """add_argument(*names, help=..[, action='store_true'][, required=True][, choices=..]): registers ONE destination - the
    positional's name, or for option strings the first '--long-name' with '-' -> '_' (argparse's rule).  Kinds: positional (a
    string), flag (action='store_true': a bool), option (a string or None), required option (required=True: a string).
    `choices` only makes parse_args() reject more command lines (SystemExit), which the model allows anyway: not recorded."""
    names = args[1:]
    if not names or not all(isinstance(n, str) and n for n in names) or set(kw) - {"help", "action", "required", "choices"} \
            or kw.get("action", "store_true") != "store_true" or kw.get("required", True) is not True:
        raise Unsupported("add_argument: only (*names, help=..[, action='store_true'][, required=True][, choices=..]) is modelled")
    if len(names) == 1 and not names[0].startswith("-"):
        if "action" in kw or "required" in kw:
            raise Unsupported("add_argument: positional with action / required")
        fld, dest = "positionals", names[0]
    elif all(n.startswith("-") for n in names):
        longs = [n for n in names if n.startswith("--") and len(n) > 2 and not n[2:].startswith("-")]
        if not longs or ("action" in kw and "required" in kw):
            raise Unsupported(f"add_argument{names!r}")
        fld, dest = ("flags" if "action" in kw else "required" if "required" in kw else "optionals"), longs[0][2:].replace("-", "_")
    else:
        raise Unsupported(f"add_argument{names!r}")
    cur = e.heap_read(st, args[0], fld)
    e.heap_write(st, args[0], fld, VSet(cur.kshape, z3.Store(cur.mem, z3.StringVal(dest), z3.BoolVal(True))))
    return VConc(object())


KIND_OF_SHAPE = {"str": ("positionals", "required"), "bool": ("flags",), "opt[str]": ("optionals",)}


def ext_parse_args(e, args, kw, node, st):
    """parse_args(): exits (SystemExit) on a bad command line / --help, else a namespace with one attribute per registered
    destination whose value is the constant cli_<dest>() (option: None unless cli_has_<dest>()).  That the destinations the
    glue reads are registered, with the kind the model declares, is an OBLIGATION here (dest-registered.<dest>): the set of
    destinations is NS_BY_MODULE[module]; reading any other attribute of the namespace in the function under contract is refused."""
    if len(args) != 1 or kw:
        raise Unsupported("parse_args(...) with arguments")
    U = e.ufuns
    dests = NS_BY_MODULE.get(e.module_name)
    fdef = e.funcs.get(str(e.cur_name).split("@")[0])
    if dests is None or fdef is None:
        raise Unsupported("parse_args() in this module")
    for n_ in ast.walk(fdef):
        if isinstance(n_, ast.Attribute) and n_.attr in NS_FIELDS and n_.attr not in dests:
            raise Unsupported(f"reads .{n_.attr}, which is not a destination of this module's parser")
    e.may_raise(z3.Bool(uid("bad_command_line")), "SystemExit", node)
    ns = _alloc(e, st, "Namespace")
    regs = {k: e.heap_read(st, args[0], k) for k in ("positionals", "flags", "optionals", "required")}
    for fld in sorted(dests):
        shp = NS_FIELDS[fld]
        key = z3.StringVal(fld)
        ok = z3.And(z3.Or(*[z3.Select(regs[k].mem, key) for k in KIND_OF_SHAPE[shp]]),
                    *[z3.Not(z3.Select(regs[k].mem, key)) for k in regs if k not in KIND_OF_SHAPE[shp]])
        e.emit(f"parse_args.dest-registered.{fld}", st, ok, node, kind="call-pre", guard=list(e.guard))
        val = U["cli_" + fld]()
        e.heap_write(st, ns, fld, VOpt(z3.Not(U["cli_has_" + fld]()), val) if shp == "opt[str]" else val)
    return ns


# -- stdout (as in contracts/motif_c.py)
STDOUT = VRef("Stdout", z3.IntVal(0))  # ghost cell: what this call has printed (identity 0: never an allocated object)
FS = VRef("Fs", z3.IntVal(0))          # ghost cell: the files this call has written


def _in_loop_ok(e, field, what):
    if getattr(e, "binders", ()):
        raise Unsupported(f"{what} inside a comprehension")
    k_ = e.enclosing_loop.get(id(getattr(e, "cur_stmt", None)))
    while k_ is not None:
        lc_ = e.cur_loops.get(k_)
        if not (isinstance(lc_, dict) and field in lc_.get("writes", ())):
            raise Unsupported(f"{what} in loop #{k_}, whose contract does not declare writes = [{field!r}]")
        k_ = getattr(e, "loop_parent", {}).get(k_)


def _snoc(cur, x):
    q = z3.Int(uid("q"))
    n = to_z3(cur.length)
    return VList(z3.simplify(n + 1), z3.Lambda([q], z3.If(q == n, to_z3(x), z3.Select(cur.elems, q))), ("str",))


def _is_str(x):
    return isinstance(x, str) or (z3.is_expr(x) and x.sort() == S)


def ext_print(e, args, kw, node, st):
    """print(x) for one str: one more entry of the stdout ghost list"""
    if len(args) != 1 or kw or not _is_str(args[0]):
        raise Unsupported("print: only print(<one str>) is modelled")
    _in_loop_ok(e, "Stdout.lines", "print")
    e.heap_write(st, STDOUT, "lines", _snoc(e.heap_read(st, STDOUT, "lines"), args[0]))
    return None


# -- files written through open()
def ext_open(e, args, kw, node, st):
    """open(path, 'w' | 'wb'): a new file object with an empty buffer; may fail with OSError.  (Bytes are modelled as text: the only
    bytes value is what orjson.dumps returns.)"""
    if len(args) != 2 or kw or args[1] not in ("w", "wb"):
        raise Unsupported("open(): only open(<str path>, 'w' | 'wb') is modelled")
    if isinstance(args[0], VOpt):
        e.may_raise(args[0].isnone, "TypeError", node)  # open(None, ..)
        args = [args[0].val, args[1]]
    if not _is_str(args[0]):
        raise Unsupported("open(): only open(<str path>, 'w' | 'wb') is modelled")
    e.may_raise(z3.Bool(uid("os_error")), "OSError", node)
    f = _alloc(e, st, "OutFile")
    e.heap_write(st, f, "name", args[0])
    e.heap_write(st, f, "buf", "")
    return f


def ext_of_enter(e, args, kw, node, st):
    return args[0]


ext_of_enter.pure = True


def ext_of_write(e, args, kw, node, st):
    if len(args) != 2 or kw or not _is_str(args[1]):
        raise Unsupported("write(<one str / bytes value>) only")
    _in_loop_ok(e, "OutFile.buf", "write")
    e.heap_write(st, args[0], "buf", _simp(z3.Concat(to_z3(e.heap_read(st, args[0], "buf")), to_z3(args[1]))))
    return z3.Length(to_z3(args[1]))


def ext_of_exit(e, args, kw, node, st):
    """closing the file: one more entry (path, content) of the ghost list of written files; never swallows an exception"""
    _in_loop_ok(e, "Fs.paths", "closing a file")
    f = args[0]
    e.heap_write(st, FS, "paths", _snoc(e.heap_read(st, FS, "paths"), e.heap_read(st, f, "name")))
    e.heap_write(st, FS, "texts", _snoc(e.heap_read(st, FS, "texts"), e.heap_read(st, f, "buf")))
    return False


def _s2_args(e, st, s2):
    if not (isinstance(s2, VRec) and s2.cls == "Structure2D"):
        raise Unsupported("orjson.dumps of this value")
    bi = s2.fields["baseInteractions"].fields
    lists = [to_z3(e.heap_read(st, bi[f], "val")) for f in ("basePairs", "stackings", "baseRiboseInteractions", "basePhosphateInteractions", "otherInteractions")]
    texts = [to_z3(s2.fields[f]) for f in ("bpseq", "dotBracket", "extendedDotBracket")]
    objs = [to_z3(e.heap_read(st, s2.fields[f], "val")) for f in ("stems", "singleStrands", "hairpins", "loops", "interStemParameters")]
    return lists + texts + objs


def ext_orjson_dumps(e, args, kw, node, st):
    """orjson.dumps(<Structure2D>, option=orjson.OPT_SERIALIZE_NUMPY): json_text of the record's content (the five interaction lists, the
    three texts, the four element lists, the inter-stem parameters) - an opaque function; nothing else is assumed"""
    import orjson
    if len(args) != 1 or set(kw) != {"option"} or kw["option"] != orjson.OPT_SERIALIZE_NUMPY:
        raise Unsupported("orjson.dumps(x, option=OPT_SERIALIZE_NUMPY) only")
    return e.ufuns["json_text"](*_s2_args(e, st, args[0]))


def ext_basename(e, args, kw, node, st):
    if len(args) != 1 or kw or not _is_str(args[0]):
        raise Unsupported("os.path.basename(<str>) only")
    return e.ufuns["basename"](to_z3(args[0]))


ext_basename.pure = True


def _delegate(qual):
    """a function imported from another module of the library whose (assumed or proved) contract is CONTRACTS[qual] of this sidecar"""
    def ext(e, args, kw, node, st):
        return e.call_contract(qual, args, kw, node, st)
    ext.__doc__ = f"imported function: used through the contract {qual} of this sidecar"
    return ext


EXTERNALS = {
    "BpSeq.__str__": ext_bpseq_str,
    "rnapolis.tertiary.calculate_all_inter_stem_parameters": ext_calc_isp,
    "argparse.ArgumentParser": ext_ArgumentParser, "Parser.add_argument": ext_add_argument, "Parser.parse_args": ext_parse_args,
    "builtins.print": ext_print, "builtins.open": ext_open, "OutFile.__enter__": ext_of_enter, "OutFile.__exit__": ext_of_exit,
    "OutFile.write": ext_of_write, "orjson.dumps": ext_orjson_dumps, "posixpath.basename": ext_basename,
    "rnapolis.annotator.add_common_output_arguments": _delegate("add_common_output_arguments"),
    "rnapolis.annotator.handle_output_arguments": _delegate("handle_output_arguments"),
    "rnapolis.util.handle_input_file": _delegate("handle_input_file"),
    "rnapolis.parser.read_3d_structure": _delegate("read_3d_structure"),
}


# ------------------------------------------------------------------------------------------------ spec vocabulary
@spec
def built_from(M, s, bi, fg):
    """M is a Mapping2D3D of exactly this structure, these interactions' basePairs and stackings, this find_gaps flag"""
    return M.structure3d is s and M.base_pairs2d is bi.basePairs and M.stackings2d is bi.stackings and M.find_gaps == fg


@spec
def BP(M, s, bi, fg):
    """the structure held by M.bpseq, M being built from (s, bi.basePairs, bi.stackings, fg)"""
    return m_bpseq(M, s, bi.basePairs, bi.stackings, fg)


@spec
def texts_of(S2, M, s, bi, fg):
    return (S2.bpseq == bp_text(BP(M, s, bi, fg)) and S2.dotBracket == m_db(M, s, bi.basePairs, bi.stackings, fg)
            and S2.extendedDotBracket == m_ext(M, s, bi.basePairs, bi.stackings, fg))


@spec
def elements_of(S2, M, s, bi, fg):
    return (S2.stems.val == el_of(BP(M, s, bi, fg), 0) and S2.singleStrands.val == el_of(BP(M, s, bi, fg), 1)
            and S2.hairpins.val == el_of(BP(M, s, bi, fg), 2) and S2.loops.val == el_of(BP(M, s, bi, fg), 3))


@spec
def all_of(L, M, s, bi, fg):
    """L is M.all_dot_brackets: same length, same entries in the same order"""
    return (len(L) == m_nall(M, s, bi.basePairs, bi.stackings, fg)
            and forall(lambda k: implies(0 <= k and k < len(L), L[k] == m_all(M, s, bi.basePairs, bi.stackings, fg, k))))


@spec
def single_of(L, M, s, bi, fg):
    return len(L) == 1 and L[0] == m_db(M, s, bi.basePairs, bi.stackings, fg)


# ------------------------------------------------------------------------------------------------ assumed callee contracts
LIB_ERRORS = ["ValueError", "IndexError", "KeyError", "RuntimeError"]  # what the library may raise on a malformed input


class m_bpseq_c:
    """ASSUMED: the cached property m.bpseq -> a BpSeq object holding m_bpseq(m, its four fields); ghost `on`: m"""
    is_property = True
    params = {"self": "Mapping2D3D"}
    requires = []
    returns = "BpSeq"
    ghost_returns = {"on": "Mapping2D3D"}
    raises = LIB_ERRORS
    modifies = []
    ensures = ["on is self", "result.val == m_bpseq(self, self.structure3d, self.base_pairs2d, self.stackings2d, self.find_gaps)"]


class m_dot_bracket_c:
    is_property = True
    params = {"self": "Mapping2D3D"}
    requires = []
    returns = "str"
    raises = LIB_ERRORS
    modifies = []
    ensures = ["result == m_db(self, self.structure3d, self.base_pairs2d, self.stackings2d, self.find_gaps)"]


class m_extended_c:
    is_property = True
    params = {"self": "Mapping2D3D"}
    requires = []
    returns = "str"
    raises = LIB_ERRORS
    modifies = []
    ensures = ["result == m_ext(self, self.structure3d, self.base_pairs2d, self.stackings2d, self.find_gaps)"]


class m_all_c:
    """ASSUMED: the cached property m.all_dot_brackets -> a list of m_nall(..) texts m_all(.., k)"""
    is_property = True
    params = {"self": "Mapping2D3D"}
    requires = []
    returns = "list[str]"
    raises = LIB_ERRORS
    modifies = []
    ensures = ["len(result) == m_nall(self, self.structure3d, self.base_pairs2d, self.stackings2d, self.find_gaps)",
               "forall(lambda k: implies(0 <= k and k < len(result), result[k] == m_all(self, self.structure3d, self.base_pairs2d, self.stackings2d, self.find_gaps, k)))"]


class bp_elements_c:
    """ASSUMED: the cached property b.elements -> four list objects (stems, single strands, hairpins, loops) of b.val"""
    is_property = True
    params = {"self": "BpSeq"}
    requires = []
    returns = "tuple[ElemList,ElemList,ElemList,ElemList]"
    raises = LIB_ERRORS
    modifies = []
    ensures = ["result[0].val == el_of(self.val, 0) and result[1].val == el_of(self.val, 1) and result[2].val == el_of(self.val, 2) "
               "and result[3].val == el_of(self.val, 3)"]


class bp_all_c:
    """ASSUMED: BpSeq.all_dot_brackets -> the whole-sequence texts of b.val (NOT the per-strand texts of the mapping)"""
    is_property = True
    params = {"self": "BpSeq"}
    requires = []
    returns = "list[str]"
    raises = LIB_ERRORS
    modifies = []
    ensures = ["len(result) == bp_nall(self.val)",
               "forall(lambda k: implies(0 <= k and k < len(result), result[k] == bp_all(self.val, k)))"]


# ------------------------------------------------------------------------------------------------ adapter: the extract functions
EXTRACT_LABELS = {0: "a-NEW-mapping-is-returned", 1: "mapping-built-from-exactly-the-given-structure-pairs-stackings-flag",
                  2: "structure2d-carries-the-given-interactions",
                  3: "bpseq-dotBracket-extended-texts-are-that-ONE-mappings",
                  4: "elements-are-those-of-that-mappings-bpseq",
                  5: "inter-stem-parameters-are-computed-from-that-mapping",
                  6: "flag-set:second-component-is-mapping.all_dot_brackets",
                  7: "flag-unset:second-component-is-the-single-dot-bracket"}


class extract_external:
    """adapter.extract_secondary_structure_from_external"""
    params = {"tertiary_structure": "Structure3D", "base_interactions": "rec[BaseInteractions]", "model": "opt[int]", "find_gaps": "bool",
              "all_dot_brackets": "bool"}
    requires = []
    returns = "tuple[rec[Structure2D],list[str],Mapping2D3D]"
    raises = LIB_ERRORS
    modifies = []
    ensures = [
        "fresh(result[2])",
        "built_from(result[2], tertiary_structure, base_interactions, find_gaps)",
        "result[0].baseInteractions == base_interactions",
        "texts_of(result[0], result[2], tertiary_structure, base_interactions, find_gaps)",
        "elements_of(result[0], result[2], tertiary_structure, base_interactions, find_gaps)",
        "result[0].interStemParameters.val == isp_of(result[2], tertiary_structure, base_interactions.basePairs, base_interactions.stackings, find_gaps)",
        "implies(all_dot_brackets, all_of(result[1], result[2], tertiary_structure, base_interactions, find_gaps))",
        "implies(not all_dot_brackets, single_of(result[1], result[2], tertiary_structure, base_interactions, find_gaps))",
    ]
    ensures_labels = EXTRACT_LABELS


@spec
def is_fr3d(bi, path):
    """bi holds the five lists parse_fr3d_output returns for the file at `path`"""
    return (bi.basePairs.val == fr3d_list(path, 0) and bi.stackings.val == fr3d_list(path, 1) and bi.baseRiboseInteractions.val == fr3d_list(path, 2)
            and bi.basePhosphateInteractions.val == fr3d_list(path, 3) and bi.otherInteractions.val == fr3d_list(path, 4))


@spec
def is_dssr(bi, path, s):
    """bi holds the five lists parse_dssr_output(path, s) returns (model not given)"""
    return (bi.basePairs.val == dssr_list(path, s, 0) and bi.stackings.val == dssr_list(path, s, 1) and bi.baseRiboseInteractions.val == dssr_list(path, s, 2)
            and bi.basePhosphateInteractions.val == dssr_list(path, s, 3) and bi.otherInteractions.val == dssr_list(path, s, 4))


@spec
def parsed(bi, path, tool, s):
    """bi is the import result for this file, this tool and this structure"""
    return implies(tool == FR3D, is_fr3d(bi, path)) and implies(tool == DSSR, is_dssr(bi, path, s))


class parse_fr3d_c:
    """ASSUMED here (proved in contracts/adapter_c.py against the C19 text): the importer's result as an opaque function of the path"""
    params = {"file_path": "str"}
    requires = []
    returns = "rec[BaseInteractions]"
    raises = ["OSError"] + LIB_ERRORS
    modifies = []
    ensures = ["is_fr3d(result, file_path)"]


class parse_dssr_c:
    """ASSUMED here (proved in contracts/adapter_c.py): ... of the path and the structure; `model` is not passed by the glue (None)"""
    params = {"file_path": "str", "structure3d": "Structure3D", "model": "opt[int]"}
    defaults = {"model": None}
    requires = ["is_none(model)"]
    returns = "rec[BaseInteractions]"
    raises = ["OSError"] + LIB_ERRORS
    modifies = []
    ensures = ["is_dssr(result, file_path, structure3d)"]


class parse_external_c:
    """adapter.parse_external_output: FR3D -> parse_fr3d_output(file), DSSR -> parse_dssr_output(file, structure)"""
    params = {"file_path": "str", "tool": "enum[ExternalTool]", "structure3d": "Structure3D"}
    requires = []
    returns = "rec[BaseInteractions]"
    raises = ["OSError"] + LIB_ERRORS
    modifies = []
    ensures = ["parsed(result, file_path, tool, structure3d)"]
    ensures_labels = {0: "the-tools-importer-is-applied-to-the-given-file-and-structure"}


class process_external:
    """adapter.process_external_tool_output: the import result of the given file / tool / structure reaches
    extract_secondary_structure_from_external unchanged, with the given structure and flags"""
    params = {"structure3d": "Structure3D", "external_file_path": "str", "tool": "enum[ExternalTool]", "model": "opt[int]", "find_gaps": "bool",
              "all_dot_brackets": "bool"}
    requires = []
    returns = "tuple[rec[Structure2D],list[str],Mapping2D3D]"
    raises = ["OSError"] + LIB_ERRORS
    modifies = []
    ensures = [
        "fresh(result[2])",
        "built_from(result[2], structure3d, result[0].baseInteractions, find_gaps)",
        "parsed(result[0].baseInteractions, external_file_path, tool, structure3d)",
        "texts_of(result[0], result[2], structure3d, result[0].baseInteractions, find_gaps)",
        "elements_of(result[0], result[2], structure3d, result[0].baseInteractions, find_gaps)",
        "result[0].interStemParameters.val == isp_of(result[2], structure3d, result[0].baseInteractions.basePairs, result[0].baseInteractions.stackings, find_gaps)",
        "implies(all_dot_brackets, all_of(result[1], result[2], structure3d, result[0].baseInteractions, find_gaps))",
        "implies(not all_dot_brackets, single_of(result[1], result[2], structure3d, result[0].baseInteractions, find_gaps))",
    ]
    ensures_labels = dict(EXTRACT_LABELS)
    ensures_labels[2] = "structure2d-carries-the-import-result-of-the-given-file-tool-structure"


# ------------------------------------------------------------------------------------------------ annotator: extract_secondary_structure
class find_pairs_c:
    """ASSUMED: annotator.find_pairs(structure, model) -> (base pairs, base-phosphate, base-ribose) list objects; ghost s / m: its arguments"""
    params = {"structure": "Structure3D", "model": "opt[int]"}
    defaults = {"model": None}
    requires = []
    returns = "tuple[IList,IList,IList]"
    ghost_returns = {"s": "Structure3D", "m": "opt[int]"}
    raises = LIB_ERRORS
    modifies = []
    ensures = ["s is structure", "m == model"]


class find_stackings_c(find_pairs_c):
    """ASSUMED: annotator.find_stackings(structure, model) -> the stackings list object; ghost s / m: its arguments"""
    returns = "IList"


class extract_base_interactions_c:
    """annotator.extract_base_interactions(structure, model): find_pairs and find_stackings of exactly that structure and model, filed
    as (pairs, stackings, base-ribose, base-phosphate, other = a new empty list); ghost s / m: its arguments"""
    params = {"tertiary_structure": "Structure3D", "model": "opt[int]"}
    defaults = {"model": None}
    requires = []
    returns = "rec[BaseInteractions]"
    ghost_returns = {"s": "Structure3D", "m": "opt[int]"}
    ghost_exit = ["let s = tertiary_structure", "let m = model"]
    raises = LIB_ERRORS
    modifies = []
    ensures = ["s is tertiary_structure", "m == model",
               "find_pairs_s is tertiary_structure and find_pairs_m == model and find_stackings_s is tertiary_structure and find_stackings_m == model",
               "result.basePairs is find_pairs_result[0] and result.stackings is find_stackings_result "
               "and result.baseRiboseInteractions is find_pairs_result[2] and result.basePhosphateInteractions is find_pairs_result[1]",
               "fresh(result.otherInteractions) and len(result.otherInteractions.items) == 0"]
    ensures_labels = {0: "ghost-s", 1: "ghost-m", 2: "both-searches-run-on-the-given-structure-and-model",
                      3: "pairs-stackings-ribose-phosphate-filed-under-their-own-fields", 4: "other-interactions-is-a-new-empty-list"}


class extract_base_interactions_call(extract_base_interactions_c):
    """call-site form: only the ghost names for the arguments (the remaining clauses speak about ghost names of its own callees)"""
    ghost_exit = []
    ensures = extract_base_interactions_c.ensures[:2]
    ensures_labels = {}


class extract_annotator:
    """annotator.extract_secondary_structure; ghost result M: the ONE mapping everything is read from"""
    params = {"tertiary_structure": "Structure3D", "model": "opt[int]", "find_gaps": "bool", "all_dot_brackets": "bool"}
    callee_variants = {"extract_base_interactions": "call"}
    requires = []
    returns = "tuple[rec[Structure2D],list[str]]"
    ghost_returns = {"M": "Mapping2D3D"}
    ghost_entry = ["let bpseq_on = ref(Mapping2D3D, 0)", "let extract_base_interactions_s = ref(Structure3D, 0)"]
    ghost_exit = ["let M = bpseq_on"]
    raises = LIB_ERRORS
    modifies = []
    ensures = [
        "fresh(M)",
        "built_from(M, tertiary_structure, result[0].baseInteractions, find_gaps)",
        "extract_base_interactions_s is tertiary_structure and extract_base_interactions_m == model and result[0].baseInteractions == extract_base_interactions_result",
        "texts_of(result[0], M, tertiary_structure, result[0].baseInteractions, find_gaps)",
        "elements_of(result[0], M, tertiary_structure, result[0].baseInteractions, find_gaps)",
        "result[0].interStemParameters.val == isp_of(M, tertiary_structure, result[0].baseInteractions.basePairs, result[0].baseInteractions.stackings, find_gaps)",
        "implies(all_dot_brackets, all_of(result[1], M, tertiary_structure, result[0].baseInteractions, find_gaps))",
        "implies(not all_dot_brackets, single_of(result[1], M, tertiary_structure, result[0].baseInteractions, find_gaps))",
    ]
    ensures_labels = dict(EXTRACT_LABELS)
    ensures_labels[0] = "a-NEW-mapping-is-built"
    ensures_labels[2] = "structure2d-carries-extract_base_interactions-of-the-given-structure-and-model"


# ------------------------------------------------------------------------------------------------ command-line glue: vocabulary
@spec
def out():
    """what this call has printed so far (one entry per print call)"""
    return ref(Stdout, 0).lines


@spec
def fs_paths():
    """paths of the files this call has written (closed) so far, in order"""
    return ref(Fs, 0).paths


@spec
def fs_texts():
    return ref(Fs, 0).texts


@spec
def given(x):
    """an Optional string option that is set and not empty (what `if args.x:` tests)"""
    return not is_none(x) and not (x == '')


@spec
def b2i(c):
    return ite(c, 1, 0)


@spec
def csv_of(S2):
    return csv_text(S2.baseInteractions.basePairs.val, S2.baseInteractions.stackings.val, S2.baseInteractions.baseRiboseInteractions.val,
                    S2.baseInteractions.basePhosphateInteractions.val, S2.baseInteractions.otherInteractions.val)


@spec
def json_of(S2):
    return json_text(S2.baseInteractions.basePairs.val, S2.baseInteractions.stackings.val, S2.baseInteractions.baseRiboseInteractions.val,
                     S2.baseInteractions.basePhosphateInteractions.val, S2.baseInteractions.otherInteractions.val,
                     S2.bpseq, S2.dotBracket, S2.extendedDotBracket, S2.stems.val, S2.singleStrands.val, S2.hairpins.val, S2.loops.val,
                     S2.interStemParameters.val)


@spec
def one_more_file(path, text):
    """exactly one more written file, (path, text), after the ones written before"""
    return (len(fs_paths()) == old(len(fs_paths())) + 1 and len(fs_texts()) == old(len(fs_texts())) + 1
            and fs_paths()[old(len(fs_paths()))] == path and fs_texts()[old(len(fs_texts()))] == text
            and forall(lambda j: implies(0 <= j and j < old(len(fs_paths())), fs_paths()[j] == old(fs_paths()[j])), pats=["fs_paths()[j]"])
            and forall(lambda j: implies(0 <= j and j < old(len(fs_texts())), fs_texts()[j] == old(fs_texts()[j])), pats=["fs_texts()[j]"]))


@spec
def n_before_json(a):
    return b2i(given(a.csv))


@spec
def n_before_bpseq(a):
    return b2i(given(a.csv)) + b2i(given(a.json))


@spec
def n_before_pml(a):
    return b2i(given(a.csv)) + b2i(given(a.json)) + b2i(given(a.bpseq))


@spec
def n_files(a):
    return b2i(given(a.csv)) + b2i(given(a.json)) + b2i(given(a.bpseq)) + b2i(given(a.pml))


@spec
def namespace_is_cli(a):
    """every attribute the output stage reads is the command line's value"""
    return (a.all_dot_brackets == cli_all_dot_brackets() and a.extended == cli_extended()
            and is_none(a.bpseq) == (not cli_has_bpseq()) and implies(cli_has_bpseq(), a.bpseq == cli_bpseq())
            and is_none(a.csv) == (not cli_has_csv()) and implies(cli_has_csv(), a.csv == cli_csv())
            and is_none(a.json) == (not cli_has_json()) and implies(cli_has_json(), a.json == cli_json())
            and is_none(a.dot) == (not cli_has_dot()) and implies(cli_has_dot(), a.dot == cli_dot())
            and is_none(a.pml) == (not cli_has_pml()) and implies(cli_has_pml(), a.pml == cli_pml())
            and is_none(a.inter_stem_csv) == (not cli_has_inter_stem_csv()) and implies(cli_has_inter_stem_csv(), a.inter_stem_csv == cli_inter_stem_csv())
            and is_none(a.stems_csv) == (not cli_has_stems_csv()) and implies(cli_has_stems_csv(), a.stems_csv == cli_stems_csv()))


IO_ERRORS = ["OSError"] + LIB_ERRORS
FS_FIELDS = ["Fs.paths", "Fs.texts"]
NOTHING_YET = ["len(out()) == 0", "len(fs_paths()) == 0 and len(fs_texts()) == 0"]  # out() / fs_*() count from the start of the call


# ------------------------------------------------------------------------------------------------ annotator: writers
class write_bpseq_c:
    nonnull_params = True  # (an Optional path must be shown not to be None at the call site)
    """annotator.write_bpseq(path, <the BPSEQ text>) - the glue passes structure2d.bpseq, a str: str(bpseq) is that text"""
    params = {"path": "str", "bpseq": "str"}
    requires = []
    raises = ["OSError"]
    modifies = FS_FIELDS
    ensures = ["one_more_file(path, bpseq)"]
    ensures_labels = {0: "exactly-one-file-at-path-holding-the-given-text"}


class write_json_c:
    nonnull_params = True  # (an Optional path must be shown not to be None at the call site)
    """annotator.write_json(path, structure2d): one file at `path` holding orjson.dumps(structure2d)"""
    params = {"path": "str", "structure2d": "rec[Structure2D]"}
    requires = []
    raises = ["OSError"]
    modifies = FS_FIELDS
    ensures = ["one_more_file(path, json_of(structure2d))"]
    ensures_labels = {0: "exactly-one-file-at-path-holding-the-json-of-the-given-structure2d"}


class write_csv_c:
    nonnull_params = True  # (an Optional path must be shown not to be None at the call site)
    """ASSUMED: annotator.write_csv(path, structure2d): one file at `path` whose text is a function of the five interaction lists"""
    params = {"path": "str", "structure2d": "rec[Structure2D]"}
    requires = []
    raises = IO_ERRORS + ["AttributeError"]
    modifies = FS_FIELDS
    ensures = ["one_more_file(path, csv_of(structure2d))"]


class generate_pymol_script_c:
    """ASSUMED: annotator.generate_pymol_script(mapping, stems) -> a text, function of the mapping (object, fields) and the stems list"""
    params = {"mapping": "Mapping2D3D", "stems": "ElemList"}
    requires = []
    returns = "str"
    raises = LIB_ERRORS
    modifies = []
    ensures = ["result == pml_text(mapping, mapping.structure3d, mapping.base_pairs2d, mapping.stackings2d, mapping.find_gaps, stems.val)"]


class bp_from_string_c:
    """ASSUMED: BpSeq.from_string(text) -> an object holding bp_from_string(text)"""
    params = {"bpseq_str": "str"}
    requires = []
    returns = "BpSeq"
    raises = LIB_ERRORS
    modifies = []
    ensures = ["result.val == bp_from_string(bpseq_str)"]


class bp_graphviz_c:
    """ASSUMED: the cached property b.graphviz -> a text, function of b.val"""
    is_property = True
    params = {"self": "BpSeq"}
    requires = []
    returns = "str"
    raises = LIB_ERRORS + ["OSError"]
    modifies = []
    ensures = ["result == gv_text(self.val)"]


# ------------------------------------------------------------------------------------------------ annotator: handle_output_arguments
HOA_PARAMS = {"args": "Namespace", "structure2d": "rec[Structure2D]", "dot_brackets": "list[str]", "mapping": "Mapping2D3D", "input_filename": "str"}


class hoa_prefix:
    """annotator.handle_output_arguments up to (not including) `if args.inter_stem_csv:` - everything it prints and the files it
    writes through the library's own writers.  The rest of the body (two pandas DataFrame.to_csv exports, logging) contains no
    print and is NOT under contract."""
    params = HOA_PARAMS
    requires = NOTHING_YET
    stop_before = "if args.inter_stem_csv"
    raises = IO_ERRORS + ["AttributeError"]
    modifies = ["Stdout.lines"] + FS_FIELDS
    ensures = []
    max_paths = 512
    stop_ensures = [
        "implies(args.extended, len(out()) == 1 + b2i(given(args.dot)) and out()[0] == structure2d.extendedDotBracket)",
        "implies(not args.extended and args.all_dot_brackets, len(out()) == len(dot_brackets) + b2i(given(args.dot)) "
        "and forall(lambda j: implies(0 <= j and j < len(dot_brackets), out()[j] == dot_brackets[j])))",
        "implies(not args.extended and not args.all_dot_brackets, len(out()) == 1 + b2i(given(args.dot)) and out()[0] == structure2d.dotBracket)",
        "implies(given(args.dot), out()[len(out()) - 1] == gv_text(bp_from_string(structure2d.bpseq)))",
        "len(fs_paths()) == n_files(args) and len(fs_texts()) == n_files(args)",
        "implies(given(args.csv), fs_paths()[0] == args.csv and fs_texts()[0] == csv_of(structure2d))",
        "implies(given(args.json), fs_paths()[n_before_json(args)] == args.json and fs_texts()[n_before_json(args)] == json_of(structure2d))",
        "implies(given(args.bpseq), fs_paths()[n_before_bpseq(args)] == args.bpseq and fs_texts()[n_before_bpseq(args)] == structure2d.bpseq)",
        "implies(given(args.pml), fs_paths()[n_before_pml(args)] == args.pml and fs_texts()[n_before_pml(args)] == "
        "pml_text(mapping, mapping.structure3d, mapping.base_pairs2d, mapping.stackings2d, mapping.find_gaps, structure2d.stems.val))",
    ]
    stop_ensures_labels = {0: "-e:prints-exactly-the-extended-text", 1: "-a:prints-exactly-the-given-dot_brackets-one-per-print-in-order",
                           2: "neither:prints-exactly-structure2d.dotBracket", 3: "-d:then-the-graphviz-text-of-the-bpseq-text",
                           4: "files-written:one-per-given-option-csv-json-bpseq-pml", 5: "csv-file-from-structure2d",
                           6: "json-file-from-structure2d", 7: "bpseq-file-holds-structure2d.bpseq", 8: "pml-file-from-mapping-and-stems"}
    loops = {0: {"index": "n", "writes": ["Stdout.lines"], "inv": [
        "len(out()) == n",
        "forall(lambda j: implies(0 <= j and j < n, out()[j] == dot_brackets[j]), pats=['out()[j]'])",
    ], "labels": {0: "one-line-per-dot-bracket-so-far", 1: "line-j-is-dot_brackets[j]"}}}


class hoa_call:
    """ASSUMED (call sites only): handle_output_arguments may print and write files and raise; ghost results = its arguments.  Its
    requires are the prefix contract's (the callers prove them)."""
    params = HOA_PARAMS
    requires = NOTHING_YET
    ghost_returns = {"a": "Namespace", "s2": "rec[Structure2D]", "dbs": "list[str]", "m": "Mapping2D3D", "fn": "str"}
    raises = IO_ERRORS + ["AttributeError", "TypeError"]
    modifies = ["Stdout.lines"] + FS_FIELDS
    ensures = ["a is args", "s2 == structure2d", "dbs == dot_brackets", "m is mapping", "fn == input_filename"]


# ------------------------------------------------------------------------------------------------ mains
class add_common_c:
    """annotator.add_common_output_arguments(parser): registers the two flags and the seven options, nothing else"""
    params = {"parser": "Parser"}
    requires = []
    raises = []
    modifies = ["Parser.flags@parser", "Parser.optionals@parser"]  # (of this parser object only)
    ensures = [
        "forall(lambda k: (k in parser.flags) == (old(k in parser.flags) or k == 'all_dot_brackets' or k == 'extended'), sorts={'k': 'str'})",
        "forall(lambda k: (k in parser.optionals) == (old(k in parser.optionals) or k == 'bpseq' or k == 'csv' or k == 'json' or k == 'dot' "
        "or k == 'pml' or k == 'inter_stem_csv' or k == 'stems_csv'), sorts={'k': 'str'})",
    ]
    ensures_labels = {0: "flags:all_dot_brackets,extended", 1: "options:bpseq,csv,json,dot,pml,inter_stem_csv,stems_csv"}


class handle_input_file_c:
    """ASSUMED: util.handle_input_file(path) -> a readable file object over the content of the file at `path` (ghost src = path)"""
    params = {"path": "str"}
    requires = []
    returns = "InFile"
    raises = IO_ERRORS
    modifies = []
    ensures = ["result.src == path"]


class read_3d_structure_c:
    """ASSUMED: parser.read_3d_structure(file, None) -> the structure read from that file (all models)"""
    params = {"cif_or_pdb": "InFile", "model": "opt[int]"}
    defaults = {"model": None}
    requires = ["is_none(model)"]
    returns = "Structure3D"
    raises = IO_ERRORS
    modifies = []
    ensures = ["result.val == s3d_read(cif_or_pdb.src)"]


class process_external_main(process_external):
    """process_external_tool_output as proved above, plus ghost names for its arguments (trivially satisfiable additions)"""
    ghost_returns = {"s": "Structure3D", "p": "str", "t": "enum[ExternalTool]", "md": "opt[int]", "fg": "bool", "adb": "bool"}
    ensures = process_external.ensures + ["s is structure3d", "p == external_file_path", "t == tool", "md == model", "fg == find_gaps",
                                          "adb == all_dot_brackets"]


class extract_annotator_main(extract_annotator):
    """extract_secondary_structure as annotator.main needs it: only ghost names for its arguments (trivially satisfiable; implied by
    any contract).  The ghost mapping M of the proved contract is NOT exported: the engine assumes a ghost result that is a
    reference to be an object allocated before the call, which a mapping built inside the call is not."""
    ghost_returns = {"s": "Structure3D", "md": "opt[int]", "fg": "bool", "adb": "bool"}
    ghost_entry = []
    ghost_exit = []
    ensures = ["s is tertiary_structure", "md == model", "fg == find_gaps", "adb == all_dot_brackets"]
    ensures_labels = {}


MAIN_LABELS = {0: "structure-is-read-from-the-input-file-all-models",
               1: "library-called-with-that-structure-model-None-and-the-command-lines-flags",
               2: "output-stage-gets-exactly-the-librarys-structure2d-and-dot_brackets-and-the-input-name",
               3: "output-stage-gets-the-parsed-command-line",
               4: "output-stage-mapping"}


class main_adapter:
    """adapter.main: argparse glue around process_external_tool_output and handle_output_arguments"""
    params = {}
    callee_variants = {"process_external_tool_output": "main"}
    requires = NOTHING_YET
    raises = ["SystemExit"] + IO_ERRORS + ["AttributeError", "TypeError"]
    modifies = ["Stdout.lines"] + FS_FIELDS
    ensures = [
        "process_external_tool_output_s.val == s3d_read(cli_input())",
        "process_external_tool_output_p == cli_external() and implies(cli_tool() == 'fr3d', process_external_tool_output_t == FR3D) "
        "and implies(cli_tool() == 'dssr', process_external_tool_output_t == DSSR) and is_none(process_external_tool_output_md) "
        "and process_external_tool_output_fg == cli_find_gaps() and process_external_tool_output_adb == cli_all_dot_brackets()",
        "handle_output_arguments_s2 == process_external_tool_output_result[0] and handle_output_arguments_dbs == process_external_tool_output_result[1] "
        "and handle_output_arguments_fn == cli_input()",
        "namespace_is_cli(handle_output_arguments_a)",
        "handle_output_arguments_m is process_external_tool_output_result[2]",
    ]
    ensures_labels = MAIN_LABELS


class main_annotator:
    """annotator.main: argparse glue around extract_secondary_structure and handle_output_arguments"""
    params = {}
    callee_variants = {"extract_secondary_structure": "main"}
    requires = NOTHING_YET
    raises = ["SystemExit"] + IO_ERRORS + ["AttributeError", "TypeError"]
    modifies = ["Stdout.lines"] + FS_FIELDS
    ensures = [
        "extract_secondary_structure_s.val == s3d_read(cli_input())",
        "is_none(extract_secondary_structure_md) and extract_secondary_structure_fg == cli_find_gaps() "
        "and extract_secondary_structure_adb == cli_all_dot_brackets()",
        "handle_output_arguments_s2 == extract_secondary_structure_result[0] and handle_output_arguments_dbs == extract_secondary_structure_result[1] "
        "and handle_output_arguments_fn == cli_input()",
        "namespace_is_cli(handle_output_arguments_a)",
        "fresh(handle_output_arguments_m) and built_from(handle_output_arguments_m, extract_secondary_structure_s, "
        "handle_output_arguments_s2.baseInteractions, cli_find_gaps())",
    ]
    ensures_labels = MAIN_LABELS


CONTRACTS = {
    "Mapping2D3D.bpseq": m_bpseq_c, "Mapping2D3D.dot_bracket": m_dot_bracket_c, "Mapping2D3D.extended_dot_bracket": m_extended_c,
    "Mapping2D3D.all_dot_brackets": m_all_c, "BpSeq.elements": bp_elements_c, "BpSeq.all_dot_brackets": bp_all_c,
    "extract_secondary_structure_from_external": extract_external,
    "parse_fr3d_output": parse_fr3d_c, "parse_dssr_output": parse_dssr_c, "parse_external_output": parse_external_c,
    "process_external_tool_output": process_external,
    "find_pairs": find_pairs_c, "find_stackings": find_stackings_c,
    "extract_base_interactions": extract_base_interactions_c, "extract_base_interactions@call": extract_base_interactions_call,
    "extract_secondary_structure": extract_annotator,
    "write_bpseq": write_bpseq_c, "write_json": write_json_c, "write_csv": write_csv_c, "generate_pymol_script": generate_pymol_script_c,
    "BpSeq.from_string": bp_from_string_c, "BpSeq.graphviz": bp_graphviz_c,
    "handle_output_arguments": hoa_call, "handle_output_arguments@prefix": hoa_prefix,
    "add_common_output_arguments": add_common_c, "handle_input_file": handle_input_file_c, "read_3d_structure": read_3d_structure_c,
    "process_external_tool_output@main": process_external_main, "extract_secondary_structure@main": extract_annotator_main,
    "main@adapter": main_adapter, "main@annotator": main_annotator,
}
