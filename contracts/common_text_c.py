"""Sidecar contracts for rnapolis/common.py, BPSEQ text layer (C01, observe_at `BpSeq.from_string / __str__`).

Abstract text model.  A text is a Python str (SMT string); what the str methods used by the two functions DO with it is not
re-implemented but named by uninterpreted functions (EXTERNALS below, trusted base - every one is listed in props/C01.py):
  splitlines(t)   = t.splitlines()            list of str   (splitlines.n / splitlines.at)
  strip(s)        = s.strip()                 str           (py_strip)
  split(s)        = s.split()                 list of str   (wsplit.n / wsplit.at; split on runs of whitespace)
  int_of(s)       = int(s) where it is defined (py_int, the engine's own model of int(str): pyvc/calls.py ext_int_of_str)
  int_ok(s)       = "int(s) does not raise ValueError" (the engine's own condition)
  join_nl(L)      = "\n".join(L)              str           (py_join)
  "{} {} {}".format(i, c, j) is NOT abstract: it is str(i) + " " + c + " " + str(j) (Python: a replacement field without
  conversion / format spec inserts format(v, "") == str(v) for an int and for a str).
  rstrip(s)       = s.rstrip()                str           (py_rstrip)
  file_text(p) / file_lines(p)   what read() / readlines() of the file opened at path p return (functions of the path)
The contract of BpSeq.from_string (proved for every text) uses no property of these functions at all.  The round trip
(lemma bpseq_text_round_trip) needs the facts T1..T5 below (LEMMAS of kind "assumed-external", each listed in ASSUMPTIONS).

plain(s) (uninterpreted predicate; the DOMAIN of the round-trip clause): s is not empty and no character of s is whitespace in the sense of
str.isspace() (which includes every line boundary str.splitlines() knows).
"""
import string as _string

import z3 as _z3


def spec(f):
    return f


CLASSES = {
    # sequence is a general str here (not one character): from_string stores whatever the second column holds
    "Entry": {"kind": "object", "fields": {"index_": "int", "sequence": "str", "pair": "int"}},
    "BpSeq": {"kind": "object", "fields": {"entries": "list[Entry]", "pairs": "dict[int,int]"}, "derived": ["pairs"]},
    "DotBracket": {"kind": "object", "fields": {"sequence": "str", "structure": "str", "pairs": "list[tuple[int,int]]"}, "derived": ["pairs"]},
    "TextFile": {"kind": "object", "fields": {"path": "str"}},  # an open text file (read mode)
}
INLINE = ["Entry.__getitem__", "Entry.__len__"]

UFUNS = {
    "cnt": (["str", "int"], "int"),   # cnt(t, k): number of kept lines among the first k lines of t (definition: cnt_definition)
    "plain": (["str"], "bool"),       # non-empty, no whitespace character (see module docstring)
}


# ------------------------------------------------------------------------------------------------ externals (trusted base)
def _S():
    return _z3.StringSort()


def _is_sym_str(v):
    from pyvc.values import is_leaf
    return isinstance(v, str) or (_z3.is_expr(v) and is_leaf(v) and v.sort() == _z3.StringSort())


def ext_splitlines(e, args, kw, node, st):
    """ASSUMED contract of s.splitlines() (no keepends): a list of str that is a deterministic function of s (uninterpreted
    splitlines.n / splitlines.at), of length >= 0.  Nothing else."""
    from pyvc.values import Unsupported, VList, to_z3
    if len(args) != 1 or kw or not _is_sym_str(args[0]):
        raise Unsupported("str.splitlines: only s.splitlines() is modelled")
    if isinstance(args[0], str):
        return e.list_literal(args[0].splitlines(), ("str",))
    s = to_z3(args[0])
    n = e.ufun("splitlines.n", _S(), _z3.IntSort())(s)
    at = e.ufun("splitlines.at", _S(), _z3.ArraySort(_z3.IntSort(), _S()))(s)
    if st is not None:
        st.assume(n >= 0)
    return VList(n, at, ("str",))


ext_splitlines.pure = True


def ext_split(e, args, kw, node, st):
    """ASSUMED contract of s.split() WITHOUT arguments (split on runs of whitespace): a list of str that is a deterministic
    function of s (uninterpreted wsplit.n / wsplit.at), of length >= 0.  Nothing else."""
    from pyvc.values import Unsupported, VList, to_z3
    if len(args) != 1 or kw or not _is_sym_str(args[0]):
        raise Unsupported("str.split: only s.split() without arguments is modelled")
    if isinstance(args[0], str):
        return e.list_literal(args[0].split(), ("str",))
    s = to_z3(args[0])
    n = e.ufun("wsplit.n", _S(), _z3.IntSort())(s)
    at = e.ufun("wsplit.at", _S(), _z3.ArraySort(_z3.IntSort(), _S()))(s)
    if st is not None:
        st.assume(n >= 0)
    return VList(n, at, ("str",))


ext_split.pure = True


def ext_strip(e, args, kw, node, st):
    """ASSUMED contract of s.strip() without arguments: a deterministic function of s (uninterpreted py_strip).  Nothing else."""
    from pyvc.values import Unsupported, to_z3
    if len(args) != 1 or kw or not _is_sym_str(args[0]):
        raise Unsupported("str.strip(chars)")
    if isinstance(args[0], str):
        return args[0].strip()
    return e.ufun("py_strip", _S(), _S())(to_z3(args[0]))


ext_strip.pure = True


def ext_format(e, args, kw, node, st):
    """template.format(a, b, ..) for a CONSTANT template made of literal text and plain auto-numbered fields `{}` (no names,
    indices, conversions or format specs), as many fields as arguments, every argument an int (not bool) or a str:
    the literal pieces and str(argument) concatenated in order (a field without spec inserts format(v, '') == str(v))."""
    from pyvc.expr import is_int, is_str
    from pyvc.values import Unsupported
    if kw or not isinstance(args[0], str):
        raise Unsupported("str.format: only <constant template>.format(positional arguments)")
    parts, k = [], 0
    for lit, field, fspec, conv in _string.Formatter().parse(args[0]):
        if lit:
            parts.append(lit)
        if field is None:
            continue
        if field != "" or fspec or conv or k + 1 >= len(args):
            raise Unsupported("str.format: only plain `{}` fields, one per argument")
        v = args[k + 1]
        k += 1
        if isinstance(v, bool) or not (is_str(v) or is_int(v) or isinstance(v, int)):
            raise Unsupported("str.format: argument that is neither an int nor a str")
        parts.append(e.to_str(v))
    if k != len(args) - 1:
        raise Unsupported("str.format: more arguments than fields")  # (Python ignores them; not needed here)
    return e.concat_str(parts)


ext_format.pure = True


def ext_join(e, args, kw, node, st):
    """ASSUMED contract of "\\n".join(L) for a list L of str: a str that is a deterministic function of the list (uninterpreted
    py_join of length and element array).  Nothing else.  Ghost: the list joined last is kept under the ghost name JOINED
    (so that a postcondition can speak about "the lines that were joined")."""
    from pyvc.values import Unsupported, VList, to_z3
    if len(args) != 2 or kw or args[0] != "\n" or not isinstance(args[1], VList) or args[1].elems is None or args[1].eshape != ("str",):
        raise Unsupported('str.join: only "\\n".join(<list of str>) is modelled')
    L = args[1]
    f = e.ufun("py_join", _z3.IntSort(), _z3.ArraySort(_z3.IntSort(), _S()), _S())
    if st is not None:
        st.ghost["JOINED"] = L
    return f(to_z3(L.length), L.elems)


ext_join.pure = True


def ext_int_ok(e, args, kw, node, st):
    """spec-only: int(s) does not raise ValueError - the engine's own condition, obtained by running its model of int(s)
    (pyvc/calls.py ext_int_of_str) and collecting the ValueError condition it records"""
    from pyvc.expr import NOT, OR
    from pyvc.state import State
    from pyvc.values import to_z3
    saved = (e.spec, e.mayraise, e.guard)
    e.spec, e.mayraise, e.guard = False, [], []
    try:
        e.ext_int_of_str(to_z3(args[0]), None, State())
        conds = [c for c, exc, _ in e.mayraise if exc == "ValueError"]
    finally:
        e.spec, e.mayraise, e.guard = saved
    return NOT(OR(*conds))


def ext_int_of(e, args, kw, node, st):
    """spec-only: the value of int(s) in the engine's model (uninterpreted py_int)"""
    from pyvc.values import to_z3
    return e.ufun("py_int", _S(), _z3.IntSort())(to_z3(args[0]))


def ext_str_of(e, args, kw, node, st):
    """spec-only: str(i) of an int, the engine's encoding (pyvc/expr.py to_str)"""
    return e.to_str(args[0])


def ext_rstrip(e, args, kw, node, st):
    """ASSUMED contract of s.rstrip() without arguments: a deterministic function of s (uninterpreted py_rstrip).  Nothing else."""
    from pyvc.values import Unsupported, to_z3
    if len(args) != 1 or kw or not _is_sym_str(args[0]):
        raise Unsupported("str.rstrip(chars)")
    if isinstance(args[0], str):
        return args[0].rstrip()
    return e.ufun("py_rstrip", _S(), _S())(to_z3(args[0]))


ext_rstrip.pure = True


def ext_open(e, args, kw, node, st):
    """open(path) (text mode, reading): a new file object for that path; may fail with OSError.  The content of the file is a
    function of the path for the duration of the call: file_text(path) = what read() returns, file_lines(path) = what readlines()
    returns (uninterpreted; nothing is assumed about how the two relate)"""
    from pyvc.values import Unsupported, VRef, to_z3, uid
    if len(args) != 1 or kw or not _is_sym_str(args[0]):
        raise Unsupported("open(): only open(<path>) is modelled")
    e.may_raise(_z3.Bool(uid("os_error")), "OSError", node)
    f = VRef("TextFile", st.alloc)
    st.alloc = _z3.simplify(to_z3(st.alloc) + 1)
    e.heap_write(st, f, "path", args[0])
    return f


def ext_file_enter(e, args, kw, node, st):
    return args[0]


def ext_file_exit(e, args, kw, node, st):
    return False


def _file_lines(e, path, st=None):
    from pyvc.values import VList, to_z3
    p = to_z3(path)
    n = e.ufun("file_lines.n", _S(), _z3.IntSort())(p)
    if st is not None:
        st.assume(n >= 0)
    return VList(n, e.ufun("file_lines.at", _S(), _z3.ArraySort(_z3.IntSort(), _S()))(p), ("str",))


def ext_readlines(e, args, kw, node, st):
    from pyvc.values import Unsupported
    if len(args) != 1 or kw:
        raise Unsupported("readlines(hint)")
    return _file_lines(e, e.heap_read(st, args[0], "path"), st)


def ext_read(e, args, kw, node, st):
    from pyvc.values import Unsupported, to_z3
    if len(args) != 1 or kw:
        raise Unsupported("read(n)")
    return e.ufun("file_text", _S(), _S())(to_z3(e.heap_read(st, args[0], "path")))


ext_file_enter.pure = ext_file_exit.pure = ext_readlines.pure = ext_read.pure = True

EXTERNALS = {"str.rstrip": ext_rstrip, "builtins.open": ext_open, "TextFile.__enter__": ext_file_enter, "TextFile.__exit__": ext_file_exit,
             "TextFile.readlines": ext_readlines, "TextFile.read": ext_read,
             "spec.file_lines": lambda e, args, kw, node, st: _file_lines(e, args[0]),
             "spec.file_text": lambda e, args, kw, node, st: e.ufun("file_text", _S(), _S())(__import__("pyvc.values", fromlist=["to_z3"]).to_z3(args[0])),
             "str.splitlines": ext_splitlines, "str.split": ext_split, "str.strip": ext_strip, "str.format": ext_format,
             "str.join": ext_join, "spec.int_ok": ext_int_ok, "spec.int_of": ext_int_of, "spec.str_of": ext_str_of,
             "spec.join_nl": lambda e, args, kw, node, st: ext_join(e, ["\n"] + list(args), kw, node, st)}
SPEC_EXTERNALS = {"rstrip": "str.rstrip", "file_lines": "spec.file_lines", "file_text": "spec.file_text", "splitlines": "str.splitlines", "split": "str.split", "strip": "str.strip", "int_ok": "spec.int_ok",
                  "int_of": "spec.int_of", "str_of": "spec.str_of", "join_nl": "spec.join_nl"}


# ------------------------------------------------------------------------------------------------ spec vocabulary
@spec
def sline(t, k):
    """line k of the text, stripped"""
    return strip(splitlines(t)[k])


@spec
def kept(t, k):
    """line k is an entry line: not empty after stripping and exactly three whitespace-separated fields"""
    return len(sline(t, k)) != 0 and len(split(sline(t, k))) == 3


@spec
def fld(t, k, f):
    return split(sline(t, k))[f]


@spec
def numeric(t, k):
    """first and third field of line k are integer texts (int() accepts them)"""
    return int_ok(fld(t, k, 0)) and int_ok(fld(t, k, 2))


@spec
def cnt_def(t):
    return (cnt(t, 0) == 0
            and forall(lambda k: implies(k >= 0, cnt(t, k + 1) == cnt(t, k) + ite(kept(t, k), 1, 0)), pats=["cnt(t, k + 1)"]))


@spec
def parsed_upto(t, E, n):
    """E holds the entries of the kept lines among the first n lines, in file order: the entry of kept line k sits at position
    cnt(t, k) (the number of kept lines before it) and is (int(field 0), field 1, int(field 2))"""
    return (len(E) == cnt(t, n)
            and forall(lambda k: implies(0 <= k and k < n and kept(t, k),
                                         0 <= cnt(t, k) and cnt(t, k) < len(E)
                                         and E[cnt(t, k)].index_ == int_of(fld(t, k, 0))
                                         and E[cnt(t, k)].sequence == fld(t, k, 1)
                                         and E[cnt(t, k)].pair == int_of(fld(t, k, 2)))))


@spec
def parsed(t, E):
    return parsed_upto(t, E, len(splitlines(t)))


@spec
def bad_number(t):
    """some kept line has a first or third field that is not an integer text"""
    return exists(lambda k: 0 <= k and k < len(splitlines(t)) and kept(t, k) and not numeric(t, k), pats=["splitlines(t)[k]"])


@spec
def line_of(e):
    """the BPSEQ line of an entry: "i c j" """
    return str_of(e.index_) + " " + e.sequence + " " + str_of(e.pair)


@spec
def written(E, L, t):
    """t is the lines L joined by newlines, one line per entry, in order, line k being "i c j" of entry k"""
    return (len(L) == len(E) and t == join_nl(L)
            and forall(lambda k: implies(0 <= k and k < len(E), L[k] == line_of(E[k]))))


@spec
def new_entries(E):
    return forall(lambda x: implies(0 <= x and x < len(E), fresh(E[x])))


@spec
def three(a, b, c):
    """the text made of three fields joined by single blanks"""
    return a + " " + b + " " + c


@spec
def plain_symbols(E):
    """the domain of the round trip: every entry's symbol is a non-empty text without whitespace"""
    return forall(lambda k: implies(0 <= k and k < len(E), plain(E[k].sequence)))


@spec
def same_entries(E, R):
    return (len(R) == len(E)
            and forall(lambda k: implies(0 <= k and k < len(E), R[k].index_ == E[k].index_ and R[k].sequence == E[k].sequence
                                         and R[k].pair == E[k].pair)))


LEMMAS = {
    # definition by primitive recursion on k of the counting function used in the statement of from_string
    "cnt_definition": {"kind": "definition", "params": ["t"], "shapes": ["str"], "ensures": ["cnt_def(t)"]},
    # (the same definition, one step of it as a ground instance)
    "cnt_step": {"kind": "definition", "params": ["t", "k"], "shapes": ["str", "int"], "requires": ["k >= 0"],
                 "ensures": ["cnt(t, 0) == 0", "cnt(t, k + 1) == cnt(t, k) + ite(kept(t, k), 1, 0)"]},
    # ---- assumed facts about the Python str methods (needed by the round trip only; each one is listed in props/C01.py)
    # T1  "\n".join(L).splitlines() == L when every line is three plain fields joined by single blanks (such a line is not
    #     empty and holds no line boundary: every line boundary is whitespace, a blank is not a line boundary)
    "T1_join_splitlines": {"kind": "assumed-external", "params": ["L", "A", "B", "C"], "shapes": ["list[str]"] * 4,
                           "requires": ["len(A) == len(L) and len(B) == len(L) and len(C) == len(L)",
                                        "forall(lambda k: implies(0 <= k and k < len(L), plain(A[k]) and plain(B[k]) and plain(C[k]) "
                                        "and L[k] == three(A[k], B[k], C[k])))"],
                           "ensures": ["len(splitlines(join_nl(L))) == len(L)",
                                       "forall(lambda k: implies(0 <= k and k < len(L), splitlines(join_nl(L))[k] == L[k]), pats=['splitlines(join_nl(L))[k]'])"]},
    # T2  a text that neither starts nor ends with whitespace is its own strip()
    "T2_strip_three": {"kind": "assumed-external", "params": ["a", "b", "c"], "shapes": ["str"] * 3,
                       "requires": ["plain(a) and plain(b) and plain(c)"],
                       "ensures": ["strip(three(a, b, c)) == three(a, b, c)"]},
    # T3  split() of three whitespace-free non-empty fields joined by single blanks gives back the three fields
    "T3_split_three": {"kind": "assumed-external", "params": ["a", "b", "c"], "shapes": ["str"] * 3,
                       "requires": ["plain(a) and plain(b) and plain(c)"],
                       "ensures": ["len(split(three(a, b, c))) == 3", "split(three(a, b, c))[0] == a", "split(three(a, b, c))[1] == b",
                                   "split(three(a, b, c))[2] == c"]},
    # T4  the decimal text of an int is not empty and holds no whitespace (digits and possibly a leading '-')
    "T4_int_text_plain": {"kind": "assumed-external", "params": ["i"], "ensures": ["plain(str_of(i))"]},
    # T5  int(str(i)) == i for every int i (and int() accepts that text)
    "T5_int_of_int_text": {"kind": "assumed-external", "params": ["i"], "ensures": ["int_ok(str_of(i))", "int_of(str_of(i)) == i"]},
    # ---- proved by SMT
    # a text whose first n lines are all kept has counted n of them (induction on n over the definition of cnt)
    "cnt_all_kept": {"kind": "smt", "params": ["t", "n"], "shapes": ["str", "int"], "decreases": "n",
                     "requires": ["n >= 0", "forall(lambda k: implies(0 <= k and k < n, kept(t, k)))"],
                     "steps": ["use cnt_all_kept(t, n - 1) when n > 0", "use cnt_step(t, n - 1) when n > 0", "use cnt_step(t, 0)"],
                     "ensures": ["cnt(t, n) == n"]},
    # THE ROUND TRIP: for entries E with plain symbols, t = str(b) as BpSeq.__str__'s contract describes it (written) - then
    # from_string(t) does not raise (not bad_number) and whatever entry list R its contract describes (parsed) has E's entries
    "bpseq_text_round_trip": {
        "kind": "smt", "params": ["E", "L", "t", "R"], "shapes": ["list[Entry]", "list[str]", "str", "list[Entry]"],
        "requires": ["len(E) >= 0", "plain_symbols(E)", "written(E, L, t)"],
        "steps": [
            "let A = [str_of(e.index_) for e in E]", "let B = [e.sequence for e in E]", "let C = [str_of(e.pair) for e in E]",
            "forall k | use T4_int_text_plain(E[k].index_) | use T4_int_text_plain(E[k].pair) | assert implies(0 <= k and k < len(E), plain(A[k]) and plain(B[k]) and plain(C[k]) and L[k] == three(A[k], B[k], C[k]))",
            "use T1_join_splitlines(L, A, B, C)",
            "assert len(splitlines(t)) == len(E)",
            "forall k | use T2_strip_three(A[k], B[k], C[k]) when 0 <= k and k < len(E) | use T3_split_three(A[k], B[k], C[k]) when 0 <= k and k < len(E) "
            "| assert implies(0 <= k and k < len(E), kept(t, k) and fld(t, k, 0) == A[k] and fld(t, k, 1) == B[k] and fld(t, k, 2) == C[k])",
            "forall k | use T5_int_of_int_text(E[k].index_) | use T5_int_of_int_text(E[k].pair) | assert implies(0 <= k and k < len(E), numeric(t, k) "
            "and int_of(fld(t, k, 0)) == E[k].index_ and int_of(fld(t, k, 2)) == E[k].pair)",
            "assert not bad_number(t)",
            "forall k | use cnt_all_kept(t, k) when 0 <= k and k <= len(E) | assert implies(0 <= k and k <= len(E), cnt(t, k) == k)",
        ],
        "ensures": ["not bad_number(t)", "implies(parsed(t, R), same_entries(E, R))"]},
}


# ------------------------------------------------------------------------------------------------ contracts
class bpseq_post_init_any:
    """BpSeq.__post_init__ on ANY entry list (no precondition): the frame alone - only the pairs slot of self is written.
    (Needed because BpSeq(entries) runs it; what the dict holds is C12's business, contracts/common_elems_c.py.)"""
    target = "BpSeq.__post_init__"
    params = {"self": "BpSeq"}
    requires = []
    raises = []
    ensures = []
    modifies = ["BpSeq.pairs@self"]
    loops = {0: {"index": "p", "touches": {"BpSeq.pairs": ["self"]}, "inv": []}}


class from_string:
    """BpSeq.from_string(text), ANY text: the entries are exactly the kept lines (stripped, non-empty, three whitespace-separated
    fields) in file order, entry = (int(field 0), field 1, int(field 2)); every other line is skipped; ValueError exactly when
    a kept line has a first / third field that int() rejects"""
    target = "BpSeq.from_string"
    params = {"bpseq_str": "str"}
    requires = []
    returns = "BpSeq"
    raises = {"ValueError": "bad_number(bpseq_str)"}
    raises_exact = ["ValueError"]
    modifies = []
    locals = {"entries": "list[Entry]"}
    # numeral: a name for "int() accepts the text" (explicit definition, a conservative extension): the invariant mentions the
    # name, the regular-language condition itself occurs only in ground instances
    ghost_entry = ["use cnt_definition(bpseq_str)", "define numeral(s:str) = int_ok(s)"]
    ensures = ["fresh(result) and new_entries(result.entries)",
               "parsed(bpseq_str, result.entries)"]
    ensures_labels = {0: "new-objects", 1: "entries-are-the-three-column-lines-in-file-order"}
    loops = {0: {"index": "n", "inv": [
        "len(entries) >= 0 and new_entries(entries)",
        "parsed_upto(bpseq_str, entries, n)",
        "forall(lambda k: implies(0 <= k and k < n and kept(bpseq_str, k), numeral(fld(bpseq_str, k, 0)) and numeral(fld(bpseq_str, k, 2))))",
    ], "labels": {0: "entries-are-new", 1: "entries-of-the-lines-read-so-far", 2: "no-bad-number-so-far"}}}
    # the two int() calls can raise: what has to be shown there (this line is a witness of bad_number) needs none of the quantified
    # facts of the path (definition of cnt, invariants), which are set aside for that statement (hiding hypotheses is sound)
    ghost = [
        {"when": "before", "at": "entry = Entry(", "loop": 0, "label": "kept-line", "do": ["mark Q 0", "stash Q"]},
        {"when": "after", "at": "entry = Entry(", "loop": 0, "label": "kept-line", "do": ["unstash Q"]},
    ]


class bpseq_str:
    """BpSeq.__str__: one line "i c j" per entry, in order, joined by newlines (ghost result L: the lines)"""
    target = "BpSeq.__str__"
    params = {"self": "BpSeq"}
    requires = []
    returns = "str"
    ghost_returns = {"L": "list[str]"}
    raises = []
    modifies = []
    ghost_exit = ["let L = JOINED"]
    ensures = ["written(self.entries, L, result)"]
    ensures_labels = {0: "one-line-per-entry-joined-by-newlines"}


class bpseq_from_file:
    """BpSeq.from_file(path): BpSeq.from_string of the text read from the file"""
    target = "BpSeq.from_file"
    params = {"bpseq_path": "str"}
    requires = []
    returns = "BpSeq"
    raises = {"OSError": "?", "ValueError": "bad_number(file_text(bpseq_path))"}
    raises_exact = ["ValueError"]
    modifies = ["TextFile.path"]
    ensures = ["fresh(result) and new_entries(result.entries)", "parsed(file_text(bpseq_path), result.entries)"]
    ensures_labels = {0: "new-objects", 1: "entries-are-the-three-column-lines-of-the-file-in-file-order"}


class db_post_init_frame:
    """ASSUMED callee contract (not a target here; DotBracket.__post_init__ is proved in contracts/common_c.py, C01, under the
    one-character-list representation of the two texts): it writes only self.pairs and raises nothing but IndexError
    (unbalanced text)"""
    target = "DotBracket.__post_init__"
    params = {"self": "DotBracket"}
    requires = []
    raises = ["IndexError"]
    ensures = []
    modifies = ["DotBracket.pairs@self"]


class db_from_string:
    """DotBracket.from_string(sequence, structure): an object holding exactly the two texts; ValueError exactly when their
    lengths differ"""
    target = "DotBracket.from_string"
    params = {"sequence": "str", "structure": "str"}
    requires = []
    returns = "DotBracket"
    raises = {"ValueError": "len(sequence) != len(structure)", "IndexError": "?"}
    raises_exact = ["ValueError"]
    modifies = []
    ensures = ["fresh(result) and result.sequence == sequence and result.structure == structure"]
    ensures_labels = {0: "holds-the-two-texts"}


@spec
def fline(path, k):
    """line k of the file, trailing whitespace (the newline) removed"""
    return rstrip(file_lines(path)[k])


class db_from_file:
    """DotBracket.from_file(path): a 2-line file is (sequence, structure); a 3-line file is (header, sequence, structure), the
    header being ignored; trailing whitespace of the lines is removed; any other number of lines: RuntimeError"""
    target = "DotBracket.from_file"
    params = {"path": "str"}
    requires = []
    returns = "DotBracket"
    raises = {"OSError": "?", "IndexError": "?",
              "RuntimeError": "len(file_lines(path)) != 2 and len(file_lines(path)) != 3",
              "ValueError": "(len(file_lines(path)) == 2 and len(fline(path, 0)) != len(fline(path, 1))) or (len(file_lines(path)) == 3 and len(fline(path, 1)) != len(fline(path, 2)))"}
    raises_exact = ["RuntimeError", "ValueError"]
    modifies = ["TextFile.path"]
    ensures = ["implies(len(file_lines(path)) == 2, result.sequence == fline(path, 0) and result.structure == fline(path, 1))",
               "implies(len(file_lines(path)) == 3, result.sequence == fline(path, 1) and result.structure == fline(path, 2))",
               "len(file_lines(path)) == 2 or len(file_lines(path)) == 3"]
    ensures_labels = {0: "two-lines-sequence-structure", 1: "three-lines-header-sequence-structure", 2: "no-other-line-count-accepted"}


class multistrand_from_string:
    """MultiStrandDotBracket.from_string(text) - NOT ESTABLISHED, not a DEDUCTIVE target: the function is one `re.finditer` over a
    regular expression with lazy quantifiers and optional groups (what it produces per strand: for every non-overlapping match,
    left to right, of an optional '>' header line, a line of sequence letters and a line of bracket characters, one Strand(first,
    last, sequence, structure) numbered consecutively from 1, the whole object holding the concatenated texts; text between
    matches is skipped silently) followed by generator expressions over the strands.  The engine has no model of `re` matching
    (pyvc/regex.py is the spec-side regular-language subset, not Python's leftmost / lazy match semantics) and refuses the call;
    it is not approximated.  This stub only records the refusal (tools/try.py ... MultiStrandDotBracket.from_string)."""
    target = "MultiStrandDotBracket.from_string"
    params = {"input": "str"}
    requires = []
    raises = ["AssertionError"]
    ensures = []


CONTRACTS = {"MultiStrandDotBracket.from_string": multistrand_from_string, "BpSeq.from_file": bpseq_from_file, "DotBracket.__post_init__": db_post_init_frame, "DotBracket.from_string": db_from_string,
             "DotBracket.from_file": db_from_file, "BpSeq.__post_init__": bpseq_post_init_any, "BpSeq.from_string": from_string, "BpSeq.__str__": bpseq_str}
