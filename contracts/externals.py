"""Assumed contracts of external (third-party / stdlib) functions: the trusted base, declared once.
Each entry: key -> f(engine, args, kwargs, node, st) -> symbolic value.  Numeric semantics: real arithmetic (A-real)."""
from fractions import Fraction

import z3

from pyvc.expr import VVec, AND, OR, NOT
from pyvc.values import Unsupported, to_z3, uid, is_conc


def _vec(v):
    if isinstance(v, VVec):
        return v
    raise Unsupported(f"expected a fixed-length vector, got {type(v).__name__}")


def np_cross(e, args, kw, node, st):
    a, b = _vec(args[0]).c, _vec(args[1]).c
    return VVec([a[1] * b[2] - a[2] * b[1], a[2] * b[0] - a[0] * b[2], a[0] * b[1] - a[1] * b[0]])


def np_dot(e, args, kw, node, st):
    a, b = _vec(args[0]).c, _vec(args[1]).c
    return sum((x * y for x, y in zip(a[1:], b[1:])), a[0] * b[0])


def np_norm(e, args, kw, node, st):
    """numpy.linalg.norm(v): the non-negative n with n*n == v.v (memoised per vector term)"""
    v = _vec(args[0]).c
    key = tuple(x.get_id() for x in v)
    cache = e.__dict__.setdefault("_norm_cache", {})
    if key in cache:
        return cache[key]
    n = z3.Real(uid("norm"))
    sq = sum((x * x for x in v[1:]), v[0] * v[0])
    e.global_facts.append(z3.And(n >= 0, n * n == sq))
    cache[key] = n
    return n


def np_clip(e, args, kw, node, st):
    x, lo, hi = (to_z3(a, "real") for a in args[:3])
    return z3.If(x < lo, lo, z3.If(x > hi, hi, x))


def _atan2(e):
    return e.ufun("atan2", z3.RealSort(), z3.RealSort(), z3.RealSort())


def math_atan2(e, args, kw, node, st):
    y, x = to_z3(args[0], "real"), to_z3(args[1], "real")
    return _atan2(e)(y, x)


def math_isnan(e, args, kw, node, st):
    return False  # A-real: real-valued terms are never NaN


def math_degrees(e, args, kw, node, st):
    return e.ufun("degrees", z3.RealSort(), z3.RealSort())(to_z3(args[0], "real"))


def math_acos(e, args, kw, node, st):
    return e.ufun("acos", z3.RealSort(), z3.RealSort())(to_z3(args[0], "real"))


def np_array(e, args, kw, node, st):
    from pyvc.values import VTuple, VList
    v = args[0]
    items = e.conc_iter(v)
    if items is None:
        raise Unsupported("numpy.array of a symbolic-length sequence")
    return VVec(items)


NUMPY = {
    "numpy.cross": np_cross, "numpy.dot": np_dot, "numpy.linalg.norm": np_norm, "numpy.clip": np_clip,
    "numpy.arctan2": math_atan2, "numpy.array": np_array,
    "math.atan2": math_atan2, "math.isnan": math_isnan, "math.degrees": math_degrees, "math.acos": math_acos,
    "numpy.isnan": math_isnan,
}
