"""Sidecar contracts for rnapolis/common.py, part 3: BpSeq.all_dot_brackets (property C16; the C01 clause "each member of the
all-dot-brackets list").

Reuses the vocabulary and the proved contracts of contracts/common_c.py (valid, regions_match, regions_cover, crossing,
proper, lossless, painted_g ... and the contracts of BpSeq.__regions, BpSeq.fcfs, BpSeq.__make_dot_bracket,
DotBracket.from_string@painted) by import; the @spec functions of both files are loaded (`__file_spec__` is a list).

Modelling decisions (each one is listed in props/C16.py TRUSTED / ASSUMPTIONS)
  * frozenset(d.items()) for a dict d: int -> int is an *interned value*: an integer identity s whose content is given by the
    uninterpreted functions fs_has(s, k) (k is a key) and fs_at(s, k) (its value).  The assumed contract of the constructor
    is "there is such a value with exactly the content of d".  Equal identities have equal content (so == / hash of the
    real frozensets is refined by identity); the converse "equal content => same identity" is NOT assumed, so a set of such
    values may hold several identities with the same content: the model admits more members than Python does, never fewer
    (sound for every statement about *all* members; the "without repetition" clause is out of its reach).
  * set of DotBracket objects: DotBracket has a value __eq__/__hash__ over (sequence, structure); the set is modelled as a
    set of object identities, which again only admits more members (value-duplicates) than Python does.
  * itertools.combinations / permutations / product, dict.update, sorted(key=..): assumed contracts below (EXTERNALS); the order of
    two structure texts is the uninterpreted relation text_le (no order on lists of characters in the spec language).
  * tuples produced by permutations()/product() are modelled as immutable sequences (lists) - the code under contract only
    takes len() of them, indexes them and iterates over them.
"""
import z3

from contracts.common_c import *  # noqa: F401,F403
from contracts import common_c as _c
from contracts.mapping_c import _defaultdict


def spec(f):
    return f


__file_spec__ = [_c.__file__, __file__]

CLASSES = dict(_c.CLASSES)
LEMMAS = dict(_c.LEMMAS)
UFUNS = dict(_c.UFUNS)
INLINE = list(_c.INLINE)
CONTRACTS = dict(_c.CONTRACTS)
SPEC_CONSTS = dict(_c.SPEC_CONSTS)
STABLE_BINDERS = True  # the same clause text over the same values is the identical term (engine._quant)

UFUNS.update({
    "fs_has": (["int", "int"], "bool"),   # key k occurs in the interned frozenset-of-items s
    "fs_at": (["int", "int"], "int"),     # ... and its value
    "groups_small": (["int"], "bool"),    # property quantifier: every group of mutually crossing stems has few (<= 30) stems
    "srt": (["int", "int"], "int"),       # srt(c, t): the position, in component c, of its t-th stem in the order of the levels F
    "srti": (["int", "int"], "int"),      # ... and the inverse
    "text_le": (["int", "int"], "bool"),  # x.structure <= y.structure for two DotBracket objects (Python's order on str)
})


# ------------------------------------------------------------------------------------------------ assumed externals
def _ints(*names):
    from pyvc.values import uid
    return [z3.Int(uid(n)) for n in names]


def _combinations(e, args, kw, node, st):
    """ASSUMED contract of itertools.combinations(range(lo, hi), 2): the list of all pairs (a, b), lo <= a < b < hi, in
    lexicographic order (hence each once).  Completeness in Skolem form: pos[a][b] is the position of the pair (a, b)."""
    from pyvc.values import Unsupported, VRange, fresh, sel, to_z3, uid
    if len(args) != 2 or kw or not isinstance(args[0], VRange) or args[1] != 2 or e.binders:
        raise Unsupported("itertools.combinations: only combinations(range(..), 2) at statement level is modelled")
    lo, hi = to_z3(args[0].lo), to_z3(args[0].hi)
    C = fresh(("list", ("tuple", (("int",), ("int",)))), uid("comb"))
    L = to_z3(C.length)
    q, w, a, b = _ints("q", "w", "a", "b")
    fst = lambda t: sel(C.elems, t).items[0]
    snd = lambda t: sel(C.elems, t).items[1]
    pos = z3.Const(uid("comb.pos"), z3.ArraySort(z3.IntSort(), z3.ArraySort(z3.IntSort(), z3.IntSort())))
    at = lambda x, y: z3.Select(z3.Select(pos, x), y)
    st.assume(L >= 0)
    st.assume(z3.ForAll([q], z3.Implies(z3.And(q >= 0, q < L), z3.And(lo <= fst(q), fst(q) < snd(q), snd(q) < hi))))
    st.assume(z3.ForAll([q, w], z3.Implies(z3.And(q >= 0, q < w, w < L),
                                           z3.Or(fst(q) < fst(w), z3.And(fst(q) == fst(w), snd(q) < snd(w))))))
    st.assume(z3.ForAll([a, b], z3.Implies(z3.And(lo <= a, a < b, b < hi),
                                           z3.And(at(a, b) >= 0, at(a, b) < L, fst(at(a, b)) == a, snd(at(a, b)) == b))))
    e.last_comb_pos = pos
    return C


def _comb_pos(e, args, kw, node, st):
    """spec view of the Skolem function of the combinations() call evaluated last: position of the pair (a, b)"""
    from pyvc.values import to_z3
    return z3.Select(z3.Select(e.last_comb_pos, to_z3(args[0])), to_z3(args[1]))


def _permutations(e, args, kw, node, st):
    """ASSUMED contract of itertools.permutations(L): a list of sequences, each of them L rearranged by a bijection of the
    positions (src = the bijection, inv = its inverse), and every such rearrangement occurs."""
    from pyvc.values import Unsupported, VList, fresh, sel, to_z3, uid
    if len(args) != 1 or kw or not isinstance(args[0], VList) or args[0].elems is None or args[0].eshape != ("int",) or e.binders:
        raise Unsupported("itertools.permutations: only permutations(<list of int>) at statement level is modelled")
    comp = args[0]
    m = to_z3(comp.length)
    PS = fresh(("list", ("list", ("int",))), uid("perms"))
    L = to_z3(PS.length)
    q, i = _ints("q", "i")
    A2 = z3.ArraySort(z3.IntSort(), z3.ArraySort(z3.IntSort(), z3.IntSort()))
    src, inv = z3.Const(uid("perm.src"), A2), z3.Const(uid("perm.inv"), A2)
    S = lambda t, x: z3.Select(z3.Select(src, t), x)
    V = lambda t, x: z3.Select(z3.Select(inv, t), x)
    row = lambda t: sel(PS.elems, t)
    st.assume(L >= 0)
    st.assume(z3.ForAll([q], z3.Implies(z3.And(q >= 0, q < L), to_z3(row(q).length) == m)))
    st.assume(z3.ForAll([q, i], z3.Implies(z3.And(q >= 0, q < L, i >= 0, i < m),
                                           z3.And(S(q, i) >= 0, S(q, i) < m, V(q, i) >= 0, V(q, i) < m,
                                                  z3.Select(row(q).elems, i) == z3.Select(comp.elems, S(q, i)),
                                                  S(q, V(q, i)) == i, V(q, S(q, i)) == i))))
    # every rearrangement occurs.  Stated for the rearrangements the sidecar can name: for every c such that srt(c, .) is a
    # bijection of the positions (srti(c, .) its inverse), pos(c) is a position of [L[srt(c, 0)], L[srt(c, 1)], ..] in the
    # result.  (That it occurs only once is not needed and not assumed.)
    c = z3.Int(uid("c"))
    srt, srti = e.ufuns["srt"], e.ufuns["srti"]
    pos = z3.Function(uid("perm.pos"), z3.IntSort(), z3.IntSort())
    bij = z3.ForAll([i], z3.Implies(z3.And(i >= 0, i < m), z3.And(srt(c, i) >= 0, srt(c, i) < m, srti(c, i) >= 0, srti(c, i) < m,
                                                                  srt(c, srti(c, i)) == i, srti(c, srt(c, i)) == i)))
    st.assume(z3.ForAll([c], z3.Implies(bij, z3.And(pos(c) >= 0, pos(c) < L, z3.ForAll([i], z3.Implies(
        z3.And(i >= 0, i < m), z3.Select(row(pos(c)).elems, i) == z3.Select(comp.elems, srt(c, i)))))), patterns=[pos(c)]))
    e.last_perm = {"src": src, "inv": inv, "list": PS, "of": comp, "pos": pos}
    return PS


def _perm_pos(e, args, kw, node, st):
    """spec view: the position, in the result of the permutations() call evaluated last, of the rearrangement srt(c, .)"""
    from pyvc.values import to_z3
    return e.last_perm["pos"](to_z3(args[0]))


def _perm_src(e, args, kw, node, st):
    from pyvc.values import to_z3
    return z3.Select(z3.Select(e.last_perm["src"], to_z3(args[0])), to_z3(args[1]))


def _perm_inv(e, args, kw, node, st):
    from pyvc.values import to_z3
    return z3.Select(z3.Select(e.last_perm["inv"], to_z3(args[0])), to_z3(args[1]))


def _product(e, args, kw, node, st):
    """ASSUMED contract of itertools.product(*U) for a list U of sets: a list of sequences of length len(U) whose c-th
    component is a member of U[c], and every such choice occurs."""
    from pyvc.calls import VStarArgs
    from pyvc.values import Unsupported, VList, VSet, fresh, sel, to_z3, uid
    if len(args) != 1 or kw or not isinstance(args[0], VStarArgs) or args[0].lst.eshape != ("set", ("int",)) or e.binders:
        raise Unsupported("itertools.product: only product(*<list of sets of int>) at statement level is modelled")
    U = args[0].lst
    n = to_z3(U.length)
    PR = fresh(("list", ("list", ("int",))), uid("prod"))
    L = to_z3(PR.length)
    q, c = _ints("q", "c")
    row = lambda t: sel(PR.elems, t)
    st.assume(L >= 0)
    st.assume(z3.ForAll([q], z3.Implies(z3.And(q >= 0, q < L), to_z3(row(q).length) == n)))
    st.assume(z3.ForAll([q, c], z3.Implies(z3.And(q >= 0, q < L, c >= 0, c < n),
                                           sel(sel(U.elems, c).mem, z3.Select(row(q).elems, c)))))
    # every choice occurs: for a sequence g with g[c] in U[c] for all c, pos(g) is a position of g in the result
    g = z3.Const(uid("g"), z3.ArraySort(z3.IntSort(), z3.IntSort()))
    pos = z3.Function(uid("prod.pos"), g.sort(), z3.IntSort())
    choice = z3.ForAll([c], z3.Implies(z3.And(c >= 0, c < n), sel(sel(U.elems, c).mem, g[c])))
    st.assume(z3.ForAll([g], z3.Implies(choice, z3.And(pos(g) >= 0, pos(g) < L, z3.ForAll([c], z3.Implies(
        z3.And(c >= 0, c < n), z3.Select(row(pos(g)).elems, c) == g[c])))), patterns=[pos(g)]))
    e.last_prod = {"list": PR, "of": U, "pos": pos}
    return PR


def _prod_pos(e, args, kw, node, st):
    """spec view: the position of the sequence g (a list) in the result of the product() call evaluated last"""
    return e.last_prod["pos"](args[0].elems)


def _frozenset(e, args, kw, node, st):
    """ASSUMED contract of frozenset(d.items()) for d: dict int -> int: an interned value s (see the module docstring) with
    fs_has(s, k) == (k in d) and fs_at(s, k) == d[k] for the keys of d"""
    from pyvc.calls import VDictView
    from pyvc.values import Unsupported, sel, to_z3, uid
    if len(args) != 1 or kw or not isinstance(args[0], VDictView) or args[0].which != "items" or e.binders \
            or args[0].d.kshape != ("int",) or args[0].d.vshape != ("int",):
        raise Unsupported("frozenset(): only frozenset(<dict int -> int>.items()) at statement level is modelled")
    d = args[0].d
    s, k = z3.Int(uid("fs")), z3.Int(uid("k"))
    has, at = e.ufuns["fs_has"], e.ufuns["fs_at"]
    st.assume(z3.ForAll([k], z3.And(has(s, k) == sel(d.dom, k), z3.Implies(sel(d.dom, k), at(s, k) == to_z3(sel(d.vals, k))))))
    e.last_fs = s
    return s


def _last_fs(e, args, kw, node, st):
    """spec view: the value made by the frozenset() call evaluated last"""
    return e.last_fs


def _dict_update(e, args, kw, node, st):
    """ASSUMED contract of d.update(s) for an interned frozenset-of-items s (every key occurs in at most one item of s, as
    in every value made by frozenset(d.items())): the keys of s are set to their values in s, other keys keep theirs.  The
    insertion order of the result is left unknown."""
    from pyvc.values import Unsupported, VDict, is_leaf, sel, to_z3, uid
    d, s = args[0], args[1] if len(args) == 2 else None
    if s is None or kw or not (is_leaf(s) and s.sort() == z3.IntSort()) or d.kshape != ("int",) or d.vshape != ("int",):
        raise Unsupported("dict.update: only update(<interned frozenset of items>) on a dict int -> int is modelled")
    k = z3.Int(uid("k"))
    has, at = e.ufuns["fs_has"], e.ufuns["fs_at"]
    dom = z3.Lambda([k], z3.Or(sel(d.dom, k), has(s, k)))
    vals = z3.Lambda([k], z3.If(has(s, k), at(s, k), to_z3(sel(d.vals, k))))
    e.assign_to(node.func.value, VDict(d.kshape, d.vshape, dom, vals, None, d.default), st, node)
    return None


def _sorted_keyed(e, args, kw, node, st):
    """ASSUMED (documented) contract of sorted(S, key=lambda d: <expr over d>[, reverse=<constant>]) for a set S of objects: a list
    holding exactly the members of S, each once, non-decreasing in the key (non-increasing with reverse=True).  Keys that are
    texts cannot be compared in the spec language (no order on lists of characters): the order of the keys is an uninterpreted
    relation over the objects - text_le(x, y), standing for x.structure <= y.structure, when the key is `d.structure`, and a
    relation of its own for any other key expression (so that nothing about text_le follows from a sort by another key).
    Assumes the key function raises nothing."""
    import ast as _ast
    from pyvc.values import Unsupported, VFunc, VSet, sel, to_z3, uid
    key, rev = kw.get("key"), kw.get("reverse", False)
    if len(args) != 1 or not isinstance(args[0], VSet) or args[0].kshape[0] != "ref" or set(kw) - {"key", "reverse"} \
            or not isinstance(rev, bool) or not (isinstance(key, VFunc) and key.kind == "lambda") or e.binders:
        raise Unsupported("sorted(): only sorted(<set of objects>, key=<lambda>[, reverse=<constant>]) is modelled here")
    lam = key.payload[0]
    if len(lam.args.args) != 1:
        raise Unsupported("sorted(): key function of one argument expected")
    par, body = lam.args.args[0].arg, lam.body
    if isinstance(body, _ast.Attribute) and isinstance(body.value, _ast.Name) and body.value.id == par and body.attr == "structure":
        le = e.ufuns["text_le"]
    else:
        canon = _ast.unparse(body).replace(par, "_")
        le = e.ufun("key_le[" + canon + "]", z3.IntSort(), z3.IntSort(), z3.BoolSort())
    L = e.set_enumeration(args[0], st)
    q, r = _ints("q", "r")
    at = lambda t: to_z3(sel(L.elems, t).ident)
    st.assume(z3.ForAll([q, r], z3.Implies(z3.And(q >= 0, q < r, r < to_z3(L.length)), le(at(r), at(q)) if rev else le(at(q), at(r)))))
    return L


def _plain(e, args, kw, node, st):
    """spec view plain(d) of a defaultdict d: the same keys and values as an ordinary dict (a read of a missing key in a
    specification is then just an unspecified value instead of the default) - keeps the terms of ghost copies small"""
    from pyvc.values import VDict
    d = args[0]
    return VDict(d.kshape, d.vshape, d.dom, d.vals, d.order, None)


EXTERNALS = {
    "collections.defaultdict": _defaultdict,
    "builtins.sorted": _sorted_keyed,
    "itertools.combinations": _combinations,
    "itertools.permutations": _permutations,
    "itertools.product": _product,
    "builtins.frozenset": _frozenset,
    "dict.update": _dict_update,
    "spec.comb_pos": _comb_pos, "spec.perm_src": _perm_src, "spec.perm_inv": _perm_inv, "spec.plain": _plain, "spec.last_fs": _last_fs, "spec.perm_pos": _perm_pos, "spec.prod_pos": _prod_pos,
}
SPEC_EXTERNALS = {"comb_pos": "spec.comb_pos", "perm_src": "spec.perm_src", "perm_inv": "spec.perm_inv", "plain": "spec.plain", "last_fs": "spec.last_fs", "perm_pos": "spec.perm_pos", "prod_pos": "spec.prod_pos"}


# ------------------------------------------------------------------------------------------------ vocabulary
@spec
def cross(R, a, b):
    """stems a and b of the region list R cross (form a pseudoknot)"""
    return crossing(R[a][0], R[a][1], R[b][0], R[b][1])


@spec
def adj(G, x, y):
    return x in G and y in G[x]


@spec
def graph_sound(G, R):
    """every key of the conflict graph is a stem, every edge joins two crossing stems and is stored in both directions"""
    return (forall(lambda x: implies(x in G, 0 <= x and x < len(R)))
            and forall(lambda x, y: implies(x in G and y in G[x], y in G and x in G[y] and 0 <= y and y < len(R) and cross(R, x, y))))


@spec
def graph_complete_upto(G, R, c):
    """every crossing pair among the first c pairs enumerated by combinations() is an edge (both directions)"""
    return forall(lambda a, b: implies(0 <= a and a < b and b < len(R) and comb_pos(a, b) < c and cross(R, a, b),
                                       a in G and b in G[a] and b in G and a in G[b]))


@spec
def graph_complete(G, R):
    """j in graph[i] whenever stems i and j cross"""
    return forall(lambda a, b: implies(0 <= a and a < len(R) and 0 <= b and b < len(R) and cross(R, a, b), a in G and b in G[a]),
                  pats=[["R[a][0]", "R[b][0]"]])


@spec
def same_graph(g, G):
    """the (defaultdict) graph g still has the keys and the adjacency sets of G"""
    return (forall(lambda x: (x in g) == (x in G))
            and forall(lambda x, y: implies(x in G, (y in g[x]) == (y in G[x]))))


@spec
def knot_free(R):
    return forall(lambda a, b: implies(0 <= a and a < len(R) and 0 <= b and b < len(R), not cross(R, a, b)))


@spec
def round_only(s):
    """the text uses only round brackets and dots"""
    return forall(lambda x: implies(0 <= x and x < len(s), s[x] == '(' or s[x] == ')' or s[x] == '.'))


@spec
def fc_is(R, L):
    """L lists the first-come-first-served levels of the stems R (FC, characterised by FC_def(R)), all of them bracket types"""
    return FC_def(R) and forall(lambda a: implies(0 <= a and a < len(R), FC(a) < 30 and L[a] == FC(a)))


@spec
def member_ok(E, d):
    """C01 for one member: right length and sequence, decodes to exactly the structure's base pairs"""
    return len(d.structure) == len(E) and seq_of(E, d.sequence) and lossless(E, d.pairs)


@spec
def comps_ok(comps, G, CI, CP):
    """the component lists partition the vertices (ghost inverse maps: vertex x is entry CP[x] of component CI[x]; the entries
    of component c are vertices x with CI[x] == c, none of them twice), every component is non-empty and no edge joins two
    different components"""
    return (forall(lambda x: implies(x in G, 0 <= CI[x] and CI[x] < len(comps)), pats=["CI[x]"])
            and forall(lambda x: implies(x in G, 0 <= CP[x] and CP[x] < len(comps[CI[x]]) and comps[CI[x]][CP[x]] == x), pats=["CP[x]"])
            and forall(lambda c, p: implies(0 <= c and c < len(comps) and 0 <= p and p < len(comps[c]),
                                            comps[c][p] in G and CI[comps[c][p]] == c), pats=["comps[c][p]"])
            and forall(lambda c, p, r: implies(0 <= c and c < len(comps) and 0 <= p and p < r and r < len(comps[c]),
                                               comps[c][p] != comps[c][r]))
            and forall(lambda c: implies(0 <= c and c < len(comps), len(comps[c]) >= 1))
            and forall(lambda x, y: implies(x in G and y in G[x], CI[y] == CI[x])))


@spec
def fs_good(s, c, G, CI, comps):
    """soundness of one recorded assignment s of component c: it assigns a level below the component's size to exactly the
    component's stems, is proper (crossing stems on different levels) and greedy-stable: every stem sits on the lowest
    level not taken by a crossing stem (of a lower level).  tg(x, l) is identically True (`define tg(x, l) = True` at
    function entry): it only gives the solver a term to instantiate the clause by."""
    return (forall(lambda x: fs_has(s, x) == (x in G and CI[x] == c))
            and forall(lambda x: implies(x in G and CI[x] == c, 0 <= fs_at(s, x) and fs_at(s, x) < len(comps[c])))
            and forall(lambda x, y: implies(x in G and CI[x] == c and y in G[x], fs_at(s, x) != fs_at(s, y)))
            and forall(lambda x, l: implies(tg(x, l) and x in G and CI[x] == c and 0 <= l and l < fs_at(s, x),
                                            exists(lambda y: y in G[x] and fs_at(s, y) == l)), pats=["tg(x, l)"]))


@spec
def greedy_stable(R, O):
    """C16: every stem sits on the lowest level not taken by a crossing stem of a lower level: each level l below the level
    of stem a is the level of a stem b crossing a.  (tg(a, l) is identically True, see fs_good.)"""
    return forall(lambda a, l: implies(tg(a, l) and 0 <= a and a < len(R) and 0 <= l and l < O[a],
                                       exists(lambda b: 0 <= b and b < len(R) and cross(R, a, b) and O[b] == l)), pats=["tg(a, l)"])


@spec
def sorted_by(p, F):
    """the levels F are non-decreasing along the sequence p of stems"""
    return forall(lambda b, d: implies(0 <= b and b < d and d < len(p), F[p[b]] <= F[p[d]]))


@spec
def agree(s, F, c, G, CI):
    """the recorded assignment s gives every stem of component c its level in F"""
    return forall(lambda x: implies(x in G and CI[x] == c, fs_at(s, x) == F[x]))


LEMMAS.update({
    # corollary material for "the list always contains the FCFS notation": the first-come-first-served levels FC (contracts.
    # common_c: FC_def, the characterisation proved for BpSeq.fcfs) are a proper greedy-stable assignment, so by the
    # completeness clause of all_dot_brackets their painting is a member.  Proved by SMT.
    "fcfs_levels_are_proper_and_greedy_stable": {
        "kind": "smt", "params": ["R", "L"], "shapes": ["list[tuple[int,int,int]]", "list[int]"],
        "requires": ["fc_is(R, L)"],
        "steps": ["define tg(x, l) = True",
                  "forall a, b | assert implies(0 <= b and b < a and a < len(R) and cross(R, a, b), taken(a, FC(b)))"
                  " | assert implies(0 <= b and b < a and a < len(R) and cross(R, a, b), FC(a) != FC(b))",
                  "forall a, l | assert implies(0 <= a and a < len(R) and 0 <= l and l < FC(a), taken(a, l))"
                  " | assert implies(tg(a, l) and 0 <= a and a < len(R) and 0 <= l and l < FC(a), "
                  "exists(lambda b: 0 <= b and b < len(R) and cross(R, a, b) and FC(b) == l))"],
        "ensures": ["proper(R, L)", "greedy_stable(R, L)"]},
    # every finite list can be sorted by a key: srt(c, .) rearranges the positions of component c so that the levels F do not
    # decrease.  ASSUMED (mathematical fact; srt / srti are otherwise unconstrained symbols, one pair per component).
    "sorted_rearrangement": {"kind": "definition", "params": ["C", "F", "c"],
                             "ensures": ["forall(lambda t: implies(0 <= t and t < len(C), 0 <= srt(c, t) and srt(c, t) < len(C) and 0 <= srti(c, t) "
                                         "and srti(c, t) < len(C) and srt(c, srti(c, t)) == t and srti(c, srt(c, t)) == t))",
                                         "forall(lambda t, u: implies(0 <= t and t < u and u < len(C), F[C[srt(c, t)]] <= F[C[srt(c, u)]]))"]},
    # property quantifier ("groups of mutually crossing stems have at most 8 stems"), in the form the proof consumes: the
    # component lists - proved duplicate-free lists of stems of one group - have at most 30 entries.  ASSUMED (cardinality /
    # pigeonhole step from "at most 8 stems in a group" to "a duplicate-free list of them has at most 8 entries").
    "groups_small_definition": {"kind": "definition", "params": ["s", "C"],
                                "ensures": ["implies(groups_small(s), forall(lambda c: implies(0 <= c and c < len(C), len(C[c]) <= 30)))"]},
})


# ------------------------------------------------------------------------------------------------ __make_dot_bracket on a dict
class make_dot_bracket_dict(_c.make_dot_bracket):
    """the contract of BpSeq.__make_dot_bracket (common_c.make_dot_bracket) read over `orders` given as a dict stem -> level
    (all_dot_brackets passes a dict; the body only evaluates orders[i] for i in range(len(regions))).  Same requires /
    ensures; `len(orders) >= len(regions)` becomes "every stem is a key".  Verified against the same real body."""
    params = {"self": "BpSeq", "regions": "list[tuple[int,int,int]]", "orders": "dict[int,int]"}
    requires = ["valid(self.entries)", "regions_match(self.entries, regions)", "regions_cover(self.entries, regions, GS)",
                "forall(lambda a: implies(0 <= a and a < len(regions), a in orders))", "proper(regions, orders)"]
    ghost = [dict(g) for g in _c.make_dot_bracket.ghost if g.get("label") != "call"] + [
        {"when": "before", "at": "return DotBracket.from_string", "label": "call",
         "do": ["let R = regions", "let O = [orders[a] for a in range(len(regions))]"]}]


# ------------------------------------------------------------------------------------------------ BpSeq.all_dot_brackets
DFS = [
    "same_graph(graph, GR)",
    "forall(lambda x: (x in visited) == (x in GR))",
    "len(components) >= 0",
    # ghost inverse maps: a visited vertex x is entry CP[x] of component CI[x] ...
    # (explicit triggers: with the default ones these clauses and the next would instantiate each other for ever)
    "forall(lambda x: implies(x in GR and visited[x], 0 <= CI[x] and CI[x] < len(components)), pats=['CI[x]'])",
    "forall(lambda x: implies(x in GR and visited[x], 0 <= CP[x] and CP[x] < len(components[CI[x]]) "
    "and components[CI[x]][CP[x]] == x), pats=['CP[x]'])",
    # ... every entry of component c is a visited vertex x with CI[x] == c, and no vertex occurs twice in a component
    "forall(lambda c, p: implies(0 <= c and c < len(components) and 0 <= p and p < len(components[c]), components[c][p] in GR "
    "and visited[components[c][p]] and CI[components[c][p]] == c), pats=['components[c][p]'])",
    "forall(lambda c, p, r: implies(0 <= c and c < len(components) and 0 <= p and p < r and r < len(components[c]), "
    "components[c][p] != components[c][r]))",
    "forall(lambda c: implies(0 <= c and c < len(components), len(components[c]) >= 1))",
    "forall(lambda q: implies(0 <= q and q < v1, visited[vertices[q]]))",
]

STACK = [  # while-loop of the DFS (the component being built is the last one)
    "len(components) >= 1 and vertex in GR and visited[vertex]",
    # closure of the finished components and of the finished (popped) vertices of the current one
    "forall(lambda x, y: implies(x in GR and visited[x] and y in GR[x] and (CI[x] < len(components) - 1 or DN[x] == 1), "
    "visited[y] and CI[y] == CI[x]))",
    # the stack holds distinct vertices of the current component, among them every unfinished one (SP = its ghost position)
    "len(stack) >= 0",
    # (explicit triggers: the two clauses below would otherwise instantiate each other for ever)
    "forall(lambda t: implies(0 <= t and t < len(stack), stack[t] in GR and visited[stack[t]] and "
    "CI[stack[t]] == len(components) - 1), pats=['stack[t]'])",
    "forall(lambda t, u: implies(0 <= t and t < u and u < len(stack), stack[t] != stack[u]))",
    "forall(lambda x: implies(x in GR and visited[x] and CI[x] == len(components) - 1 and DN[x] != 1, "
    "0 <= SP[x] and SP[x] < len(stack) and stack[SP[x]] == x), pats=['SP[x]', 'DN[x]'])"]

PERM = [  # loop 6/7: the graph is only read, the levels dict has exactly the component's stems as keys
    "same_graph(graph, GR)",
    "forall(lambda x: (x in orders) == (x in GR and CI[x] == c4))",
]

# what the later parts of the function need to know about the earlier ones (kept across the proof cuts)
BASE_G = ["graph_sound(GR, regions)", "GC(0)"]  # GC(0) == graph_complete(GR, regions), opaque (revealed where a proof needs it)
BASE = ["valid(self.entries)", "regions_match(self.entries, regions)", "regions_cover(self.entries, regions, GS)",
        "levels30(self)", "groups_small(self)",
        "graph_sound(GR, regions)", "GC(0)", "same_graph(graph, GR)"]
COMPS = ["not knot_free(regions)", "len(components) >= 0", "comps_ok(components, GR, CI, CP)",
         "forall(lambda c: implies(0 <= c and c < len(components), len(components[c]) <= 30))"]


UNIQUE_GOOD = "forall(lambda c, s: implies(0 <= c and c <= c4 and s in unique[c], good(s, c)))"
# completeness (F is an arbitrary proper greedy-stable assignment, hypothesis HF(0)): the restriction of F to every finished
# component c is recorded in unique[c] (ghost witness SFL[c]); for the current component it is recorded once the permutation
# sorted by F (position perm_pos(c4) in the enumeration) has been processed (ghost witness SF)
FOUND = "implies(HF(0), forall(lambda c: implies(0 <= c and c < c4, SFL[c] in unique[c] and agree(SFL[c], F, c, GR, CI))))"
FOUND5 = "implies(HF(0) and perm_pos(c4) < q5, SF in unique[c4] and agree(SF, F, c4, GR, CI))"
PERMFACTS = [  # the permutation being processed is a bijection between its positions and the stems of component c4 (PP = position)
    "len(permutation) == len(components[c4])",
    "forall(lambda x: implies(x in GR and CI[x] == c4, 0 <= PP[x] and PP[x] < len(permutation) and permutation[PP[x]] == x))",
    "forall(lambda b: implies(0 <= b and b < len(permutation), permutation[b] in GR and CI[permutation[b]] == c4 and PP[permutation[b]] == b))"]
LEVELS = [  # the levels dict of one permutation, once all of it is processed: proper and greedy-stable on the component
    "forall(lambda x: (x in orders) == (x in GR and CI[x] == c4))",
    "forall(lambda x: implies(x in GR and CI[x] == c4, 0 <= orders[x] and orders[x] < len(components[c4])))",
    "forall(lambda x, y: implies(x in GR and CI[x] == c4 and y in GR[x], orders[x] != orders[y]))",
    "forall(lambda x, l: implies(tg(x, l) and x in GR and CI[x] == c4 and 0 <= l and l < orders[x], "
    "exists(lambda y: y in GR[x] and orders[y] == l)), pats=['tg(x, l)'])"]


LOOP5 = ["0 <= c4 and c4 < len(components)", "len(unique) == c4 + 1", UNIQUE_GOOD, "len(SFL) == c4", FOUND, FOUND5,
         "implies(q5 == perm_pos(c4), SRT(0))"]


class all_dot_brackets:
    """C16 (soundness part) and the C01 clause 'each member of the all-dot-brackets list'"""
    target = "BpSeq.all_dot_brackets"
    params = {"self": "BpSeq"}
    requires = ["valid(self.entries)", "levels30(self)", "groups_small(self)"]
    returns = "list[DotBracket]"
    ensures = ["forall(lambda q: implies(0 <= q and q < len(result), member_ok(self.entries, result[q])))",
               "implies(knot_free(regions), len(result) == 1)",
               "implies(not knot_free(regions) and proper(regions, F) and greedy_stable(regions, F), "
               "exists(lambda q: 0 <= q and q < len(result) and painted(result[q].structure, regions, F, len(regions))))",
               "implies(knot_free(regions), round_only(result[0].structure))",
               "implies(not knot_free(regions) and fc_is(regions, F), "
               "exists(lambda q: 0 <= q and q < len(result) and painted(result[q].structure, regions, F, len(regions))))",
               "forall(lambda q, r: implies(0 <= q and q < r and r < len(result), text_le(result[q], result[r])))"]
    ensures_labels = {0: "every-member-lossless", 1: "single-notation-when-pseudoknot-free",
                      2: "every-proper-greedy-stable-assignment-is-a-member",
                      3: "round-brackets-only-when-pseudoknot-free", 4: "fcfs-notation-is-a-member",
                      5: "ordered-by-structure-text"}
    ghost_exit = ["forall u | reveal HF | assert HF(0) == (proper(regions, F) and greedy_stable(regions, F))",
                  "forall u | reveal GC | assert graph_complete(GR, regions)",
                  # pseudoknotted: the FCFS levels are proper and greedy-stable (lemma), hence their painting is a member
                  "use fcfs_levels_are_proper_and_greedy_stable(regions, F) when fc_is(regions, F)",
                  # pseudoknot-free: the single member is self.fcfs (ghost results fcfs_R / fcfs_O / fcfs_G of its contract).  Its stems
                  # fcfs_R do not cross either: two crossing stems of fcfs_R would start with two crossing base pairs, which lie on
                  # two different crossing stems of `regions` (every pair lies on one: GS; strands of different stems are apart)
                  "assert implies(knot_free(regions) and len(result) == 1, result[0] is fcfs_result)",
                  "forall a, b | let x = fcfs_R[a][0] - 1 | let y = fcfs_R[b][0] - 1 | let g = GS[fcfs_R[a][0] - 1] | let h = GS[fcfs_R[b][0] - 1]"
                  " | let hyp = knot_free(regions) and 0 <= a and a < len(fcfs_R) and 0 <= b and b < len(fcfs_R) "
                  "and fcfs_R[a][0] < fcfs_R[b][0] and fcfs_R[b][0] < fcfs_R[a][1] and fcfs_R[a][1] < fcfs_R[b][1]"
                  " | assert implies(hyp, 0 <= x and x < y and y < len(self.entries) and self.entries[x].pair == fcfs_R[a][1] "
                  "and self.entries[y].pair == fcfs_R[b][1] and qual(self.entries[x]) and qual(self.entries[y]))"
                  " | assert implies(hyp, 0 <= g and g < len(regions) and on5(regions, g, x) and 0 <= h and h < len(regions) and on5(regions, h, y))"
                  " | assert implies(hyp, fcfs_R[a][1] - 1 == partner(regions, g, x) and fcfs_R[b][1] - 1 == partner(regions, h, y))"
                  " | assert implies(hyp, g != h)"
                  " | use strands_apart(self.entries, regions, g, h) | use strands_apart(self.entries, regions, h, g)"
                  " | assert implies(hyp, cross(regions, g, h))"
                  " | assert not hyp",
                  "forall a, b | assert implies(knot_free(regions) and 0 <= a and a < len(fcfs_R) and 0 <= b and b < len(fcfs_R), not cross(fcfs_R, a, b))",
                  # ... so nothing is ever taken and every first-come-first-served level is 0: only '(' ')' '.'
                  "use FC_definition(fcfs_R) when knot_free(regions)",
                  "forall a | assert implies(knot_free(regions) and 0 <= a and a < len(fcfs_R), not taken(a, 0))"
                  " | assert implies(knot_free(regions) and 0 <= a and a < len(fcfs_R), FC(a) == 0 and fcfs_O[a] == 0)",
                  "forall x | assert implies(knot_free(regions) and 0 <= x and x < len(result[0].structure), "
                  "fcfs_G[x] == 0 - 1 or (0 <= fcfs_G[x] and fcfs_G[x] < len(fcfs_R) and fcfs_O[fcfs_G[x]] == 0))"
                  " | assert implies(knot_free(regions) and 0 <= x and x < len(result[0].structure), "
                  "result[0].structure[x] == '(' or result[0].structure[x] == ')' or result[0].structure[x] == '.')"]
    raises = []
    modifies = []
    # completeness is stated for an ARBITRARY level assignment F (a ghost parameter: nothing is required of it; the
    # clauses about it have the hypothesis HF(0) = "F is proper and greedy-stable on the stems of this structure")
    ghost_params = {"F": "list[int]"}
    callee_variants = {"BpSeq.__make_dot_bracket": "dict"}
    defaultdicts = ["graph"]
    ghost_entry = ["define tg(x, l) = True",  # a trigger term for clauses quantifying over (stem, level); identically True
                   # ghost results of the BpSeq.fcfs call of the early exit (bound on every path; the call re-binds them)
                   "let fcfs_R = empty('list[tuple[int,int,int]]')", "let fcfs_O = fill(0, 0)", "let fcfs_G = fill(0, 0)",
                   "let fcfs_result = ref(DotBracket, 0)"]
    locals = {"graph": "dict[int,set[int]]", "components": "list[list[int]]", "unique": "list[set[int]]",
              "solutions": "set[DotBracket]", "next_vertex": "opt[int]"}
    loops = {
        # conflict graph: j in graph[i] iff stems i and j cross
        0: {"index": "c0", "inv": [
            "graph_sound(graph, R)",
            "graph_complete_upto(graph, R, c0)",
            "forall(lambda x: implies(x in graph, NB[x] in graph[x]))",
            # list(graph.keys()) lists exactly the keys (ghost inverse VP = position of a key in insertion order)
            "len(graph) >= 0",
            "forall(lambda q: implies(0 <= q and q < len(graph), list(graph.keys())[q] in graph))",
            "forall(lambda x: implies(x in graph, 0 <= VP[x] and VP[x] < len(graph) and list(graph.keys())[VP[x]] == x))"]},
        # connected components (DFS)
        1: {"index": "v1", "inv": DFS + [
            "forall(lambda x, y: implies(x in GR and visited[x] and y in GR[x], visited[y] and CI[y] == CI[x]))"]},
        2: {"inv": DFS + STACK},
        3: {"index": "q3", "seq": "EN", "inv": [
            "is_none(next_vertex)",
            "forall(lambda t: implies(0 <= t and t < q3, visited[EN[t]]))"]},
        # greedy colouring of every permutation of every component: good(s, c) == fs_good(s, c, GR, CI, components)
        4: {"index": "c4", "inv": [
            "same_graph(graph, GR)",
            "len(unique) == c4",
            "forall(lambda c, s: implies(0 <= c and c < c4 and s in unique[c], good(s, c)))",
            "len(SFL) == c4", FOUND]},
        5: {"index": "q5", "iter": "PS", "inv": [
            "same_graph(graph, GR)",
            "len(unique) == c4 + 1",
            UNIQUE_GOOD,
            "len(SFL) == c4", FOUND, FOUND5]},
        6: {"inv": PERM + [
            "1 <= M and M <= i and len(WW) == i",
            "forall(lambda b: implies(0 <= b and b < i and b < len(permutation), 0 <= orders[permutation[b]] and orders[permutation[b]] < M))",
            "forall(lambda b: implies((i <= b or b == 0) and 0 <= b and b < len(permutation), orders[permutation[b]] == 0))",
            # proper so far: an earlier neighbour sits on a different level
            "forall(lambda a, b: implies(0 <= b and b < a and a < i and a < len(permutation) and permutation[b] in GR[permutation[a]], "
            "orders[permutation[a]] != orders[permutation[b]]))",
            # greedy: every lower level is taken by an earlier neighbour (ghost witness WW[a][l] = its position)
            "forall(lambda a, l: implies(1 <= a and a < i and a < len(permutation) and 0 <= l and l < orders[permutation[a]], "
            "0 <= WW[a][l] and WW[a][l] < a and permutation[WW[a][l]] in GR[permutation[a]] and orders[permutation[WW[a][l]]] == l))",
            # completeness: a permutation sorted by a proper greedy-stable assignment F replays F
            "implies(HF(0) and SRT(0), forall(lambda b: implies(0 <= b and b < i and b < len(permutation), orders[permutation[b]] == F[permutation[b]])))"]},
        7: {"inv": [
            "same_graph(graph, GR)",
            "len(available) == len(component)",
            # the FCFS inner invariant: level lv is still available iff no neighbour among the first j sits on it (witness WT[lv])
            "forall(lambda lv, b: implies(0 <= lv and lv < len(available) and available[lv] and 0 <= b and b < j, "
            "not (permutation[b] in GR[permutation[i]] and orders[permutation[b]] == lv)))",
            "forall(lambda lv: implies(0 <= lv and lv < len(available) and not available[lv], 0 <= WT[lv] and WT[lv] < j "
            "and permutation[WT[lv]] in GR[permutation[i]] and orders[permutation[WT[lv]]] == lv))"]},
        # cartesian product across components
        8: {"index": "q8", "iter": "PRD", "inv": [
            "forall(lambda d: implies(d in solutions, member_ok(self.entries, d)), sorts={'d': 'DotBracket'})",
            # completeness: once the choice (SFL[0], SFL[1], ..) has been processed, the painting of F is in the set (ghost DB)
            "implies(HF(0) and prod_pos(SFL) < q8, DB in solutions and painted(DB.structure, regions, F, len(regions)))"]},
        9: {"index": "c9", "inv": [
            "forall(lambda a: (a in orders) == (0 <= a and a < len(regions)))",
            "forall(lambda a: implies(a in GR and CI[a] < c9, orders[a] == fs_at(assignment[CI[a]], a)))",
            "forall(lambda a: implies(0 <= a and a < len(regions) and not (a in GR and CI[a] < c9), orders[a] == 0))"]},
    }
    ghost = [
        {"when": "after", "at": "regions = self.__regions", "label": "R",
         "do": ["let R = regions", "let GS = __regions_GS", "let NB = fill(len(regions), 0 - 1)",
                "let VP = fill(len(regions), 0 - 1)", "let WI = True",
                "define opaque HF(u) = proper(regions, F) and greedy_stable(regions, F)"]},
        {"when": "before", "at": "graph[i].add(j)", "label": "WIi", "do": ["let WI = i in graph"]},
        {"when": "after", "at": "graph[i].add(j)", "label": "NBi",
         "do": ["let NB = upd(NB, i, j)", "let VP = ite(WI, VP, upd(VP, i, len(graph) - 1))"]},
        {"when": "before", "at": "graph[j].add(i)", "label": "WIj", "do": ["let WI = j in graph"]},
        {"when": "after", "at": "graph[j].add(i)", "label": "NBj",
         "do": ["let NB = upd(NB, j, i)", "let VP = ite(WI, VP, upd(VP, j, len(graph) - 1))"]},
        {"when": "after", "at": "vertices = list(graph.keys())", "label": "conflict-graph",
         "do": ["let GR = plain(graph)", "assert graph_sound(GR, R)", "assert graph_complete(GR, R)",
                "define opaque GC(u) = graph_complete(GR, regions)", "forall u | reveal GC | assert GC(0)",
                # proof cut: from here on only the facts below are known (small solver contexts)
                "cut " + " and ".join(BASE + [
                    "len(vertices) >= 0",
                    "forall(lambda x: implies(x in GR, NB[x] in GR[x]))",
                    "forall(lambda q: implies(0 <= q and q < len(vertices), vertices[q] in GR))",
                    "forall(lambda x: implies(x in GR, 0 <= VP[x] and VP[x] < len(vertices) and vertices[VP[x]] == x))"])]},
        {"when": "before", "at": "visited = {", "label": "has-a-pseudoknot",
         "do": ["assert cross(regions, vertices[0], NB[vertices[0]])", "assert not knot_free(regions)"]},
        {"when": "after", "at": "components = []", "label": "dfs0",
         "do": ["let CI = fill(len(regions), 0 - 1)", "let CP = fill(len(regions), 0 - 1)",
                "let DN = fill(len(regions), 0)", "let SP = fill(len(regions), 0 - 1)"]},
        {"when": "after", "at": "components.append([vertex])", "label": "new-component",
         "do": ["let CI = upd(CI, vertex, len(components) - 1)", "let CP = upd(CP, vertex, 0)",
                "let DN = upd(DN, vertex, 0)", "let SP = upd(SP, vertex, 0)"]},
        {"when": "after", "at": "components[-1].append(next_vertex)", "label": "visit",
         "do": ["let CI = upd(CI, next_vertex, len(components) - 1)",
                "let CP = upd(CP, next_vertex, len(components[len(components) - 1]) - 1)",
                "let DN = upd(DN, next_vertex, 0)", "let SP = upd(SP, next_vertex, len(stack) - 1)"]},
        {"when": "before", "at": "stack.pop()", "label": "vertex-finished",
         "do": ["assert forall(lambda y: implies(y in GR[current], visited[y]))",
                # proof cut: the set enumeration of the neighbour scan is no longer needed
                "cut " + " and ".join(BASE_G + DFS + STACK + ["len(stack) > 0", "current == stack[len(stack) - 1]", "0 <= v1 and v1 < len(vertices)",
                                                             "vertex == vertices[v1]", "forall(lambda y: implies(y in GR[current], visited[y]))"])]},
        {"when": "after", "at": "stack.pop()", "label": "finish", "do": ["let DN = upd(DN, current, 1)"]},
        {"when": "after", "at": "while stack:", "label": "component-finished",
         "do": ["forall x | assert implies(x in GR and visited[x] and CI[x] == len(components) - 1, DN[x] == 1)"]},
        {"when": "before", "at": "unique = []", "label": "components",
         "do": ["assert comps_ok(components, GR, CI, CP)", "use groups_small_definition(self, components)",
                "cut " + " and ".join(BASE + COMPS),
                "define good(s, c) = fs_good(s, c, GR, CI, components)",
                "let SFL = fill(0, 0)", "let SF = 0 - 1"]},
        {"when": "after", "at": "unique.append(set())", "label": "sorted-order",
         "do": ["use sorted_rearrangement(component, F, c4)", "let SF = 0 - 1"]},
        {"when": "after", "at": "for permutation in", "label": "sorted-permutation-was-enumerated",
         "do": ["assert 0 <= perm_pos(c4) and perm_pos(c4) < len(PS)",
                "let SFL = snoc(SFL, SF)"]},
        # the permutation as a bijection between positions and the component's stems (PP = position of a stem)
        {"when": "before", "at": "orders = {region: 0 for region in component}", "label": "permutation",
         "do": ["let PP = [perm_inv(q5, CP[x]) for x in range(len(regions))]",
                "assert len(permutation) == len(component)",
                "forall x | assert implies(x in GR and CI[x] == c4, 0 <= CP[x] and CP[x] < len(component) and component[CP[x]] == x)"
                " | assert implies(x in GR and CI[x] == c4, 0 <= PP[x] and PP[x] < len(permutation) and perm_src(q5, PP[x]) == CP[x])"
                " | assert implies(x in GR and CI[x] == c4, 0 <= PP[x] and PP[x] < len(permutation) and permutation[PP[x]] == x)",
                "forall k | assert implies(0 <= k and k < len(component), component[k] in GR and CI[component[k]] == c4 "
                "and component[CP[component[k]]] == component[k]) | assert implies(0 <= k and k < len(component), CP[component[k]] == k)",
                "forall b | assert implies(0 <= b and b < len(permutation), permutation[b] == component[perm_src(q5, b)] and "
                "CP[permutation[b]] == perm_src(q5, b)) | assert implies(0 <= b and b < len(permutation), permutation[b] in GR "
                "and CI[permutation[b]] == c4 and PP[permutation[b]] == b)"]},
        {"when": "before", "at": "orders = {region: 0 for region in component}", "label": "sorted",
         "do": ["define opaque SRT(u) = sorted_by(permutation, F)",
                "forall t | assert implies(q5 == perm_pos(c4) and 0 <= t and t < len(permutation), permutation[t] == component[srt(c4, t)])",
                "forall u | reveal SRT | assert implies(q5 == perm_pos(c4), SRT(0))",
                # proof cut: the loop nest below knows the permutation only as the bijection PP just established
                "cut " + " and ".join(BASE + COMPS + PERMFACTS + LOOP5)]},
        {"when": "after", "at": "order = next(", "label": "next-is-f",
         "do": ["assert tg(permutation[i], order)",
                # a neighbour on a lower F-level comes earlier in the sorted permutation, so its level is already F's
                "forall y | reveal SRT | assert implies(HF(0) and SRT(0) and y in GR[permutation[i]] and F[y] < F[permutation[i]], "
                "y in GR and CI[y] == c4 and permutation[PP[y]] == y and PP[y] != i and 0 <= PP[y] and PP[y] < len(permutation))"
                " | assert implies(HF(0) and SRT(0) and y in GR[permutation[i]] and F[y] < F[permutation[i]], PP[y] < i and "
                "permutation[PP[y]] == y and orders[permutation[PP[y]]] == F[y])",
                # not below F: the level `order` would be taken by such a neighbour (F is greedy-stable), but it is available
                "forall y | reveal GC | assert implies(0 <= y and y < len(regions) and cross(regions, permutation[i], y), y in GR[permutation[i]])"
                " | assert implies(HF(0) and SRT(0) and 0 <= y and y < len(regions) and cross(regions, permutation[i], y) "
                "and order < F[permutation[i]], F[y] != order)",
                "forall u | reveal HF | assert implies(HF(0) and SRT(0), not (order < F[permutation[i]]))",
                # not above F: the level F[..] is unavailable only through an earlier neighbour on it, which F (proper) excludes
                "forall u | reveal HF | assert implies(HF(0) and SRT(0) and F[permutation[i]] < order, 0 <= F[permutation[i]] and not available[F[permutation[i]]] "
                "and F[permutation[WT[F[permutation[i]]]]] == F[permutation[i]] and cross(regions, permutation[i], permutation[WT[F[permutation[i]]]]))"
                " | assert implies(HF(0) and SRT(0), not (order > F[permutation[i]]))",
                "assert implies(HF(0) and SRT(0), order == F[permutation[i]])"]},
        {"when": "after", "at": "orders = {region: 0 for region in component}", "label": "first-is-zero",
         "do": ["assert tg(permutation[0], 0)",
                "forall y | reveal SRT | assert implies(HF(0) and SRT(0) and y in GR and CI[y] == c4, permutation[PP[y]] == y and 0 <= PP[y] and PP[y] < len(permutation))"
                " | assert implies(HF(0) and SRT(0) and y in GR and CI[y] == c4, F[permutation[0]] <= F[y])",
                "assert 0 < len(permutation) and permutation[0] in GR and CI[permutation[0]] == c4 and 0 <= permutation[0] and permutation[0] < len(regions)",
                "forall y | reveal GC | assert implies(0 <= y and y < len(regions) and cross(regions, permutation[0], y), y in GR[permutation[0]])"
                " | assert implies(0 <= y and y < len(regions) and cross(regions, permutation[0], y), y in GR and CI[y] == c4)"
                " | assert implies(HF(0) and SRT(0) and 0 <= y and y < len(regions) and cross(regions, permutation[0], y), F[permutation[0]] <= F[y])",
                "forall u | reveal HF | assert implies(HF(0) and SRT(0), F[permutation[0]] == 0)"]},
        {"when": "after", "at": "orders = {region: 0 for region in component}", "label": "M0",
         "do": ["let M = 1", "let WT = fill(0, 0)", "let WW = snoc(empty('list[list[int]]'), fill(0, 0))"]},
        {"when": "after", "at": "available = [", "label": "WT0", "do": ["let WT = fill(len(component), 0 - 1)"]},
        {"when": "after", "at": "available[orders[permutation[j]]] =", "label": "WT",
         "do": ["let WT = upd(WT, orders[permutation[j]], j)"]},
        {"when": "before", "at": "order = next(", "label": "level-free",
         "do": ["assert M < len(available) and available[M]"]},
        {"when": "after", "at": "orders[permutation[i]] = order", "label": "M",
         "do": ["let M = ite(order + 1 > M, order + 1, M)", "let WW = snoc(WW, WT)"]},
        {"when": "before", "at": "unique[-1].add(", "label": "sorted-permutation-replays-f",
         "do": ["forall x | assert implies(HF(0) and SRT(0) and x in GR and CI[x] == c4, orders[x] == F[x])"]},
        {"when": "before", "at": "unique[-1].add(", "label": "assignment-of-component",
         "do": ["forall x | assert implies(x in GR and CI[x] == c4, 0 <= orders[x] and orders[x] < len(component))",
                "forall x, y | assert implies(x in GR and CI[x] == c4 and y in GR[x], orders[x] != orders[y])",
                "forall x, l | assert implies(x in GR and CI[x] == c4 and 0 <= l and l < orders[x], "
                "permutation[WW[PP[x]][l]] in GR[x] and orders[permutation[WW[PP[x]][l]]] == l)"
                " | assert implies(tg(x, l) and x in GR and CI[x] == c4 and 0 <= l and l < orders[x], exists(lambda y: y in GR[x] and orders[y] == l))",
                "cut " + " and ".join(BASE + COMPS + LOOP5 + LEVELS + [
                    "forall(lambda x: implies(HF(0) and SRT(0) and x in GR and CI[x] == c4, orders[x] == F[x]))"])]},
        {"when": "after", "at": "unique[-1].add(", "label": "recorded-assignment-is-proper-and-greedy-stable",
         "do": ["assert fs_good(last_fs(), c4, GR, CI, components)", "assert good(last_fs(), c4)",
                "let SF = ite(q5 == perm_pos(c4), last_fs(), SF)"]},
        {"when": "before", "at": "solutions = set()", "label": "unique",
         "do": ["cut " + " and ".join(BASE + COMPS + ["len(unique) == len(components)", "len(SFL) == len(components)",
                                                      "forall(lambda c, s: implies(0 <= c and c < len(components) and s in unique[c], good(s, c)))",
                                                      "implies(HF(0), forall(lambda c: implies(0 <= c and c < len(components), "
                                                      "SFL[c] in unique[c] and agree(SFL[c], F, c, GR, CI))))"]),
                "let DB = ref(DotBracket, 0)"]},
        {"when": "after", "at": "for assignment in", "label": "assembled-choice-was-enumerated",
         "do": ["assert implies(HF(0), 0 <= prod_pos(SFL) and prod_pos(SFL) < len(PRD))"]},
        {"when": "before", "at": "solutions.add(", "label": "assembled-assignment-is-proper-and-greedy-stable",
         "do": ["forall a | assert implies(a in GR, 0 <= CI[a] and CI[a] < len(assignment) and assignment[CI[a]] in unique[CI[a]] "
                "and good(assignment[CI[a]], CI[a]))"
                " | assert implies(a in GR, fs_good(assignment[CI[a]], CI[a], GR, CI, components))",
                "forall a | assert implies(a in GR, orders[a] == fs_at(assignment[CI[a]], a))",
                "forall a | assert implies(0 <= a and a < len(regions) and not (a in GR), orders[a] == 0)",
                "forall a | assert implies(0 <= a and a < len(regions), 0 <= orders[a] and orders[a] < 30)",
                "forall a, b | reveal GC | assert implies(0 <= a and a < len(regions) and 0 <= b and b < len(regions) and cross(regions, a, b), "
                "a in GR and b in GR[a] and CI[a] == CI[b]) | assert implies(0 <= a and a < len(regions) and 0 <= b and b < len(regions) "
                "and cross(regions, a, b), orders[a] != orders[b])",
                "assert proper(regions, orders)",
                "forall a, l | assert implies(tg(a, l) and 0 <= a and a < len(regions) and 0 <= l and l < orders[a], "
                "exists(lambda b: 0 <= b and b < len(regions) and cross(regions, a, b) and orders[b] == l))",
                "assert greedy_stable(regions, orders)",
                # completeness: the choice (SFL[0], SFL[1], ..) assembles F itself
                "forall a | assert implies(HF(0) and q8 == prod_pos(SFL) and a in GR, assignment[CI[a]] == SFL[CI[a]])"
                " | assert implies(HF(0) and q8 == prod_pos(SFL) and a in GR, orders[a] == F[a])",
                "forall a | assert tg(a, 0) | reveal HF | reveal GC | assert implies(HF(0) and 0 <= a and a < len(regions) and not (a in GR), F[a] == 0)",
                "forall a | assert implies(HF(0) and q8 == prod_pos(SFL) and 0 <= a and a < len(regions), orders[a] == F[a])"]},
        {"when": "after", "at": "solutions.add(", "label": "painting-of-f",
         "do": ["let r = __make_dot_bracket_result", "let G = __make_dot_bracket_G",
                "forall a, x | assert implies(HF(0) and q8 == prod_pos(SFL) and 0 <= a and a < len(regions) and on_strand(regions, a, x) "
                "and 0 <= x and x < len(r.structure), G[x] == a and orders[a] == F[a])",
                "assert implies(HF(0) and q8 == prod_pos(SFL), painted(r.structure, regions, F, len(regions)))",
                "let DB = ite(q8 == prod_pos(SFL), r, DB)"]},
    ]


CONTRACTS.update({
    "BpSeq.__make_dot_bracket@dict": make_dot_bracket_dict,
    "BpSeq.all_dot_brackets": all_dot_brackets,
})
