"""Sidecar contracts for the residue connectivity test of both structure models (C15, sentence "residue connectivity
(O3'-P below 2.4 A) ... computed from either agree"):

  rnapolis/tertiary.py     Residue3D.is_connected  (+ Residue3D.find_atom, verified here as well)      sidecar contracts.connectivity_c
  rnapolis/tertiary_v2.py  Residue.is_connected    (Residue.find_atom is pandas-backed: ASSUMED)       sidecar contracts.connectivity_v2_c
                                                                                                       (a shim importing this file)

The property's rule, transcribed: the result is True iff the O3' atom of `self` and the P atom of the next residue both exist
and their distance is below 2.4 A - nothing else (chain ids, residue numbers, insertion codes, names, model) matters.  2.4 is
the property's number and is pinned here as a literal; the code computes 1.5 * AVERAGE_OXYGEN_PHOSPHORUS_DISTANCE_COVALENT from
the REAL module constant (read by the engine from the module under verification), over the reals (A-real).

Vocabulary
  v1: Residue3D is a heap object that is never written (frame obligations); its `atoms` tuple is a sequence of Atom records
      (name, x, y, z - the only Atom fields the two functions read).  label / auth / model / one_letter_name and the base class's
      chain / number / icode properties are declared as stored attributes so that code that READS them is executed symbolically
      (the contract does not mention them: any dependence on them fails the postcondition).
      "the O3' atom" = the first atom of that name in the residue's atom sequence (is_first) - what find_atom is proved to return.
  v2: Residue is an opaque heap object (a pandas table behind it).  has_atom(r, s) / atom_x|y|z(r, s) are UNINTERPRETED: "the
      table of r has a row whose atom-name column equals s" / "the coordinates of the first such row".  Residue.find_atom is an
      ASSUMED callee contract in these terms (trusted base, listed in props/C15.py); so are the property getters chain_id /
      residue_number / insertion_code / residue_name (pure, result unconstrained) - only a changed is_connected reads them.
  numpy: numpy.linalg.norm(v) is the non-negative n with n*n == v.v, returned as a numpy scalar (record NpFloat) whose .item()
      is the Python float of the same value (assumed contract NpFloat.item); numpy.array([x, y, z]) is the 3-vector.

The two top-level contracts state the distance test in two independent forms (v1: squared distance < 2.4^2, v2: norm < 2.4);
lemma same_predicate_of_coordinates proves that they are the same predicate of the two atoms' coordinates.  The squared distance
is the abbreviation sqdist with the explicit definition sqdist_definition (a "definition" lemma: not proved, conservative),
unfolded for one pair of points at a time - inside the quantified v1 clause the polynomial itself made z3 wander (3 s .. timeout).
"""
from contracts.externals import NUMPY
from pyvc.values import VRec


def spec(f):
    return f


PRUNE_BRANCHES = False

_RESIDUE3D = {"kind": "object", "fields": {
    "label": "opt[rec[ResidueLabel]]", "auth": "opt[rec[ResidueAuth]]", "model": "int", "one_letter_name": "str",
    "atoms": "list[rec[Atom]]",
    # properties of the base class rnapolis.common.Residue (derived from label / auth), read as stored attributes
    "chain": "str", "number": "int", "icode": "opt[str]"}}

CLASSES = {
    "ResidueLabel": {"kind": "record", "fields": {"chain": "str", "number": "int", "name": "str"}},
    "ResidueAuth": {"kind": "record", "fields": {"chain": "str", "number": "int", "icode": "opt[str]", "name": "str"}},
    "Atom": {"kind": "record", "fields": {"name": "str", "x": "real", "y": "real", "z": "real"}},
    "Residue3D": _RESIDUE3D,
    # the value numpy.linalg.norm returns (a numpy.float64); only .item() is used on it
    "NpFloat": {"kind": "record", "fields": {"v": "real"}},
}

# Atom.coordinates (tertiary.py, cached_property): numpy.array([self.x, self.y, self.z]) - executed at the call site
INLINE = ["Atom.coordinates"]


def _ext_norm_scalar(e, args, kw, node, st):
    """numpy.linalg.norm(v) as called by the code: the numpy scalar holding the norm (contracts.externals.np_norm)"""
    return VRec("NpFloat", {"v": NUMPY["numpy.linalg.norm"](e, args, kw, node, st)})


EXTERNALS = dict(NUMPY)
EXTERNALS.update({"numpy.linalg.norm": _ext_norm_scalar, "spec.norm": NUMPY["numpy.linalg.norm"]})
SPEC_EXTERNALS = {"norm": "spec.norm"}

UFUNS = {
    # v2 (tertiary_v2.Residue, pandas-backed): existence and coordinates of the first row of residue r named s
    "has_atom": (["int", "str"], "bool"),
    "atom_x": (["int", "str"], "real"), "atom_y": (["int", "str"], "real"), "atom_z": (["int", "str"], "real"),
    # squared Euclidean distance of the points (x1, y1, z1), (x2, y2, z2): an abbreviation with the explicit definition
    # sqdist_definition below (keeps the polynomial out of quantified clauses; unfolded for one pair of points at a time)
    "sqdist": (["real"] * 6, "real"),
}

LIMIT_TEXT = "2.4"  # the property's number (Angstrom)


# ------------------------------------------------------------------------------------------------ spec vocabulary
@spec
def is_first(r, k, s):
    """position k holds the first atom of residue r that is named s"""
    return (0 <= k and k < len(r.atoms) and r.atoms[k].name == s
            and forall(lambda q: implies(0 <= q and q < k, r.atoms[q].name != s)))


@spec
def has_named(r, s):
    return exists(lambda k: 0 <= k and k < len(r.atoms) and r.atoms[k].name == s)


@spec
def xyz(a):
    return vec(a.x, a.y, a.z)


@spec
def dist2(p, q):
    """squared Euclidean distance (sqdist: see sqdist_definition)"""
    return sqdist(p[0], p[1], p[2], q[0], q[1], q[2])


@spec
def below_limit_sq(p, q):
    """the points are less than 2.4 A apart - stated on the squared distance"""
    return dist2(p, q) < 2.4 * 2.4


@spec
def below_limit_norm(p, q):
    """the points are less than 2.4 A apart - stated on the Euclidean norm of the difference"""
    return norm(p - q) < 2.4


@spec
def atom_xyz(r, s):
    return vec(atom_x(r, s), atom_y(r, s), atom_z(r, s))


# ------------------------------------------------------------------------------------------------ tertiary.py (v1)
class find_atom_c:
    params = {"self": "Residue3D", "atom_name": "str"}
    requires = []
    returns = "opt[rec[Atom]]"
    raises = []
    modifies = []
    ensures = ["is_none(result) == (not has_named(self, atom_name))",
               "implies(not is_none(result), exists(lambda k: is_first(self, k, atom_name) and some(result) == self.atoms[k]))"]
    ensures_labels = {0: "none-iff-no-atom-of-that-name", 1: "the-first-atom-of-that-name"}
    loops = {0: {"index": "k", "inv": ["forall(lambda q: implies(0 <= q and q < k, self.atoms[q].name != atom_name))"]}}


class np_item_c:
    """ASSUMED: numpy scalar .item() is the Python float of the same value"""
    params = {"self": "rec[NpFloat]"}
    requires = []
    returns = "real"
    returns_value = "self.v"
    ensures = []
    raises = []
    modifies = []


class is_connected_v1_c:
    params = {"self": "Residue3D", "next_residue_candidate": "Residue3D"}
    requires = []
    returns = "bool"
    raises = []
    modifies = []
    ensures = [
        # True iff the O3' atom of self and the P atom of the next residue both exist and are less than 2.4 A apart
        "result == exists(lambda i, j: is_first(self, i, \"O3'\") and is_first(next_residue_candidate, j, 'P') "
        "and below_limit_sq(xyz(self.atoms[i]), xyz(next_residue_candidate.atoms[j])))",
        # spelled out: no O3' / no P -> not connected
        "implies(not has_named(self, \"O3'\") or not has_named(next_residue_candidate, 'P'), result == False)",
    ]
    ensures_labels = {0: "connected-iff-O3'-and-P-exist-and-are-less-than-2.4-A-apart", 1: "not-connected-without-O3'-or-P"}
    ghost = [
        {"when": "after", "at": "distance = ", "label": "distance-below-1.5x1.6-iff-squared-distance-below-2.4-squared",
         "do": ["scoped use sqdist_definition(o3p.x, o3p.y, o3p.z, p.x, p.y, p.z) | assert (distance < 2.4) == below_limit_sq(xyz(o3p), xyz(p))"]},
    ]


CONTRACTS = {
    "Residue3D.find_atom": find_atom_c,
    "Residue3D.is_connected": is_connected_v1_c,
    "NpFloat.item": np_item_c,
}


# ------------------------------------------------------------------------------------------------ tertiary_v2.py (v2)
CLASSES_V2 = {
    "Residue": {"kind": "object", "fields": {}},
    "AtomV2": {"kind": "record", "fields": {"coordinates": "vec3"}},
    "NpFloat": CLASSES["NpFloat"],
}


class find_atom_v2_c:
    """ASSUMED (pandas: boolean mask over the atom-name column, first matching row wrapped in an Atom whose cached property
    `coordinates` is numpy.array of the row's three coordinate cells): None iff the residue's table has no row of that name,
    otherwise an atom object carrying the coordinates of the first such row.  Reads only."""
    params = {"self": "Residue", "atom_name": "str"}
    requires = []
    returns = "opt[rec[AtomV2]]"
    raises = []
    modifies = []
    ensures = ["is_none(result) == (not has_atom(self, atom_name))",
               "implies(not is_none(result), some(result).coordinates == atom_xyz(self, atom_name))"]


def _getter(shape):
    class getter_c:
        """ASSUMED: a pure property getter of tertiary_v2.Residue (pandas cell read); nothing is known about its value"""
        params = {"self": "Residue"}
        requires = []
        returns = shape
        ensures = []
        raises = []
        modifies = []
    return getter_c


class is_connected_v2_c:
    params = {"self": "Residue", "next_residue_candidate": "Residue"}
    requires = []
    returns = "bool"
    raises = []
    modifies = []
    ensures = [
        "result == (has_atom(self, \"O3'\") and has_atom(next_residue_candidate, 'P') "
        "and below_limit_norm(atom_xyz(self, \"O3'\"), atom_xyz(next_residue_candidate, 'P')))",
    ]
    ensures_labels = {0: "connected-iff-O3'-and-P-exist-and-are-less-than-2.4-A-apart"}


CONTRACTS_V2 = {
    "Residue.find_atom": find_atom_v2_c,
    "Residue.is_connected": is_connected_v2_c,
    "Residue.chain_id": _getter("str"), "Residue.residue_number": _getter("int"),
    "Residue.insertion_code": _getter("opt[str]"), "Residue.residue_name": _getter("str"),
    "NpFloat.item": np_item_c,
}


# ------------------------------------------------------------------------------------------------ the two forms agree
LEMMAS = {
    # explicit definition of the abbreviation sqdist (NOT proved - a conservative extension; listed in props/C15.py)
    "sqdist_definition": {"kind": "definition", "params": ["a", "b", "c", "d", "e", "f"],
                          "ensures": ["sqdist(a, b, c, d, e, f) == (a - d) * (a - d) + (b - e) * (b - e) + (c - f) * (c - f)"]},
    # both contracts denote the same predicate of the two atoms' coordinates: |p - q| < 2.4  <=>  |p - q|^2 < 2.4^2
    "same_predicate_of_coordinates": {
        "kind": "smt", "params": ["p", "q"], "shapes": ["vec3", "vec3"],
        "steps": ["use sqdist_definition(p[0], p[1], p[2], q[0], q[1], q[2])"],
        "ensures": ["below_limit_sq(p, q) == below_limit_norm(p, q)"]},
    # ... hence, given the same existence facts and coordinates, the two connectivity rules give the same answer
    "connectivity_rules_agree": {
        "kind": "smt", "params": ["e1", "e2", "p", "q"], "shapes": ["bool", "bool", "vec3", "vec3"],
        "steps": ["use same_predicate_of_coordinates(p, q)"],
        "ensures": ["(e1 and e2 and below_limit_sq(p, q)) == (e1 and e2 and below_limit_norm(p, q))"]},
}
