"""Sidecar contracts for rnapolis/parser_v2.py - string-level parts of C09 (PDB write/read round trip) and C15 (reader agreement).

Under contract (real code, re-read on every run)
  _format_pdb_atom_line                 80-column layout of an ATOM/HETATM record, PDB 3.3 coordinate section (clauses LAYOUT)
  _format_pdb_atom_line@signed_charge   the same with the charge handed over as a signed integer text (the mmCIF form)
  _format_pdb_ter_line                  layout of a TER record
  parse_pdb_atoms@decode                PREFIX contract (up to, not including, the DataFrame construction): the `records` list
                                        holds, for every ATOM/HETATM line in file order, the column decode of that line
String lemmas (kind "smt": proved; "definition" / "assumed-external": assumptions, listed in props/C09.py and props/C15.py)
  layout80 / layout_ter       column arithmetic of the concatenation of fixed-width pieces
  inv_* , int_of_str          field-by-field inverse: strip() of a field as laid out returns the value written
  roundtrip_line              LAYOUT(a, L) and decoded_v2(r, L)  ==>  r holds a's fields (numbers through int()/float())
  readers_agree_on_a_line     C15: parser.parse_pdb's decode (clause `decoded` of contracts/parser_c.py) and decoded_v2 of one line
  strip_definition            DEFINITION of the uninterpreted py_strip on texts of at most 8 characters
  fmt83_roundtrip, fmt62_roundtrip, float_rejects_digit_sign, float_of_signed_digit     ASSUMED facts about CPython float formatting / parsing

Vocabulary
  AtomData   the dict handed to _format_pdb_atom_line, modelled as a record: the dict has exactly the keys write_pdb builds
  PdbRecord  the dict appended to `records` by parse_pdb_atoms, modelled as a record (same reason)
Out of reach here (bounded in the property modules): the pandas row loops of write_pdb / write_cif, the DataFrame construction
and dtype conversion at the end of parse_pdb_atoms, everything mmCIF.
"""
import z3 as _z3


def spec(f):
    return f


CLASSES = {
    "AtomData": {"kind": "record", "dict_keys": True,
                 "fields": {"record_name": "str", "serial": "int", "name": "str", "altLoc": "str", "resName": "str", "chainID": "str",
                            "resSeq": "int", "iCode": "str", "x": "real", "y": "real", "z": "real", "occupancy": "real",
                            "tempFactor": "real", "element": "str", "charge": "str", "model": "int"}},
}
INLINE = []
PRUNE_BRANCHES = False

# ------------------------------------------------------------------------------------------------ assumed externals
def _fixed_limits(spc):
    """'W.Pf' -> (lo, hi, W): the open interval of values whose P-decimal rounding still fits W columns (sign included)"""
    import re
    from fractions import Fraction
    m = re.fullmatch(r"([1-9][0-9]?)\.([0-9])f", spc)
    if not m:
        return None
    w, p_ = int(m.group(1)), int(m.group(2))
    int_digits = w - p_ - (1 if p_ else 0)
    if int_digits < 2:
        return None
    half = Fraction(1, 2 * 10 ** p_)
    return -(Fraction(10) ** (int_digits - 1) - half), Fraction(10) ** int_digits - half, w


def _ext_format(e, args, kw, node, st):
    """format(x, 'W.Pf') of a float (f"{x:8.3f}", f"{x:6.2f}"): an uninterpreted function of the value, one per spec
    (py_fmt_8_3f, py_fmt_6_2f).  ASSUMED (CPython float formatting): the text has at least W characters; exactly W when the
    value lies strictly between lo = -(10^(W-P-2) - 0.5*10^-P) and hi = 10^(W-P-1) - 0.5*10^-P (its rounding to P decimals
    fits W columns, sign included); more than W when it lies strictly beyond them."""
    from pyvc.values import Unsupported, to_z3
    v, spc = args
    lim = _fixed_limits(spc) if isinstance(spc, str) else None
    if lim is None or not (isinstance(v, (int, float)) or hasattr(v, "numerator") or (hasattr(v, "sort") and v.sort() in (_z3.RealSort(), _z3.IntSort()))):
        raise Unsupported(f"format(value, {spc!r})")
    lo, hi, w = lim
    x = to_z3(v, "real")
    f = e.ufun("py_fmt_" + spc.replace(".", "_"), _z3.RealSort(), _z3.StringSort())
    s = f(x)
    if st is None:  # spec-level mention: the term only
        return s
    lo_, hi_ = _z3.RealVal(str(lo)), _z3.RealVal(str(hi))
    st.assume(_z3.Length(s) >= w)
    st.assume(_z3.Implies(_z3.And(x > lo_, x < hi_), _z3.Length(s) == w))
    st.assume(_z3.Implies(_z3.Or(x < lo_, x > hi_), _z3.Length(s) > w))
    return s


def _ext_strip(e, args, kw, node, st):
    """str.strip() without arguments: a deterministic function of the string (uninterpreted py_strip, the same symbol as in
    contracts/parser_c.py); what it computes is stated by the definitional lemma strip_definition, instantiated only where a
    proof needs it"""
    from pyvc.values import Unsupported, to_z3
    if len(args) != 1:
        raise Unsupported("str.strip(chars)")
    if isinstance(args[0], str):
        return args[0].strip()
    return e.ufun("py_strip", _z3.StringSort(), _z3.StringSort())(to_z3(args[0]))


def _ext_fmt_spec(spc):
    def f(e, args, kw, node, st):
        return _ext_format(e, [args[0], spc], kw, node, st)
    return f


def _ext_float_ok(e, args, kw, node, st):
    """float(s) does not raise ValueError: the engine's uninterpreted predicate py_float_ok"""
    from pyvc.values import to_z3
    return e.ufun("py_float_ok", _z3.StringSort(), _z3.BoolSort())(to_z3(args[0]))


def _ext_is_ws(e, args, kw, node, st):
    """is_ws(c): the (at most one-character) string c is one whitespace character in the sense of str.isspace() - the set
    WS_CHARS below, computed from the running interpreter - written as code-point comparisons"""
    from pyvc.values import to_z3
    code = _z3.StrToCode(to_z3(args[0]))
    cps = sorted(ord(ch) for ch in WS_CHARS)
    runs, lo, prev = [], cps[0], cps[0]
    for c in cps[1:] + [None]:
        if c is None or c != prev + 1:
            runs.append((lo, prev))
            lo = c
        prev = c
    return _z3.Or(*[code == a if a == b else _z3.And(code >= a, code <= b) for a, b in runs])


def _ext_first_to_last(e, args, kw, node, st):
    """first_to_last_nonblank(s) for len(s) <= 8: s[lo:hi] with lo = the first position holding a non-whitespace character
    (len(s) when there is none) and hi = one past the last such position (0 when there is none); '' when lo >= hi"""
    from pyvc.values import to_z3
    z = to_z3(args[0])
    ln = _z3.Length(z)
    nonws = lambda k: _z3.And(k < ln, _z3.Not(_ext_is_ws(e, [_z3.SubString(z, k, 1)], {}, None, None)))
    lo, hi = ln, _z3.IntVal(0)
    for k in range(7, -1, -1):
        lo = _z3.If(nonws(k), _z3.IntVal(k), lo)
    for k in range(0, 8):
        hi = _z3.If(nonws(k), _z3.IntVal(k + 1), hi)
    return _z3.If(lo >= hi, _z3.StringVal(""), _z3.SubString(z, lo, hi - lo))


# Python's str.isspace() characters (what str.strip() removes), computed from the running interpreter
WS_CHARS = "".join(chr(c) for c in range(0x30000) if chr(c).isspace())
EXTERNALS = {"spec.is_ws": _ext_is_ws, "spec.first_to_last_nonblank": _ext_first_to_last, "builtins.format": _ext_format, "str.strip": _ext_strip, "spec.fmt83": _ext_fmt_spec("8.3f"), "spec.fmt62": _ext_fmt_spec("6.2f"),
             "spec.float_ok": _ext_float_ok}
SPEC_EXTERNALS = {"is_ws": "spec.is_ws", "first_to_last_nonblank": "spec.first_to_last_nonblank", "strip": "str.strip", "fmt83": "spec.fmt83", "fmt62": "spec.fmt62", "float_ok": "spec.float_ok"}
UFUNS = {}
LEMMAS = {}

DIGIT_SIGN = "[0-9][+-]"


# ------------------------------------------------------------------------------------------------ spec vocabulary
@spec
def col(l, a, b):
    """columns a..b (1-based, inclusive) of a line"""
    return l[a - 1:b]


@spec
def fits_pdb(a):
    """the property's quantifier "whenever the data fit PDB field widths" """
    return fits_core(a) and (a.charge == "" or matches(a.charge, DIGIT_SIGN))


@spec
def fits_core(a):
    """every field but the charge"""
    return ((a.record_name == "ATOM" or a.record_name == "HETATM")
            and 0 <= a.serial and a.serial <= 99999
            and 1 <= len(a.name) and len(a.name) <= 4
            and len(a.altLoc) <= 1
            and 1 <= len(a.resName) and len(a.resName) <= 3
            and len(a.chainID) <= 1
            and 0 - 999 <= a.resSeq and a.resSeq <= 9999
            and len(a.iCode) <= 1
            and fits83(a.x) and fits83(a.y) and fits83(a.z) and fits62(a.occupancy) and fits62(a.tempFactor)
            and len(a.element) <= 2)


@spec
def fits83(x):
    return 0 - 999.9995 < x and x < 9999.9995


@spec
def fits62(x):
    return 0 - 99.995 < x and x < 999.995


LEMMAS["float_rejects_digit_sign"] = {
    # ASSUMED (CPython float()): a digit followed by a sign ('2+', '1-') is not a float literal
    "kind": "assumed-external", "params": ["s"], "shapes": ["str"],
    "requires": ["matches(s, DIGIT_SIGN)"], "ensures": ["not float_ok(s)"]}


LEMMAS["strip_definition"] = {
    # DEFINITION of the uninterpreted py_strip (= str.strip() without arguments) on texts of at most 8 characters (every PDB
    # field is at most 8 columns wide): the part from the first to the last non-whitespace character, '' when there is none
    # (first_to_last_nonblank: an explicit case analysis over the 8 positions, see _ext_first_to_last)
    "kind": "definition", "params": ["s"], "shapes": ["str"],
    "requires": ["len(s) <= 8"],
    "ensures": ["strip(s) == first_to_last_nonblank(s)"]}

PIECES = ["p_rec", "p_ser", "p_nam", "p_alt", "p_res", "p_chn", "p_seq", "p_ico", "p_x", "p_y", "p_z", "p_occ", "p_tmp", "p_ele", "p_chg"]
WIDTHS = [6, 5, 4, 1, 3, 1, 4, 1, 8, 8, 8, 6, 6, 2, 2]
STARTS = [1, 7, 13, 17, 18, 22, 23, 27, 31, 39, 47, 55, 61, 77, 79]
LEMMAS["layout80"] = {
    # the concatenation of fifteen fields of the PDB widths with the fixed blanks between them is an 80-column line
    # holding every field at its PDB 3.3 columns (pure string arithmetic over opaque pieces)
    "kind": "smt", "params": ["L"] + PIECES, "shapes": ["str"] * 16,
    "requires": ["L == p_rec + p_ser + ' ' + p_nam + p_alt + p_res + ' ' + p_chn + p_seq + p_ico + '   ' + p_x + p_y + p_z + p_occ + p_tmp + '          ' + p_ele + p_chg"]
                + [f"len({p_}) == {w_}" for p_, w_ in zip(PIECES, WIDTHS)],
    "ensures": ["len(L) == 80"] + [f"col(L, {a_}, {a_ + w_ - 1}) == {p_}" for p_, w_, a_ in zip(PIECES, WIDTHS, STARTS)]
               + ["col(L, 12, 12) == ' '", "col(L, 21, 21) == ' '", "col(L, 28, 30) == '   '", "col(L, 67, 76) == '          '"]}


LEMMAS["strip_digit_sign"] = {
    # a digit followed by a sign contains no whitespace: strip() leaves it unchanged
    "kind": "smt", "params": ["s"], "shapes": ["str"], "requires": ["matches(s, DIGIT_SIGN)"], "ensures": ["strip(s) == s"],
    "steps": ["assert len(s) == 2", "use strip_definition(s)"]}


@spec
def name_field(n):
    """columns 13-16 as the code fills them: a name of fewer than four characters that starts with a letter begins in column 14,
    any other name in column 13; blank-padded on the right"""
    return ite(len(n) < 4 and n[:1].isalpha(), (" " + n).ljust(4), n.ljust(4))


# one clause per PDB 3.3 field of the ATOM/HETATM record (columns 1-based, inclusive); `a` the atom data, L the line
@spec
def lay_record(a, L):
    return col(L, 1, 6) == a.record_name.ljust(6)


@spec
def lay_serial(a, L):
    return col(L, 7, 11) == str(a.serial).rjust(5)


@spec
def lay_name(a, L):
    return col(L, 13, 16) == name_field(a.name)


@spec
def lay_altloc(a, L):
    return col(L, 17, 17) == a.altLoc.ljust(1)


@spec
def lay_resname(a, L):
    return col(L, 18, 20) == a.resName.rjust(3)


@spec
def lay_chain(a, L):
    return col(L, 22, 22) == a.chainID.ljust(1)


@spec
def lay_resseq(a, L):
    return col(L, 23, 26) == str(a.resSeq).rjust(4)


@spec
def lay_icode(a, L):
    return col(L, 27, 27) == a.iCode.ljust(1)


@spec
def lay_xyz(a, L):
    return col(L, 31, 38) == fmt83(a.x) and col(L, 39, 46) == fmt83(a.y) and col(L, 47, 54) == fmt83(a.z)


@spec
def lay_occ_b(a, L):
    return col(L, 55, 60) == fmt62(a.occupancy) and col(L, 61, 66) == fmt62(a.tempFactor)


@spec
def lay_element(a, L):
    return col(L, 77, 78) == a.element.rjust(2)


@spec
def lay_charge(a, L):
    return col(L, 79, 80) == a.charge.rjust(2)


@spec
def lay_blanks(L):
    return col(L, 12, 12) == " " and col(L, 21, 21) == " " and col(L, 28, 30) == "   " and col(L, 67, 76) == "          "


LAYOUT = ["len({L}) == 80", "lay_record({a}, {L})", "lay_serial({a}, {L})", "lay_name({a}, {L})", "lay_altloc({a}, {L})", "lay_resname({a}, {L})",
          "lay_chain({a}, {L})", "lay_resseq({a}, {L})", "lay_icode({a}, {L})", "lay_xyz({a}, {L})", "lay_occ_b({a}, {L})", "lay_element({a}, {L})",
          "lay_charge({a}, {L})", "lay_blanks({L})"]


def _line_ghost(charge_text):
    """ghost steps behind the statement that assembles the line: every piece gets a short name, the pieces whose text is not
    literally the specification's are shown equal to it, lemma layout80 places them, and only these facts are kept"""
    at = {"when": "after", "at": "line = f"}
    pieces = "record_name, serial, atom_name_fmt, alt_loc, res_name, chain_id, res_seq, icode, x, y, z, occupancy, temp_factor, element, charge_fmt"
    return [
        dict(at, label="name-the-pieces", do=["name line", "name " + pieces]),
        dict(at, label="atom-name-field-follows-the-alignment-rule", do=["assert atom_name_fmt == name_field(atom_data.name)"]),
        dict(at, label="altLoc-chainID-iCode-fill-one-column",
             do=["assert alt_loc == atom_data.altLoc.ljust(1) and chain_id == atom_data.chainID.ljust(1) and icode == atom_data.iCode.ljust(1)"]),
        dict(at, label="charge-field-79-80", do=["assert charge_fmt == " + charge_text]),
        dict(at, label="line-is-the-fields-in-PDB-column-order", do=["use layout80(line, " + pieces + ")", "keep 38"]),
    ]


class format_atom_c:
    """_format_pdb_atom_line: for atom data within PDB limits the line has 80 columns and every field sits at its PDB 3.3
    columns (the clauses LAYOUT, instantiated for the argument and the result)"""
    params = {"atom_data": "rec[AtomData]"}
    requires = ["fits_pdb(atom_data)"]
    returns = "str"
    raises = []
    modifies = []
    ensures = [t_.format(a="atom_data", L="result") for t_ in LAYOUT]
    ensures_labels = {0: "length-80", 1: "record-name-1-6", 2: "serial-7-11-right-justified", 3: "atom-name-13-16", 4: "altLoc-17",
                      5: "resName-18-20-right-justified", 6: "chainID-22", 7: "resSeq-23-26-right-justified", 8: "iCode-27",
                      9: "x-31-38-y-39-46-z-47-54", 10: "occupancy-55-60-tempFactor-61-66", 11: "element-77-78-right-justified",
                      12: "charge-79-80", 13: "blank-12-21-28-30-67-76"}
    ghost = [
        {"when": "before", "at": "if charge_val:", "label": "charge-is-not-a-float-literal",
         "do": ["use float_rejects_digit_sign(charge_val) when charge_val != ''"]},
        {"when": "before", "at": "charge_fmt = charge_fmt.strip()", "label": "charge-text-has-no-blanks",
         "do": ["use strip_digit_sign(charge_fmt)"]},
        {"when": "after", "at": "serial = str(", "label": "serial-fills-5-columns", "do": ["assert len(serial) == 5"]},
        {"when": "after", "at": "res_seq = str(", "label": "resSeq-fills-4-columns", "do": ["assert len(res_seq) == 4"]},
    ] + _line_ghost("atom_data.charge.rjust(2)")


SIGNED_DIGIT = "-?[0-9]"
LEMMAS["float_of_signed_digit"] = {
    # ASSUMED (CPython float()): an optionally negated single digit is a float literal whose value is the integer it spells
    "kind": "assumed-external", "params": ["s"], "shapes": ["str"],
    "requires": ["matches(s, SIGNED_DIGIT)"], "ensures": ["float_ok(s)", "float(s) == int(s)"]}
LEMMAS["signed_digit_value"] = {
    # the integer spelled by an optionally negated digit (int() as modelled by pyvc) lies in -9..9
    "kind": "smt", "params": ["s"], "shapes": ["str"], "requires": ["matches(s, SIGNED_DIGIT)"], "ensures": ["0 - 9 <= int(s) and int(s) <= 9"],
    "steps": ["assert implies(len(s) == 1, 0 <= int(s) and int(s) <= 9)", "assert implies(len(s) == 2, 0 - 9 <= int(s) and int(s) <= 0)"]}
LEMMAS["strip_digit_then_sign"] = {
    "kind": "smt", "params": ["v", "g"], "shapes": ["int", "str"], "requires": ["1 <= v and v <= 9", "g == '+' or g == '-'"],
    "ensures": ["strip(str(v) + g) == str(v) + g", "len(str(v) + g) == 2"],
    "steps": ["assert len(str(v)) == 1", "use strip_definition(str(v) + g)"]}


@spec
def pdb_charge_text(c):
    """the PDB charge columns for the signed integer c: blank for 0, else magnitude digit followed by the sign"""
    return ite(c == 0, "  ", str(abs(c)) + ite(c > 0, "+", "-"))


class format_atom_signed_charge_c(format_atom_c):
    """the same function for a charge given as a signed integer text ('2', '-1': what write_pdb hands over for an mmCIF table):
    columns 79-80 hold the PDB form (magnitude digit, then sign), blank for 0; all other clauses as before"""
    requires = ["fits_core(atom_data)", "matches(atom_data.charge, SIGNED_DIGIT)"]
    ensures = [t_.format(a="atom_data", L="result") for t_ in LAYOUT if not t_.startswith("lay_charge")] \
        + ["col(result, 79, 80) == pdb_charge_text(int(atom_data.charge))"]
    ensures_labels = {**{k_: v_ for k_, v_ in format_atom_c.ensures_labels.items() if k_ < 12}, 12: "blank-12-21-28-30-67-76", 13: "charge-79-80-magnitude-then-sign"}
    ghost = [
        {"when": "before", "at": "if charge_val:", "label": "charge-is-a-float-literal",
         "do": ["use float_of_signed_digit(charge_val)", "use signed_digit_value(charge_val)", "let cv = int(atom_data.charge)"]},
        {"when": "after", "at": "charge_int = int(float(charge_val))", "label": "charge-value", "do": ["assert charge_int == cv"]},
        {"when": "after", "at": "charge_fmt = f", "label": "charge-text-has-no-blanks",
         "do": ["use strip_digit_then_sign(abs(charge_int), '+' if charge_int > 0 else '-')"]},
    ] + [g_ for g_ in format_atom_c.ghost if g_["label"] in ("serial-fills-5-columns", "resSeq-fills-4-columns")] + [
    ] + _line_ghost("pdb_charge_text(cv)")


# ------------------------------------------------------------------------------------------------ field-by-field inverse
@spec
def clean(s):
    """a non-empty text that neither starts nor ends with whitespace (what survives a write / strip / read cycle unchanged)"""
    return len(s) >= 1 and not is_ws(s[:1]) and not is_ws(s[-1:])


def _inv(requires, ensures, value="s", lengths=(), cases=(), params=("F", "s"), shapes=("str", "str")):
    """inverse lemma of one field; proof: unfold strip on the field, then one case per length of the written text"""
    steps = ["use strip_definition(F)"] + [f"assert implies(len({value}) == {k}, strip(F) == {value})" for k in lengths] \
        + [f"assert implies({c_}, strip(F) == {value})" for c_ in cases]
    return {"kind": "smt", "params": list(params), "shapes": list(shapes), "requires": list(requires), "ensures": list(ensures), "steps": steps}


# F = the content of the field's columns as the formatter lays it out; s (n) = the value written
LEMMAS["inv_record"] = _inv(["s == 'ATOM' or s == 'HETATM'", "F == s.ljust(6)"], ["strip(F) == s"], cases=("s == 'ATOM'", "s == 'HETATM'"))
LEMMAS["inv_rjust3"] = _inv(["clean(s) and len(s) <= 3", "F == s.rjust(3)"], ["strip(F) == s"], lengths=(1, 2, 3))
LEMMAS["inv_rjust2"] = _inv(["(s == '' or clean(s)) and len(s) <= 2", "F == s.rjust(2)"], ["strip(F) == s"], lengths=(0, 1, 2))
LEMMAS["inv_ljust1"] = _inv(["(s == '' or clean(s)) and len(s) <= 1", "F == s.ljust(1)"], ["strip(F) == s"], lengths=(0, 1))
LEMMAS["inv_name"] = _inv(["clean(s) and len(s) <= 4", "F == name_field(s)"], ["strip(F) == s"], lengths=(1, 2, 3, 4))
LEMMAS["inv_serial"] = _inv(["0 <= n and n <= 99999", "F == str(n).rjust(5)"], ["strip(F) == str(n)"], value="str(n)", lengths=(1, 2, 3, 4, 5),
                            params=("F", "n"), shapes=("str", "int"))
LEMMAS["inv_resseq"] = _inv(["0 - 999 <= n and n <= 9999", "F == str(n).rjust(4)"], ["strip(F) == str(n)"], value="str(n)",
                            cases=[f"n >= 0 and len(str(n)) == {k_}" for k_ in (1, 2, 3, 4)] + [f"n < 0 and len(str(n)) == {k_}" for k_ in (2, 3, 4)],
                            params=("F", "n"), shapes=("str", "int"))
LEMMAS["int_of_str"] = {
    # reading back the decimal text of an integer of at most 5 digits gives the integer (int() as modelled by pyvc: the value of
    # a plain digit string is str.to_int, a leading '-' negates)
    "kind": "smt", "params": ["n"], "shapes": ["int"], "requires": ["0 - 99999 <= n and n <= 99999"], "ensures": ["int(str(n)) == n"],
    "steps": ["assert implies(n >= 0, int(str(n)) == n)", "assert implies(n < 0, int(str(n)) == n)"]}

# ------------------------------------------------------------------------------------------------ parse_pdb_atoms: per-line decode
CLASSES["PdbRecord"] = {"kind": "record", "dict_keys": True,
                        "fields": {"record_type": "str", "serial": "str", "name": "str", "altLoc": "opt[str]", "resName": "str", "chainID": "str",
                                   "resSeq": "str", "iCode": "opt[str]", "x": "str", "y": "str", "z": "str", "occupancy": "str",
                                   "tempFactor": "str", "element": "opt[str]", "charge": "opt[str]", "model": "int"}}


def _ext_splitlines(e, args, kw, node, st):
    """str.splitlines(): some list of strings (nothing is assumed about how the text is cut into lines - every clause of the
    decode contract is stated per line of whatever list this returns)"""
    from pyvc.values import fresh, uid, to_z3
    L = fresh(("list", ("str",)), uid("splitlines"))
    st.assume(to_z3(L.length) >= 0)
    return L


EXTERNALS["str.splitlines"] = _ext_splitlines


def _ext_int_ok(e, args, kw, node, st):
    """the engine's own condition for int(s) not raising ValueError (pyvc/calls.py ext_int_of_str), term for term:
    a plain digit string, or [whitespace][sign]digits[_digits..][whitespace]"""
    from pyvc.values import to_z3
    z = to_z3(args[0])
    digits = _z3.Plus(_z3.Range("0", "9"))
    ws = _z3.Star(_z3.Union(_z3.Re(" "), _z3.Re("\t"), _z3.Re("\n"), _z3.Re("\r"), _z3.Re("\x0b"), _z3.Re("\x0c")))
    us = _z3.Concat(digits, _z3.Star(_z3.Concat(_z3.Re("_"), digits)))
    return _z3.Or(_z3.InRe(z, digits), _z3.InRe(z, _z3.Concat(ws, _z3.Option(_z3.Union(_z3.Re("+"), _z3.Re("-"))), us, ws)))


EXTERNALS["spec.int_ok"] = _ext_int_ok
SPEC_EXTERNALS["int_ok"] = "spec.int_ok"


@spec
def is_atom_v2(l):
    """the table-level reader's test for an ATOM/HETATM record: columns 1-6, blanks removed"""
    return strip(col(l, 1, 6)) == "ATOM" or strip(col(l, 1, 6)) == "HETATM"


@spec
def is_model_v2(l):
    return strip(col(l, 1, 6)) == "MODEL"


@spec
def good_model_line(l):
    """a MODEL record whose serial (columns 11-14) is readable as an integer (an unreadable one is skipped by the reader)"""
    return is_model_v2(l) and int_ok(strip(col(l, 11, 14)))


@spec
def model_v2(L, m):
    """serial of the MODEL record at line m; 1 when there is none (m == -1)"""
    return ite(m < 0, 1, int(strip(col(L[m], 11, 14))))


@spec
def none_if_blank(s):
    return ite(s == "", None, s)


@spec
def decoded_v2(r, l):
    """the record of the ATOM/HETATM line l: every field is its PDB 3.3 column range with surrounding blanks removed
    (numbers still as text: they are converted by pandas afterwards); blank optional fields are None"""
    return (r.record_type == strip(col(l, 1, 6)) and r.serial == strip(col(l, 7, 11)) and r.name == strip(col(l, 13, 16))
            and r.altLoc == none_if_blank(strip(col(l, 17, 17))) and r.resName == strip(col(l, 18, 20))
            and r.chainID == strip(col(l, 22, 22)) and r.resSeq == strip(col(l, 23, 26))
            and r.iCode == none_if_blank(strip(col(l, 27, 27)))
            and r.x == strip(col(l, 31, 38)) and r.y == strip(col(l, 39, 46)) and r.z == strip(col(l, 47, 54))
            and r.occupancy == strip(col(l, 55, 60)) and r.tempFactor == strip(col(l, 61, 66))
            and r.element == none_if_blank(strip(col(l, 77, 78))) and r.charge == none_if_blank(strip(col(l, 79, 80))))


LEMMAS["decoded_v2_snoc"] = {
    # appending one decoded record (with its line index) keeps "every record is the decode of its line"
    "kind": "smt", "params": ["A", "SRC", "L", "a", "s"],
    "shapes": ["list[rec[PdbRecord]]", "list[int]", "list[str]", "rec[PdbRecord]", "int"],
    "requires": ["len(A) >= 0 and len(SRC) == len(A)",
                 "forall(lambda j: implies(0 <= j and j < len(SRC), decoded_v2(A[j], L[SRC[j]])))",
                 "decoded_v2(a, L[s])"],
    "ensures": ["forall(lambda j: implies(0 <= j and j < len(SRC) + 1, decoded_v2(snoc(A, a)[j], L[snoc(SRC, s)[j]])))"]}


class parse_pdb_atoms_decode_c:
    """PREFIX contract: parse_pdb_atoms up to (not including) the DataFrame construction.  SRC[j] = index of the line that
    records[j] was read from; POS[l] = position in records of the record of line l; MS[j] = index of the MODEL line governing
    records[j] (-1: none)"""
    params = {"content": "str"}
    requires = []
    raises = []
    modifies = []
    ensures = []
    stop_before = "if not records"
    stop_ensures = [
        "len(SRC) == len(records) and forall(lambda j: implies(0 <= j and j < len(records), 0 <= SRC[j] and SRC[j] < len(lines) and is_atom_v2(lines[SRC[j]])))",
        "forall(lambda j, j2: implies(0 <= j and j < j2 and j2 < len(records), SRC[j] < SRC[j2]))",
        "forall(lambda l: implies(0 <= l and l < len(lines) and is_atom_v2(lines[l]), 0 <= POS[l] and POS[l] < len(records) and SRC[POS[l]] == l))",
        "forall(lambda j: implies(0 <= j and j < len(records), decoded_v2(records[j], lines[SRC[j]])))",
        "len(MS) == len(records) and forall(lambda j: implies(0 <= j and j < len(records), records[j].model == model_v2(lines, MS[j]) and 0 - 1 <= MS[j] and MS[j] < SRC[j] and implies(MS[j] >= 0, good_model_line(lines[MS[j]]))))",
        "forall(lambda j, l: implies(0 <= j and j < len(records) and MS[j] < l and l < SRC[j], not good_model_line(lines[l])))",
    ]
    stop_ensures_labels = {0: "records-come-from-ATOM-HETATM-lines", 1: "in-file-order-each-once", 2: "every-ATOM-HETATM-line-has-a-record",
                           3: "fields-are-the-PDB-columns-with-blanks-removed", 4: "model-is-a-preceding-readable-MODEL-serial-or-1",
                           5: "model-is-the-LAST-preceding-readable-MODEL-serial"}
    locals = {"records": "list[rec[PdbRecord]]", "record": "rec[PdbRecord]"}
    ghost_entry = ["let SRC = empty('list[int]')", "let POS = empty('list[int]')", "let MS = empty('list[int]')", "let LM = 0 - 1"]
    loops = {0: {"index": "i", "inv": [
        "len(records) >= 0 and len(SRC) == len(records) and len(POS) == i and len(MS) == len(SRC)",
        "forall(lambda j: implies(0 <= j and j < len(SRC), 0 <= SRC[j] and SRC[j] < i and is_atom_v2(lines[SRC[j]])))",
        "forall(lambda j, j2: implies(0 <= j and j < j2 and j2 < len(SRC), SRC[j] < SRC[j2]))",
        "forall(lambda l: implies(0 <= l and l < i and is_atom_v2(lines[l]), 0 <= POS[l] and POS[l] < len(SRC) and SRC[POS[l]] == l))",
        "forall(lambda j: implies(0 <= j and j < len(SRC), decoded_v2(records[j], lines[SRC[j]])))",
        "0 - 1 <= LM and LM < i and implies(LM >= 0, good_model_line(lines[LM]))",
        "forall(lambda l: implies(LM < l and l < i, not good_model_line(lines[l])))",
        "current_model == model_v2(lines, LM)",
        "forall(lambda j: implies(0 <= j and j < len(SRC), records[j].model == model_v2(lines, MS[j]) and 0 - 1 <= MS[j] and MS[j] < SRC[j] and implies(MS[j] >= 0, good_model_line(lines[MS[j]]))))",
        "forall(lambda j, l: implies(0 <= j and j < len(SRC) and MS[j] < l and l < SRC[j], not good_model_line(lines[l])))",
    ]}}
    DECODE_ASSERTS = [
        ("record-type-1-6-serial-7-11", "record.record_type == strip(col(line, 1, 6)) and record.serial == strip(col(line, 7, 11))"),
        ("name-13-16-altLoc-17-resName-18-20", "record.name == strip(col(line, 13, 16)) and record.altLoc == none_if_blank(strip(col(line, 17, 17))) and record.resName == strip(col(line, 18, 20))"),
        ("chainID-22-resSeq-23-26-iCode-27", "record.chainID == strip(col(line, 22, 22)) and record.resSeq == strip(col(line, 23, 26)) and record.iCode == none_if_blank(strip(col(line, 27, 27)))"),
        ("x-31-38-y-39-46-z-47-54", "record.x == strip(col(line, 31, 38)) and record.y == strip(col(line, 39, 46)) and record.z == strip(col(line, 47, 54))"),
        ("occupancy-55-60-tempFactor-61-66", "record.occupancy == strip(col(line, 55, 60)) and record.tempFactor == strip(col(line, 61, 66))"),
        ("element-77-78-charge-79-80", "record.element == none_if_blank(strip(col(line, 77, 78))) and record.charge == none_if_blank(strip(col(line, 79, 80)))"),
    ]
    ghost = [
        {"when": "before", "at": "continue", "loop": 0, "label": "not-an-atom-line", "do": ["assert_last 5 not is_atom_v2(line)", "let POS = snoc(POS, 0 - 1)"]},
        {"when": "after", "at": "current_model = int(", "loop": 0, "label": "model-record", "do": ["let LM = i"]},
        {"when": "before", "at": "records.append(record)", "loop": 0, "label": "remember", "do": ["let R0 = records"]},
    ] + [{"when": "before", "at": "records.append(record)", "loop": 0, "label": lab_, "do": ["assert " + txt_]} for lab_, txt_ in DECODE_ASSERTS] + [
        {"when": "before", "at": "records.append(record)", "loop": 0, "label": "model-is-the-last-readable-MODEL-serial",
         "do": ["assert record.model == model_v2(lines, LM)"]},
        {"when": "after", "at": "records.append(record)", "loop": 0, "label": "atom-line",
         "do": ["use decoded_v2_snoc(R0, SRC, lines, record, i)", "let SRC = snoc(SRC, i)", "let MS = snoc(MS, LM)", "let POS = snoc(POS, len(records) - 1)"]},
    ]


# ------------------------------------------------------------------------------------------------ write -> read of one line
LEMMAS["fmt83_roundtrip"] = {
    # ASSUMED (CPython float formatting and parsing): the 3-decimal text of a value that fits the field is a float literal
    # (also after removing the padding blanks) within half a unit of the last place of the value
    "kind": "assumed-external", "params": ["x"], "shapes": ["real"], "requires": ["fits83(x)"],
    "ensures": ["float_ok(strip(fmt83(x)))", "abs(float(strip(fmt83(x))) - x) <= 0.0005"]}
LEMMAS["fmt62_roundtrip"] = {
    "kind": "assumed-external", "params": ["x"], "shapes": ["real"], "requires": ["fits62(x)"],
    "ensures": ["float_ok(strip(fmt62(x)))", "abs(float(strip(fmt62(x))) - x) <= 0.005"]}


@spec
def clean_or_empty(s):
    return s == "" or clean(s)


@spec
def clean_fields(a):
    """the text fields carry no leading / trailing whitespace (blanks are the file format's padding: they cannot survive)"""
    return (clean(a.name) and clean(a.resName) and clean_or_empty(a.altLoc) and clean_or_empty(a.chainID)
            and clean_or_empty(a.iCode) and clean_or_empty(a.element))


LEMMAS["digit_sign_clean"] = {
    "kind": "smt", "params": ["s"], "shapes": ["str"], "requires": ["matches(s, DIGIT_SIGN)"], "ensures": ["clean(s) and len(s) == 2"],
    "steps": ["assert len(s) == 2", "assert matches(s[:1], '[0-9]') and matches(s[-1:], '[+-]')"]}
LEMMAS["roundtrip_line"] = {
    # the line L laid out for the atom data a (clauses LAYOUT = the postcondition of _format_pdb_atom_line), decoded by
    # parse_pdb_atoms into the record r (decoded_v2 = the stop-postcondition of parse_pdb_atoms@decode), gives a's fields back;
    # numeric texts are judged through int() / float() (what pandas.to_numeric is assumed to compute on them)
    "kind": "smt", "params": ["a", "L", "r"], "shapes": ["rec[AtomData]", "str", "rec[PdbRecord]"],
    "requires": ["fits_pdb(a)", "clean_fields(a)"] + [t_.format(a="a", L="L") for t_ in LAYOUT] + ["decoded_v2(r, L)"],
    "ensures": ["r.record_type == a.record_name",
                "r.serial == str(a.serial) and int(r.serial) == a.serial",
                "r.name == a.name",
                "r.altLoc == none_if_blank(a.altLoc)",
                "r.resName == a.resName",
                "r.chainID == a.chainID",
                "r.resSeq == str(a.resSeq) and int(r.resSeq) == a.resSeq",
                "r.iCode == none_if_blank(a.iCode)",
                "float_ok(r.x) and float_ok(r.y) and float_ok(r.z) and abs(float(r.x) - a.x) <= 0.0005 and abs(float(r.y) - a.y) <= 0.0005 and abs(float(r.z) - a.z) <= 0.0005",
                "float_ok(r.occupancy) and float_ok(r.tempFactor) and abs(float(r.occupancy) - a.occupancy) <= 0.005 and abs(float(r.tempFactor) - a.tempFactor) <= 0.005",
                "r.element == none_if_blank(a.element)",
                "r.charge == none_if_blank(a.charge)",
                "is_atom_v2(L)"],
    "steps": ["use inv_record(col(L, 1, 6), a.record_name)",
              "use inv_serial(col(L, 7, 11), a.serial)", "use int_of_str(a.serial)",
              "use inv_name(col(L, 13, 16), a.name)",
              "use inv_ljust1(col(L, 17, 17), a.altLoc)",
              "use inv_rjust3(col(L, 18, 20), a.resName)",
              "use inv_ljust1(col(L, 22, 22), a.chainID)",
              "use inv_resseq(col(L, 23, 26), a.resSeq)", "use int_of_str(a.resSeq)",
              "use inv_ljust1(col(L, 27, 27), a.iCode)",
              "use fmt83_roundtrip(a.x)", "use fmt83_roundtrip(a.y)", "use fmt83_roundtrip(a.z)",
              "use fmt62_roundtrip(a.occupancy)", "use fmt62_roundtrip(a.tempFactor)",
              "use inv_rjust2(col(L, 77, 78), a.element)",
              "use digit_sign_clean(a.charge) when a.charge != ''", "assert_last 1 clean_or_empty(a.charge) and len(a.charge) <= 2",
              "use inv_rjust2(col(L, 79, 80), a.charge)"]}


# ------------------------------------------------------------------------------------------------ TER record
TER_PIECES = ["p_ser", "p_res", "p_chn", "p_seq", "p_ico"]
LEMMAS["layout_ter"] = {
    # 'TER   ' + serial(5) + 6 blanks + resName(3) + blank + chain(1) + resSeq(4) + iCode(1), blank-padded to 80 columns
    "kind": "smt", "params": ["L"] + TER_PIECES, "shapes": ["str"] * 6,
    "requires": ["L == 'TER   ' + p_ser + '      ' + p_res + ' ' + p_chn + p_seq + p_ico",
                 "len(p_ser) == 5", "len(p_res) == 3", "len(p_chn) == 1", "len(p_seq) == 4", "len(p_ico) == 1"],
    "ensures": ["len(L) == 27", "len(L.ljust(80)) == 80", "col(L.ljust(80), 1, 6) == 'TER   '", "col(L.ljust(80), 7, 11) == p_ser",
                "col(L.ljust(80), 12, 17) == '      '", "col(L.ljust(80), 18, 20) == p_res", "col(L.ljust(80), 21, 21) == ' '",
                "col(L.ljust(80), 22, 22) == p_chn", "col(L.ljust(80), 23, 26) == p_seq", "col(L.ljust(80), 27, 27) == p_ico",
                "col(L.ljust(80), 28, 80) == ' ' * 53"]}
LEMMAS["strip_clean"] = {
    # strip() leaves a text without leading / trailing whitespace unchanged (here: residue names, at most 3 characters)
    "kind": "smt", "params": ["s"], "shapes": ["str"], "requires": ["clean(s) and len(s) <= 3"], "ensures": ["strip(s) == s"],
    "steps": ["use strip_definition(s)"] + [f"assert implies(len(s) == {k_}, strip(s) == s)" for k_ in (1, 2, 3)]}


class format_ter_c:
    """_format_pdb_ter_line(serial, (resSeq, iCode, resName), chain): the TER record of PDB 3.3 - 1-6 'TER   ', 7-11 serial,
    18-20 resName, 22 chainID, 23-26 resSeq, 27 iCode, blanks elsewhere, 80 columns"""
    params = {"serial": "int", "res_info": "tuple[int,str,str]", "chain_id": "str"}
    requires = ["0 <= serial and serial <= 99999", "0 - 999 <= res_info[0] and res_info[0] <= 9999", "len(res_info[1]) <= 1",
                "clean(res_info[2]) and len(res_info[2]) <= 3", "len(chain_id) <= 1"]
    returns = "str"
    raises = []
    modifies = []
    ensures = ["len(result) == 80", "col(result, 1, 6) == 'TER   '", "col(result, 7, 11) == str(serial).rjust(5)",
               "col(result, 12, 17) == '      '", "col(result, 18, 20) == res_info[2].rjust(3)", "col(result, 21, 21) == ' '",
               "col(result, 22, 22) == chain_id.ljust(1)", "col(result, 23, 26) == str(res_info[0]).rjust(4)",
               "col(result, 27, 27) == res_info[1].ljust(1)", "col(result, 28, 80) == ' ' * 53"]
    ensures_labels = {0: "length-80", 1: "record-name-1-6", 2: "serial-7-11-right-justified", 3: "blank-12-17", 4: "resName-18-20-right-justified",
                      5: "blank-21", 6: "chainID-22", 7: "resSeq-23-26-right-justified", 8: "iCode-27", 9: "blank-28-80"}
    ghost = [
        {"when": "before", "at": "res_name = res_info[2].strip()", "label": "residue-name-has-no-blanks", "do": ["use strip_clean(res_info[2])"]},
        {"when": "before", "at": "return f", "label": "resName-chain-iCode-fields",
         "do": ["assert res_name == res_info[2].rjust(3) and chain == chain_id.ljust(1) and icode == res_info[1].ljust(1)"]},
        {"when": "before", "at": "return f", "label": "field-widths-5-3-1-4-1",
         "do": ["assert len(str(serial).rjust(5)) == 5 and len(res_name) == 3 and len(chain) == 1 and len(res_seq) == 4 and len(icode) == 1"]},
        {"when": "before", "at": "return f", "label": "line-is-the-fields-in-PDB-column-order",
         "do": ["name res_name, chain, res_seq, icode",
                "use layout_ter('TER   ' + str(serial).rjust(5) + '      ' + res_name + ' ' + chain + res_seq + icode, str(serial).rjust(5), res_name, chain, res_seq, icode)"]},
    ]


# ------------------------------------------------------------------------------------------------ C15: the two PDB readers on one line
# the residue-level reader's per-line decode is the clause `decoded(a, l, m)` of contracts/parser_c.py (proved there for
# parser.parse_pdb, target parse_pdb@decode); its spec vocabulary and record classes are loaded from that sidecar
from contracts import parser_c as _P
__file_spec__ = [_P.__file__, __file__]
for _k in ("ResidueLabel", "ResidueAuth", "Atom"):
    CLASSES[_k] = _P.CLASSES[_k]

LEMMAS["readers_agree_on_a_line"] = {
    # one ATOM/HETATM line l of at least 27 columns: a = the atom parser.parse_pdb decodes from it (clause `decoded` of
    # parser_c), r = the record parser_v2.parse_pdb_atoms decodes from it (clause decoded_v2).  Numbers: the table-level reader
    # keeps the text and pandas.to_numeric converts it later (assumed to be int() / float() of that text)
    "kind": "smt", "params": ["a", "r", "l", "m"], "shapes": ["rec[Atom]", "rec[PdbRecord]", "str", "int"],
    "requires": ["len(l) >= 27", "decoded(a, l, m)", "decoded_v2(r, l)"],
    "ensures": [
        "a.name == r.name",
        "a.auth.name == r.resName",
        # chain: the residue-level reader takes column 22 as it is, the table-level reader removes whitespace from it
        "implies(not is_ws(col(l, 22, 22)), a.auth.chain == r.chainID)",
        "implies(is_ws(col(l, 22, 22)), a.auth.chain == col(l, 22, 22) and r.chainID == '')",
        "a.auth.number == int(r.resSeq)",
        # insertion code: both report None for a blank column 27 and the character for a non-whitespace one; a whitespace
        # character other than the blank is kept by the residue-level reader and dropped (None) by the table-level reader
        "implies(col(l, 27, 27) == ' ', a.auth.icode is None and r.iCode is None)",
        "implies(not is_ws(col(l, 27, 27)), a.auth.icode == col(l, 27, 27) and r.iCode == col(l, 27, 27))",
        "implies(is_ws(col(l, 27, 27)) and col(l, 27, 27) != ' ', a.auth.icode == col(l, 27, 27) and r.iCode is None)",
        "a.x == float(r.x) and a.y == float(r.y) and a.z == float(r.z)",
        "a.occupancy == float(r.occupancy)",
    ],
    "steps": ["use strip_definition(col(l, 22, 22))", "use strip_definition(col(l, 27, 27))"]}
LEMMAS["record_test_agrees"] = {
    # a line whose columns 1-6 hold the padded record name (what the residue-level reader's contract calls an ATOM/HETATM line)
    # is an ATOM/HETATM line for the table-level reader too (the converse does not hold: ' ATOM ' is accepted only by the latter)
    "kind": "smt", "params": ["l"], "shapes": ["str"], "requires": ["is_atom_line(l)"], "ensures": ["is_atom_v2(l)"],
    "steps": ["use strip_definition(col(l, 1, 6))"]}


CONTRACTS = {"_format_pdb_atom_line": format_atom_c, "_format_pdb_atom_line@signed_charge": format_atom_signed_charge_c, "_format_pdb_ter_line": format_ter_c, "parse_pdb_atoms@decode": parse_pdb_atoms_decode_c}
