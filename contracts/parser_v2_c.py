"""Sidecar contracts for rnapolis/parser_v2.py - string-level parts of C09 (PDB write/read round trip) and C15 (reader agreement).

Under contract
  _format_pdb_atom_line   80-column layout of an ATOM/HETATM record (PDB 3.3 coordinate section)
  _format_pdb_ter_line    layout of a TER record
  parse_pdb_atoms@decode  PREFIX contract (up to the DataFrame construction): the `records` list holds, for every ATOM/HETATM
                          line in file order, the column decode of that line
and the string lemmas that connect them (field-by-field inverse; agreement of the two readers' per-line decode).

Vocabulary
  AtomData   the dict handed to _format_pdb_atom_line, modelled as a record: the dict has exactly the keys write_pdb builds
  PdbRecord  the dict appended to `records` by parse_pdb_atoms, modelled as a record (same reason)
"""
import z3 as _z3


def spec(f):
    return f


CLASSES = {
    "AtomData": {"kind": "record", "dict_keys": True,
                 "fields": {"record_name": "str", "serial": "int", "name": "str", "altLoc": "str", "resName": "str", "chainID": "str",
                            "resSeq": "int", "iCode": "str", "x": "real", "y": "real", "z": "real", "occupancy": "real",
                            "tempFactor": "real", "element": "str", "charge": "str", "model": "int"}},
}
INLINE = []
PRUNE_BRANCHES = False

# ------------------------------------------------------------------------------------------------ assumed externals
def _fixed_limits(spc):
    """'W.Pf' -> (lo, hi, W): the open interval of values whose P-decimal rounding still fits W columns (sign included)"""
    import re
    from fractions import Fraction
    m = re.fullmatch(r"([1-9][0-9]?)\.([0-9])f", spc)
    if not m:
        return None
    w, p_ = int(m.group(1)), int(m.group(2))
    int_digits = w - p_ - (1 if p_ else 0)
    if int_digits < 2:
        return None
    half = Fraction(1, 2 * 10 ** p_)
    return -(Fraction(10) ** (int_digits - 1) - half), Fraction(10) ** int_digits - half, w


def _ext_format(e, args, kw, node, st):
    """format(x, 'W.Pf') of a float (f"{x:8.3f}", f"{x:6.2f}"): an uninterpreted function of the value, one per spec
    (py_fmt_8_3f, py_fmt_6_2f).  ASSUMED (CPython float formatting): the text has at least W characters; exactly W when the
    value lies strictly between lo = -(10^(W-P-2) - 0.5*10^-P) and hi = 10^(W-P-1) - 0.5*10^-P (its rounding to P decimals
    fits W columns, sign included); more than W when it lies strictly beyond them."""
    from pyvc.values import Unsupported, to_z3
    v, spc = args
    lim = _fixed_limits(spc) if isinstance(spc, str) else None
    if lim is None or not (isinstance(v, (int, float)) or hasattr(v, "numerator") or (hasattr(v, "sort") and v.sort() in (_z3.RealSort(), _z3.IntSort()))):
        raise Unsupported(f"format(value, {spc!r})")
    lo, hi, w = lim
    x = to_z3(v, "real")
    f = e.ufun("py_fmt_" + spc.replace(".", "_"), _z3.RealSort(), _z3.StringSort())
    s = f(x)
    if st is None:  # spec-level mention: the term only
        return s
    lo_, hi_ = _z3.RealVal(str(lo)), _z3.RealVal(str(hi))
    st.assume(_z3.Length(s) >= w)
    st.assume(_z3.Implies(_z3.And(x > lo_, x < hi_), _z3.Length(s) == w))
    st.assume(_z3.Implies(_z3.Or(x < lo_, x > hi_), _z3.Length(s) > w))
    return s


def _ext_strip(e, args, kw, node, st):
    """str.strip() without arguments: a deterministic function of the string (uninterpreted py_strip, the same symbol as in
    contracts/parser_c.py); what it computes is stated by the definitional lemma strip_definition, instantiated only where a
    proof needs it"""
    from pyvc.values import Unsupported, to_z3
    if len(args) != 1:
        raise Unsupported("str.strip(chars)")
    if isinstance(args[0], str):
        return args[0].strip()
    return e.ufun("py_strip", _z3.StringSort(), _z3.StringSort())(to_z3(args[0]))


def _ext_fmt_spec(spc):
    def f(e, args, kw, node, st):
        return _ext_format(e, [args[0], spc], kw, node, st)
    return f


def _ext_float_ok(e, args, kw, node, st):
    """float(s) does not raise ValueError: the engine's uninterpreted predicate py_float_ok"""
    from pyvc.values import to_z3
    return e.ufun("py_float_ok", _z3.StringSort(), _z3.BoolSort())(to_z3(args[0]))


def _ext_is_ws(e, args, kw, node, st):
    """is_ws(c): the (at most one-character) string c is one whitespace character in the sense of str.isspace() - the set
    WS_CHARS below, computed from the running interpreter - written as code-point comparisons"""
    from pyvc.values import to_z3
    code = _z3.StrToCode(to_z3(args[0]))
    cps = sorted(ord(ch) for ch in WS_CHARS)
    runs, lo, prev = [], cps[0], cps[0]
    for c in cps[1:] + [None]:
        if c is None or c != prev + 1:
            runs.append((lo, prev))
            lo = c
        prev = c
    return _z3.Or(*[code == a if a == b else _z3.And(code >= a, code <= b) for a, b in runs])


def _ext_first_to_last(e, args, kw, node, st):
    """first_to_last_nonblank(s) for len(s) <= 8: s[lo:hi] with lo = the first position holding a non-whitespace character
    (len(s) when there is none) and hi = one past the last such position (0 when there is none); '' when lo >= hi"""
    from pyvc.values import to_z3
    z = to_z3(args[0])
    ln = _z3.Length(z)
    nonws = lambda k: _z3.And(k < ln, _z3.Not(_ext_is_ws(e, [_z3.SubString(z, k, 1)], {}, None, None)))
    lo, hi = ln, _z3.IntVal(0)
    for k in range(7, -1, -1):
        lo = _z3.If(nonws(k), _z3.IntVal(k), lo)
    for k in range(0, 8):
        hi = _z3.If(nonws(k), _z3.IntVal(k + 1), hi)
    return _z3.If(lo >= hi, _z3.StringVal(""), _z3.SubString(z, lo, hi - lo))


# Python's str.isspace() characters (what str.strip() removes), computed from the running interpreter
WS_CHARS = "".join(chr(c) for c in range(0x30000) if chr(c).isspace())
EXTERNALS = {"spec.is_ws": _ext_is_ws, "spec.first_to_last_nonblank": _ext_first_to_last, "builtins.format": _ext_format, "str.strip": _ext_strip, "spec.fmt83": _ext_fmt_spec("8.3f"), "spec.fmt62": _ext_fmt_spec("6.2f"),
             "spec.float_ok": _ext_float_ok}
SPEC_EXTERNALS = {"is_ws": "spec.is_ws", "first_to_last_nonblank": "spec.first_to_last_nonblank", "strip": "str.strip", "fmt83": "spec.fmt83", "fmt62": "spec.fmt62", "float_ok": "spec.float_ok"}
UFUNS = {}
LEMMAS = {}

DIGIT_SIGN = "[0-9][+-]"


# ------------------------------------------------------------------------------------------------ spec vocabulary
@spec
def col(l, a, b):
    """columns a..b (1-based, inclusive) of a line"""
    return l[a - 1:b]


@spec
def fits_pdb(a):
    """the property's quantifier "whenever the data fit PDB field widths" """
    return ((a.record_name == "ATOM" or a.record_name == "HETATM")
            and 0 <= a.serial and a.serial <= 99999
            and 1 <= len(a.name) and len(a.name) <= 4
            and len(a.altLoc) <= 1
            and 1 <= len(a.resName) and len(a.resName) <= 3
            and len(a.chainID) <= 1
            and 0 - 999 <= a.resSeq and a.resSeq <= 9999
            and len(a.iCode) <= 1
            and fits83(a.x) and fits83(a.y) and fits83(a.z) and fits62(a.occupancy) and fits62(a.tempFactor)
            and len(a.element) <= 2
            and (a.charge == "" or matches(a.charge, DIGIT_SIGN)))


@spec
def fits83(x):
    return 0 - 999.9995 < x and x < 9999.9995


@spec
def fits62(x):
    return 0 - 99.995 < x and x < 999.995


LEMMAS["float_rejects_digit_sign"] = {
    # ASSUMED (CPython float()): a digit followed by a sign ('2+', '1-') is not a float literal
    "kind": "assumed-external", "params": ["s"], "shapes": ["str"],
    "requires": ["matches(s, DIGIT_SIGN)"], "ensures": ["not float_ok(s)"]}


WS_ONE = "[" + WS_CHARS + "]"
WS_STAR = WS_ONE + "*"

LEMMAS["strip_definition"] = {
    # DEFINITION of the uninterpreted py_strip (= str.strip() without arguments) on texts of at most 8 characters (every PDB
    # field is at most 8 columns wide): the part from the first to the last non-whitespace character, '' when there is none
    # (first_to_last_nonblank: an explicit case analysis over the 8 positions, see _ext_first_to_last)
    "kind": "definition", "params": ["s"], "shapes": ["str"],
    "requires": ["len(s) <= 8"],
    "ensures": ["strip(s) == first_to_last_nonblank(s)"]}

PIECES = ["p_rec", "p_ser", "p_nam", "p_alt", "p_res", "p_chn", "p_seq", "p_ico", "p_x", "p_y", "p_z", "p_occ", "p_tmp", "p_ele", "p_chg"]
WIDTHS = [6, 5, 4, 1, 3, 1, 4, 1, 8, 8, 8, 6, 6, 2, 2]
STARTS = [1, 7, 13, 17, 18, 22, 23, 27, 31, 39, 47, 55, 61, 77, 79]
LEMMAS["layout80"] = {
    # the concatenation of fifteen fields of the PDB widths with the fixed blanks between them is an 80-column line
    # holding every field at its PDB 3.3 columns (pure string arithmetic over opaque pieces)
    "kind": "smt", "params": ["L"] + PIECES, "shapes": ["str"] * 16,
    "requires": ["L == p_rec + p_ser + ' ' + p_nam + p_alt + p_res + ' ' + p_chn + p_seq + p_ico + '   ' + p_x + p_y + p_z + p_occ + p_tmp + '          ' + p_ele + p_chg"]
                + [f"len({p_}) == {w_}" for p_, w_ in zip(PIECES, WIDTHS)],
    "ensures": ["len(L) == 80"] + [f"col(L, {a_}, {a_ + w_ - 1}) == {p_}" for p_, w_, a_ in zip(PIECES, WIDTHS, STARTS)]
               + ["col(L, 12, 12) == ' '", "col(L, 21, 21) == ' '", "col(L, 28, 30) == '   '", "col(L, 67, 76) == '          '"]}


LEMMAS["strip_digit_sign"] = {
    # a digit followed by a sign contains no whitespace: strip() leaves it unchanged
    "kind": "smt", "params": ["s"], "shapes": ["str"], "requires": ["matches(s, DIGIT_SIGN)"], "ensures": ["strip(s) == s"],
    "steps": ["use strip_definition(s)"]}


class format_atom_c:
    params = {"atom_data": "rec[AtomData]"}
    requires = ["fits_pdb(atom_data)"]
    returns = "str"
    raises = []
    modifies = []
    ensures = [
        "len(result) == 80",
        "col(result, 1, 6) == atom_data.record_name.ljust(6)",
        "col(result, 7, 11) == str(atom_data.serial).rjust(5)",
        "col(result, 12, 12) == ' '",
        "col(result, 13, 16) == name_field(atom_data.name)",
        "col(result, 17, 17) == atom_data.altLoc.ljust(1)",
        "col(result, 18, 20) == atom_data.resName.rjust(3)",
        "col(result, 21, 21) == ' '",
        "col(result, 22, 22) == atom_data.chainID.ljust(1)",
        "col(result, 23, 26) == str(atom_data.resSeq).rjust(4)",
        "col(result, 27, 27) == atom_data.iCode.ljust(1)",
        "col(result, 28, 30) == '   '",
        "col(result, 31, 38) == fmt83(atom_data.x)",
        "col(result, 39, 46) == fmt83(atom_data.y)",
        "col(result, 47, 54) == fmt83(atom_data.z)",
        "col(result, 55, 60) == fmt62(atom_data.occupancy)",
        "col(result, 61, 66) == fmt62(atom_data.tempFactor)",
        "col(result, 67, 76) == '          '",
        "col(result, 77, 78) == atom_data.element.rjust(2)",
        "col(result, 79, 80) == atom_data.charge.rjust(2)",
    ]
    ensures_labels = {0: "length-80", 1: "record-name-1-6", 2: "serial-7-11-right-justified", 3: "blank-12", 4: "atom-name-13-16",
                      5: "altLoc-17", 6: "resName-18-20-right-justified", 7: "blank-21", 8: "chainID-22", 9: "resSeq-23-26-right-justified",
                      10: "iCode-27", 11: "blank-28-30", 12: "x-31-38", 13: "y-39-46", 14: "z-47-54", 15: "occupancy-55-60",
                      16: "tempFactor-61-66", 17: "blank-67-76", 18: "element-77-78-right-justified", 19: "charge-79-80"}
    ghost = [
        {"when": "before", "at": "if charge_val:", "label": "charge-is-not-a-float-literal",
         "do": ["use float_rejects_digit_sign(charge_val) when charge_val != ''"]},
        {"when": "before", "at": "charge_fmt = charge_fmt.strip()", "label": "charge-text-has-no-blanks",
         "do": ["use strip_digit_sign(charge_fmt)"]},
        {"when": "after", "at": "serial = str(", "label": "serial-fills-5-columns", "do": ["assert len(serial) == 5"]},
        {"when": "after", "at": "res_seq = str(", "label": "resSeq-fills-4-columns", "do": ["assert len(res_seq) == 4"]},
        {"when": "after", "at": "line = f", "label": "fields",
         "do": ["name line", "name record_name, serial, atom_name_fmt, alt_loc, res_name, chain_id, res_seq, icode, x, y, z, occupancy, temp_factor, element, charge_fmt",
                "assert atom_name_fmt == name_field(atom_data.name)",
                "assert alt_loc == atom_data.altLoc.ljust(1) and chain_id == atom_data.chainID.ljust(1) and icode == atom_data.iCode.ljust(1)",
                "assert charge_fmt == atom_data.charge.rjust(2)",
                "use layout80(line, record_name, serial, atom_name_fmt, alt_loc, res_name, chain_id, res_seq, icode, x, y, z, occupancy, temp_factor, element, charge_fmt)",
                "keep 38"]},
    ]


@spec
def name_field(n):
    """columns 13-16 as the code fills them: a name of fewer than four characters that starts with a letter begins in column 14,
    any other name in column 13; blank-padded on the right"""
    return ite(len(n) < 4 and n[:1].isalpha(), (" " + n).ljust(4), n.ljust(4))


# ------------------------------------------------------------------------------------------------ field-by-field inverse
@spec
def clean(s):
    """a non-empty text that neither starts nor ends with whitespace (what survives a write / strip / read cycle unchanged)"""
    return len(s) >= 1 and not is_ws(s[:1]) and not is_ws(s[-1:])


def _inv(requires, ensures, steps=("use strip_definition(F)",), params=("F", "s"), shapes=("str", "str")):
    return {"kind": "smt", "params": list(params), "shapes": list(shapes), "requires": list(requires), "ensures": list(ensures), "steps": list(steps)}


# F = the content of the field's columns as the formatter lays it out; s = the value written
LEMMAS["inv_record"] = _inv(["s == 'ATOM' or s == 'HETATM'", "F == s.ljust(6)"], ["strip(F) == s"])
LEMMAS["inv_rjust3"] = _inv(["clean(s) and len(s) <= 3", "F == s.rjust(3)"], ["strip(F) == s"])
LEMMAS["inv_rjust2"] = _inv(["(s == '' or clean(s)) and len(s) <= 2", "F == s.rjust(2)"], ["strip(F) == s"])
LEMMAS["inv_ljust1"] = _inv(["(s == '' or clean(s)) and len(s) <= 1", "F == s.ljust(1)"], ["strip(F) == s"])
LEMMAS["inv_name"] = _inv(["clean(s) and len(s) <= 4", "F == name_field(s)"], ["strip(F) == s"])
LEMMAS["inv_serial"] = _inv(["0 <= n and n <= 99999", "F == str(n).rjust(5)"], ["strip(F) == str(n)", "int(strip(F)) == n"],
                            params=("F", "n"), shapes=("str", "int"))
LEMMAS["inv_resseq"] = _inv(["0 - 999 <= n and n <= 9999", "F == str(n).rjust(4)"], ["strip(F) == str(n)", "int(strip(F)) == n"],
                            params=("F", "n"), shapes=("str", "int"))

# ------------------------------------------------------------------------------------------------ parse_pdb_atoms: per-line decode
CLASSES["PdbRecord"] = {"kind": "record", "dict_keys": True,
                        "fields": {"record_type": "str", "serial": "str", "name": "str", "altLoc": "opt[str]", "resName": "str", "chainID": "str",
                                   "resSeq": "str", "iCode": "opt[str]", "x": "str", "y": "str", "z": "str", "occupancy": "str",
                                   "tempFactor": "str", "element": "opt[str]", "charge": "opt[str]", "model": "int"}}


def _ext_splitlines(e, args, kw, node, st):
    """str.splitlines(): some list of strings (nothing is assumed about how the text is cut into lines - every clause of the
    decode contract is stated per line of whatever list this returns)"""
    from pyvc.values import fresh, uid, to_z3
    L = fresh(("list", ("str",)), uid("splitlines"))
    st.assume(to_z3(L.length) >= 0)
    return L


EXTERNALS["str.splitlines"] = _ext_splitlines


def _ext_int_ok(e, args, kw, node, st):
    """the engine's own condition for int(s) not raising ValueError (pyvc/calls.py ext_int_of_str), term for term:
    a plain digit string, or [whitespace][sign]digits[_digits..][whitespace]"""
    from pyvc.values import to_z3
    z = to_z3(args[0])
    digits = _z3.Plus(_z3.Range("0", "9"))
    ws = _z3.Star(_z3.Union(_z3.Re(" "), _z3.Re("\t"), _z3.Re("\n"), _z3.Re("\r"), _z3.Re("\x0b"), _z3.Re("\x0c")))
    us = _z3.Concat(digits, _z3.Star(_z3.Concat(_z3.Re("_"), digits)))
    return _z3.Or(_z3.InRe(z, digits), _z3.InRe(z, _z3.Concat(ws, _z3.Option(_z3.Union(_z3.Re("+"), _z3.Re("-"))), us, ws)))


EXTERNALS["spec.int_ok"] = _ext_int_ok
SPEC_EXTERNALS["int_ok"] = "spec.int_ok"


@spec
def is_atom_v2(l):
    """the table-level reader's test for an ATOM/HETATM record: columns 1-6, blanks removed"""
    return strip(col(l, 1, 6)) == "ATOM" or strip(col(l, 1, 6)) == "HETATM"


@spec
def is_model_v2(l):
    return strip(col(l, 1, 6)) == "MODEL"


@spec
def good_model_line(l):
    """a MODEL record whose serial (columns 11-14) is readable as an integer (an unreadable one is skipped by the reader)"""
    return is_model_v2(l) and int_ok(strip(col(l, 11, 14)))


@spec
def model_v2(L, m):
    """serial of the MODEL record at line m; 1 when there is none (m == -1)"""
    return ite(m < 0, 1, int(strip(col(L[m], 11, 14))))


@spec
def none_if_blank(s):
    return ite(s == "", None, s)


@spec
def decoded_v2(r, l):
    """the record of the ATOM/HETATM line l: every field is its PDB 3.3 column range with surrounding blanks removed
    (numbers still as text: they are converted by pandas afterwards); blank optional fields are None"""
    return (r.record_type == strip(col(l, 1, 6)) and r.serial == strip(col(l, 7, 11)) and r.name == strip(col(l, 13, 16))
            and r.altLoc == none_if_blank(strip(col(l, 17, 17))) and r.resName == strip(col(l, 18, 20))
            and r.chainID == strip(col(l, 22, 22)) and r.resSeq == strip(col(l, 23, 26))
            and r.iCode == none_if_blank(strip(col(l, 27, 27)))
            and r.x == strip(col(l, 31, 38)) and r.y == strip(col(l, 39, 46)) and r.z == strip(col(l, 47, 54))
            and r.occupancy == strip(col(l, 55, 60)) and r.tempFactor == strip(col(l, 61, 66))
            and r.element == none_if_blank(strip(col(l, 77, 78))) and r.charge == none_if_blank(strip(col(l, 79, 80))))


LEMMAS["decoded_v2_snoc"] = {
    # appending one decoded record (with its line index) keeps "every record is the decode of its line"
    "kind": "smt", "params": ["A", "SRC", "L", "a", "s"],
    "shapes": ["list[rec[PdbRecord]]", "list[int]", "list[str]", "rec[PdbRecord]", "int"],
    "requires": ["len(A) >= 0 and len(SRC) == len(A)",
                 "forall(lambda j: implies(0 <= j and j < len(SRC), decoded_v2(A[j], L[SRC[j]])))",
                 "decoded_v2(a, L[s])"],
    "ensures": ["forall(lambda j: implies(0 <= j and j < len(SRC) + 1, decoded_v2(snoc(A, a)[j], L[snoc(SRC, s)[j]])))"]}


class parse_pdb_atoms_decode_c:
    """PREFIX contract: parse_pdb_atoms up to (not including) the DataFrame construction.  SRC[j] = index of the line that
    records[j] was read from; POS[l] = position in records of the record of line l; MS[j] = index of the MODEL line governing
    records[j] (-1: none)"""
    params = {"content": "str"}
    requires = []
    raises = []
    modifies = []
    ensures = []
    stop_before = "if not records"
    stop_ensures = [
        "len(SRC) == len(records) and forall(lambda j: implies(0 <= j and j < len(records), 0 <= SRC[j] and SRC[j] < len(lines) and is_atom_v2(lines[SRC[j]])))",
        "forall(lambda j, j2: implies(0 <= j and j < j2 and j2 < len(records), SRC[j] < SRC[j2]))",
        "forall(lambda l: implies(0 <= l and l < len(lines) and is_atom_v2(lines[l]), 0 <= POS[l] and POS[l] < len(records) and SRC[POS[l]] == l))",
        "forall(lambda j: implies(0 <= j and j < len(records), decoded_v2(records[j], lines[SRC[j]])))",
        "len(MS) == len(records) and forall(lambda j: implies(0 <= j and j < len(records), records[j].model == model_v2(lines, MS[j]) and 0 - 1 <= MS[j] and MS[j] < SRC[j] and implies(MS[j] >= 0, good_model_line(lines[MS[j]]))))",
        "forall(lambda j, l: implies(0 <= j and j < len(records) and MS[j] < l and l < SRC[j], not good_model_line(lines[l])))",
    ]
    stop_ensures_labels = {0: "records-come-from-ATOM-HETATM-lines", 1: "in-file-order-each-once", 2: "every-ATOM-HETATM-line-has-a-record",
                           3: "fields-are-the-PDB-columns-with-blanks-removed", 4: "model-is-a-preceding-readable-MODEL-serial-or-1",
                           5: "model-is-the-LAST-preceding-readable-MODEL-serial"}
    locals = {"records": "list[rec[PdbRecord]]", "record": "rec[PdbRecord]"}
    ghost_entry = ["let SRC = empty('list[int]')", "let POS = empty('list[int]')", "let MS = empty('list[int]')", "let LM = 0 - 1"]
    loops = {0: {"index": "i", "inv": [
        "len(records) >= 0 and len(SRC) == len(records) and len(POS) == i and len(MS) == len(SRC)",
        "forall(lambda j: implies(0 <= j and j < len(SRC), 0 <= SRC[j] and SRC[j] < i and is_atom_v2(lines[SRC[j]])))",
        "forall(lambda j, j2: implies(0 <= j and j < j2 and j2 < len(SRC), SRC[j] < SRC[j2]))",
        "forall(lambda l: implies(0 <= l and l < i and is_atom_v2(lines[l]), 0 <= POS[l] and POS[l] < len(SRC) and SRC[POS[l]] == l))",
        "forall(lambda j: implies(0 <= j and j < len(SRC), decoded_v2(records[j], lines[SRC[j]])))",
        "0 - 1 <= LM and LM < i and implies(LM >= 0, good_model_line(lines[LM]))",
        "forall(lambda l: implies(LM < l and l < i, not good_model_line(lines[l])))",
        "current_model == model_v2(lines, LM)",
        "forall(lambda j: implies(0 <= j and j < len(SRC), records[j].model == model_v2(lines, MS[j]) and 0 - 1 <= MS[j] and MS[j] < SRC[j] and implies(MS[j] >= 0, good_model_line(lines[MS[j]]))))",
        "forall(lambda j, l: implies(0 <= j and j < len(SRC) and MS[j] < l and l < SRC[j], not good_model_line(lines[l])))",
    ]}}
    DECODE_ASSERTS = [
        ("record-type-1-6-serial-7-11", "record.record_type == strip(col(line, 1, 6)) and record.serial == strip(col(line, 7, 11))"),
        ("name-13-16-altLoc-17-resName-18-20", "record.name == strip(col(line, 13, 16)) and record.altLoc == none_if_blank(strip(col(line, 17, 17))) and record.resName == strip(col(line, 18, 20))"),
        ("chainID-22-resSeq-23-26-iCode-27", "record.chainID == strip(col(line, 22, 22)) and record.resSeq == strip(col(line, 23, 26)) and record.iCode == none_if_blank(strip(col(line, 27, 27)))"),
        ("x-31-38-y-39-46-z-47-54", "record.x == strip(col(line, 31, 38)) and record.y == strip(col(line, 39, 46)) and record.z == strip(col(line, 47, 54))"),
        ("occupancy-55-60-tempFactor-61-66", "record.occupancy == strip(col(line, 55, 60)) and record.tempFactor == strip(col(line, 61, 66))"),
        ("element-77-78-charge-79-80", "record.element == none_if_blank(strip(col(line, 77, 78))) and record.charge == none_if_blank(strip(col(line, 79, 80)))"),
    ]
    ghost = [
        {"when": "before", "at": "continue", "loop": 0, "label": "not-an-atom-line", "do": ["assert_last 5 not is_atom_v2(line)", "let POS = snoc(POS, 0 - 1)"]},
        {"when": "after", "at": "current_model = int(", "loop": 0, "label": "model-record", "do": ["let LM = i"]},
        {"when": "before", "at": "records.append(record)", "loop": 0, "label": "remember", "do": ["let R0 = records"]},
    ] + [{"when": "before", "at": "records.append(record)", "loop": 0, "label": lab_, "do": ["assert " + txt_]} for lab_, txt_ in DECODE_ASSERTS] + [
        {"when": "before", "at": "records.append(record)", "loop": 0, "label": "model-is-the-last-readable-MODEL-serial",
         "do": ["assert record.model == model_v2(lines, LM)"]},
        {"when": "after", "at": "records.append(record)", "loop": 0, "label": "atom-line",
         "do": ["use decoded_v2_snoc(R0, SRC, lines, record, i)", "let SRC = snoc(SRC, i)", "let MS = snoc(MS, LM)", "let POS = snoc(POS, len(records) - 1)"]},
    ]


CONTRACTS = {"_format_pdb_atom_line": format_atom_c, "parse_pdb_atoms@decode": parse_pdb_atoms_decode_c}
