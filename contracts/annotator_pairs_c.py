"""Sidecar contracts for rnapolis.annotator.find_pairs / detect_cis_trans (C03, and the contact-soundness sentence of C11).

find_pairs is cut at its phases; every phase is a PREFIX contract (stop_before) on the same function: the real function body is
executed symbolically from its first statement up to a statement behind the phase (at the latest `bph_map = merge_and_clean_bph_br(...)`,
where the base-pair list `base_pairs` is complete; it is not assigned afterwards).  A phase variant gives the loops of the OTHER phases
the invariant `true`: what those loops assign is then completely unknown when the phase starts, so the clauses of a phase hold for
EVERY value of the earlier phases' outputs - no assumption about the state a phase starts from is made.  What a phase variant leaves
to another variant is exceptions: its `raises` list allows them, and find_pairs@safe (raises = []) proves that none occurs.

    find_pairs@table            phase 0/4  rows of the coordinate table <-> (residue, atom); each (residue, atom) listed once
    find_pairs@contacts         phase 3    recorded hydrogen bonds are contacts (sound), definite base-to-base contacts are recorded
    find_pairs@bph              phase 3    base-phosphate / base-ribose triples (C11 sentence), what `used_atoms` does
    find_pairs@labels           phase 2    every label comes from one recorded bond; one bond never yields a label twice
    find_pairs@labels_complete  phase 2    every edge combination of a recorded bond has its label
    find_pairs@greedy           phase 1    count >= 2, exclusivity, maximality over Counter(labels).most_common() in ANY order
    find_pairs@output           phase 5    base_pairs == sorted(base_base_pairs) as BasePair records
    find_pairs@safe                        no exception up to the base-pair list

Reused by import (not edited): contracts/annotator_c.py - the contracts of Residue3D.find_atom, Residue3D.__lt__,
detect_bph_br_classification, detect_saenger and their vocabulary (first_idx, rlt, vangle6, degrees, cis_torsion ...), the KD-tree externals.
"""
import z3

import contracts.annotator_c as AC
from pyvc.values import Unsupported, VConc, VList, VSet, VTuple, fresh, key_terms, leaves, sel, to_z3, uid
from spec import tables as T


def spec(f):
    return f


__file_spec__ = [AC.__file__, __file__]
PRUNE_BRANCHES = False
FINITE_MEMBERSHIP = True  # x in <short constant table> as a finite disjunction (pyvc/expr.py contains)
INLINE = []

CLASSES = {
    # Atom / Residue3D / Structure3D: heap objects that find_pairs never writes (frozen dataclasses of the library).
    # label / auth identifiers are opaque tokens (only copied and compared); Optional as in the library.
    # Atom.coordinates (cached property numpy.array([x, y, z])) is read as a stored attribute, see requires REQ_COORDS.
    "Atom": {"kind": "object", "fields": {"name": "str", "x": "real", "y": "real", "z": "real", "label": "opt[int]", "auth": "opt[int]",
                                          "coordinates": "vec3"}},
    "Residue3D": {"kind": "object", "fields": {"model": "int", "one_letter_name": "str", "atoms": "list[Atom]",
                                               "base_normal_vector": "opt[vec3]", "label": "opt[int]", "auth": "opt[int]",
                                               "chain": "str", "number": "int", "icode": "opt[str]"}},
    "Structure3D": {"kind": "object", "fields": {"residues": "list[Residue3D]"}},
    "KDTree": {"kind": "object", "fields": {"points": "list[tuple[real,real,real]]"}},
    "Residue": {"kind": "record", "fields": {"label": "opt[int]", "auth": "opt[int]"}},
    "BasePair": {"kind": "record", "fields": {"nt1": "rec[Residue]", "nt2": "rec[Residue]", "lw": "enum[LeontisWesthof]", "saenger": "opt[str]"}},
}

UFUNS = dict(AC.UFUNS)
EXTERNALS = dict(AC.EXTERNALS)
SPEC_EXTERNALS = dict(AC.SPEC_EXTERNALS)
SPEC_CONSTS = dict(AC.SPEC_CONSTS)
LEMMAS = {k: AC.LEMMAS[k] for k in ("first_idx_definition", "residue_order_definition", "vangle_definition", "degrees_monotone")}

LABEL = "tuple[Residue3D,Residue3D,str,str,str]"


# ---------------------------------------------------------------------------------------------------------------------
# assumed contracts of third-party / stdlib calls (trusted base; every one is listed in props/C03.py TRUSTED)
# ---------------------------------------------------------------------------------------------------------------------
class _Counter:
    """value of collections.Counter(labels): remembers the counted list"""

    def __init__(self, items):
        self.items = items
        self.most_common = _MostCommon()


class _MostCommon:
    def __init__(self):
        self.__module__, self.__qualname__ = "collections", "Counter.most_common"

    def __call__(self, *a, **k):
        raise RuntimeError("symbolic handle")


def ext_counter(e, args, kw, node, st):
    """collections.Counter(xs) for a list xs of hashable values: the multiset of the elements of xs (keys compared with ==)."""
    xs = args[0]
    if kw or len(args) != 1 or not isinstance(xs, VList) or xs.elems is None:
        raise Unsupported("Counter of something that is not a typed list")
    return VConc(_Counter(xs))


def ext_most_common(e, args, kw, node, st):
    """counter.most_common() with counter = Counter(xs): a list MC of (key, count) pairs such that
         (1) every entry's key is an element of xs (witness CNT_POS[m]) and its count is >= 1;
         (2) different entries have different keys;
         (3) every element of xs is the key of an entry (CNT_IDX[t] = its index in MC);
         (4) count >= 2 exactly when the key occurs at two different positions of xs (witnesses CNT_W1[m] < CNT_W2[m]).
       NOTHING is assumed about the order of MC (Python documents: descending counts, ties in first-occurrence order - the
       proof does not need it, so what is proved holds for every order).  (1)-(4) are consequences of "count = number of
       occurrences of the key in xs"; the exact count is not used.  The witness maps are exposed as ghost names."""
    if kw or len(args) != 0:
        raise Unsupported("most_common(n)")
    cnt = e.ev(node.func.value, st)
    if not (isinstance(cnt, VConc) and isinstance(cnt.obj, _Counter)):
        raise Unsupported("most_common on an unknown receiver")
    xs = cnt.obj.items
    n = to_z3(xs.length)
    mc = fresh(("list", ("tuple", (xs.eshape, ("int",)))), uid("most_common"))
    L = to_z3(mc.length)
    A = z3.ArraySort(z3.IntSort(), z3.IntSort())
    pos, idx, w1, w2 = (z3.Const(uid(nm), A) for nm in ("cnt.pos", "cnt.idx", "cnt.w1", "cnt.w2"))
    m, w, t, u = z3.Int(uid("m")), z3.Int(uid("w")), z3.Int(uid("t")), z3.Int(uid("u"))
    key = lambda k_: sel(mc.elems, k_).items[0]
    cntof = lambda k_: to_z3(sel(mc.elems, k_).items[1])
    same = lambda a_, b_: to_z3(e.eq(a_, b_))
    x_at = lambda k_: sel(xs.elems, k_)
    anchor = lambda k_: leaves(key(k_))[0]
    st.assume(L >= 0)
    st.assume(z3.ForAll([m], z3.Implies(z3.And(m >= 0, m < L), z3.And(cntof(m) >= 1, pos[m] >= 0, pos[m] < n, same(x_at(pos[m]), key(m)))),
                        patterns=[anchor(m)]))
    st.assume(z3.ForAll([m, w], z3.Implies(z3.And(m >= 0, m < w, w < L), z3.Not(same(key(m), key(w)))),
                        patterns=[z3.MultiPattern(anchor(m), anchor(w))]))
    st.assume(z3.ForAll([t], z3.Implies(z3.And(t >= 0, t < n), z3.And(idx[t] >= 0, idx[t] < L, same(key(idx[t]), x_at(t)))),
                        patterns=[idx[t]]))
    st.assume(z3.ForAll([m], z3.Implies(z3.And(m >= 0, m < L, cntof(m) >= 2),
                                        z3.And(w1[m] >= 0, w1[m] < w2[m], w2[m] < n, same(x_at(w1[m]), key(m)), same(x_at(w2[m]), key(m)))),
                        patterns=[anchor(m)]))
    st.assume(z3.ForAll([t, u], z3.Implies(z3.And(t >= 0, t < u, u < n, same(x_at(t), x_at(u))), cntof(idx[t]) >= 2),
                        patterns=[z3.MultiPattern(leaves(x_at(t))[0], leaves(x_at(u))[0])]))
    for nm, arr in (("CNT_POS", pos), ("CNT_IDX", idx), ("CNT_W1", w1), ("CNT_W2", w2)):
        st.ghost[nm] = VList(L if nm != "CNT_IDX" else n, arr, ("int",))
    return mc


ext_most_common.pure = True


def ext_sorted(e, args, kw, node, st):
    """sorted(xs), the three uses in find_pairs:
       * xs a set of (int, int) pairs: the list of exactly the members of xs, each once, in strictly increasing lexicographic
         order.  Ghost name SORTED_POS: the position of a member in that list (inverse map, so no existential is needed).
       * xs a list of (Residue3D, Residue3D, LeontisWesthof) triples: a permutation of xs (bijection SORT_PI / SORT_PINV between
         positions: out[q] is xs[SORT_PI[q]]) in which no later element is smaller than an earlier one.  Of the order only these
         consequences are stated (tuple order built on Residue3D.__lt__, abbreviated rlt as in contracts/annotator_c.py):
         not rlt(out[w][0], out[q][0]), and out[w][0] is out[q][0] -> not rlt(out[w][1], out[q][1])   for q < w."""
    xs = args[0]
    if kw or len(args) != 1:
        raise Unsupported("sorted() with options")
    q, w = z3.Int(uid("q")), z3.Int(uid("w"))
    if isinstance(xs, VSet) and xs.kshape == ("tuple", (("int",), ("int",))):
        out = fresh(("list", xs.kshape), uid("sorted"))
        n = to_z3(out.length)
        at = lambda k_: [to_z3(x_) for x_ in sel(out.elems, k_).items]
        posof = z3.Const(uid("sorted.pos"), z3.ArraySort(z3.IntSort(), z3.ArraySort(z3.IntSort(), z3.IntSort())))
        a, b = z3.Int(uid("a")), z3.Int(uid("b"))
        st.assume(n >= 0)
        st.assume(z3.ForAll([q], z3.Implies(z3.And(q >= 0, q < n), z3.And(sel(xs.mem, *at(q)), posof[at(q)[0]][at(q)[1]] == q)), patterns=[at(q)[0]]))
        st.assume(z3.ForAll([q, w], z3.Implies(z3.And(q >= 0, q < w, w < n),
                                               z3.Or(at(q)[0] < at(w)[0], z3.And(at(q)[0] == at(w)[0], at(q)[1] < at(w)[1]))),
                            patterns=[z3.MultiPattern(at(q)[0], at(w)[0])]))
        st.assume(z3.ForAll([a, b], z3.Implies(sel(xs.mem, a, b), z3.And(posof[a][b] >= 0, posof[a][b] < n, at(posof[a][b])[0] == a, at(posof[a][b])[1] == b)),
                            patterns=[posof[a][b]]))
        from pyvc.values import VDict
        st.ghost["SORTED_POS"] = VDict(xs.kshape, ("int",), xs.mem, posof, None, None)
        return out
    if isinstance(xs, VList) and xs.elems is not None and xs.eshape == ("tuple", (("ref", "Residue3D"), ("ref", "Residue3D"), ("enum", "LeontisWesthof"))):
        n = to_z3(xs.length)
        out = fresh(("list", xs.eshape), uid("sorted"))
        A = z3.ArraySort(z3.IntSort(), z3.IntSort())
        pi, pinv = z3.Const(uid("sorted.pi"), A), z3.Const(uid("sorted.pinv"), A)
        st.assume(to_z3(out.length) == n)
        same = z3.And(*[a_ == b_ for a_, b_ in zip(leaves(sel(out.elems, q)), leaves(sel(xs.elems, pi[q])))])
        st.assume(z3.ForAll([q], z3.Implies(z3.And(q >= 0, q < n), z3.And(pi[q] >= 0, pi[q] < n, pinv[pi[q]] == q, same)),
                            patterns=[pi[q], to_z3(sel(out.elems, q).items[0].ident)]))
        st.assume(z3.ForAll([q], z3.Implies(z3.And(q >= 0, q < n), z3.And(pinv[q] >= 0, pinv[q] < n, pi[pinv[q]] == q)),
                            patterns=[pinv[q], to_z3(sel(xs.elems, q).items[0].ident)]))
        oq, ow = sel(out.elems, q).items, sel(out.elems, w).items
        rlt = e.ufuns["rlt"]
        idn = lambda r_: to_z3(r_.ident)
        st.assume(z3.ForAll([q, w], z3.Implies(z3.And(q >= 0, q < w, w < n),
                                               z3.And(z3.Not(rlt(idn(ow[0]), idn(oq[0]))),
                                                      z3.Implies(idn(ow[0]) == idn(oq[0]), z3.Not(rlt(idn(ow[1]), idn(oq[1])))))),
                            patterns=[z3.MultiPattern(idn(oq[0]), idn(ow[0]))]))
        st.ghost["SORT_PI"] = VList(n, pi, ("int",))
        st.ghost["SORT_PINV"] = VList(n, pinv, ("int",))
        return out
    raise Unsupported("sorted() of this value has no assumed contract here")


EXTERNALS["builtins.sorted"] = ext_sorted

EXTERNALS.update({"collections.Counter": ext_counter, "collections.Counter.most_common": ext_most_common})


# ---------------------------------------------------------------------------------------------------------------------
# find_pairs: what every phase variant shares
# ---------------------------------------------------------------------------------------------------------------------
XYZ = "tuple[real,real,real]"
HB = "tuple[Atom,Atom,Residue3D,Residue3D]"
BBP = "tuple[Residue3D,Residue3D,enum[LeontisWesthof]]"
LOCALS = {
    "coordinates": f"list[{XYZ}]", "coordinates_atom_map": f"dict[{XYZ},Atom]", "coordinates_type_map": f"dict[{XYZ},str]",
    "coordinates_residue_map": f"dict[{XYZ},Residue3D]",
    "hydrogen_bonds": f"list[{HB}]", "base_phosphate_pairs": "list[tuple[Residue3D,Residue3D,int]]",
    "base_ribose_pairs": "list[tuple[Residue3D,Residue3D,int]]", "used_atoms": "set[Atom]",
    "labels": f"list[{LABEL}]", "base_base_pairs": f"list[{BBP}]", "occupied": "set[tuple[Residue3D,str]]",
    "base_pairs": "list[rec[BasePair]]",
}
ANY_EXC = ["KeyError", "IndexError", "AttributeError", "TypeError", "ValueError", "ZeroDivisionError"]


class _FindPairsBase:
    target = "find_pairs"
    params = {"structure": "Structure3D", "model": "opt[int]"}
    requires = []
    ensures = []
    modifies = []
    locals = LOCALS
    callee_variants = {"angle_between_vectors": "total"}


class angle_total:
    """angle_between_vectors without a precondition: for two non-zero vectors the angle (as contracts/annotator_c.py angle_c),
    ZeroDivisionError only for a zero vector (A-real reading of the division; numpy itself would return nan)"""
    target = "angle_between_vectors"
    params = {"v1": "vec3", "v2": "vec3"}
    requires = []
    returns = "real"
    raises = {"ZeroDivisionError": "not (dot3(v1, v1) > 0 and dot3(v2, v2) > 0)"}
    raises_exact = ("ZeroDivisionError",)
    nonnull_params = True  # an Optional argument must be shown not to be None at the call site (obligation there)
    modifies = []
    ghost_entry = ["use vangle_definition(v1, v2)"]
    ensures = ["implies(dot3(v1, v1) > 0 and dot3(v2, v2) > 0, result == vangle(v1, v2))"]
    ensures_labels = {0: "angle-is-arccos-of-normalised-dot-product"}


# ---------------------------------------------------------------------------------------------------------------------
# detect_cis_trans: 'c' iff the torsion C1'-N1/N9 ... N1/N9-C1' lies in (-90, 90) degrees
# ---------------------------------------------------------------------------------------------------------------------
@spec
def glyc(r):
    """name of the base atom bonded to C1': N9 for the purines A, G, N1 otherwise (`in "AG"` is Python's substring test: for a
    one-letter name exactly "is A or G"; names that are not one letter long get whatever the substring test says)"""
    return ite(r.one_letter_name in "AG", "N9", "N1")


@spec
def has_glyc_frame(r):
    """the residue has its C1' atom and its N1/N9 atom"""
    return first_idx(r, "C1'") >= 0 and first_idx(r, glyc(r)) >= 0


@spec
def c1p(r):
    return r.atoms[first_idx(r, "C1'")]


@spec
def nglyc(r):
    return r.atoms[first_idx(r, glyc(r))]


class detect_cis_trans_c:
    target = "detect_cis_trans"
    params = {"residue_i": "Residue3D", "residue_j": "Residue3D"}
    requires = []
    returns = "opt[str]"
    raises = []
    modifies = []
    callee_variants = {}
    ghost_entry = [f"use first_idx_definition({r}, {n!r})" for r in ("residue_i", "residue_j") for n in ("C1'", "N9", "N1")]
    ensures = [
        "is_none(result) == (not (has_glyc_frame(residue_i) and has_glyc_frame(residue_j)))",
        "implies(not is_none(result), result == 'c' or result == 't')",
        "implies(not is_none(result) and cis_torsion(c1p(residue_i), nglyc(residue_i), nglyc(residue_j), c1p(residue_j)), result == 'c')",
        "implies(not is_none(result) and trans_torsion(c1p(residue_i), nglyc(residue_i), nglyc(residue_j), c1p(residue_j)), result == 't')",
    ]
    ensures_labels = {0: "none-iff-a-frame-atom-is-missing", 1: "letter-is-c-or-t", 2: "torsion-inside-(-90,90)-gives-c", 3: "torsion-outside-[-90,90]-gives-t"}


# ---------------------------------------------------------------------------------------------------------------------
# PHASE 1 (greedy loop over Counter(labels).most_common()): exclusivity and maximality, for EVERY list `labels`
# ---------------------------------------------------------------------------------------------------------------------
@spec
def lab_class(L):
    """the class name spelled by a label: cis/trans letter + the two edge letters"""
    return L[2] + L[3] + L[4]


@spec
def same_label(L, M):
    return L[0] == M[0] and L[1] == M[1] and L[2] == M[2] and L[3] == M[3] and L[4] == M[4]


@spec
def pair_of(p, L):
    """the reported triple p is the label L: its two residues, and the Leontis-Westhof member named by L's letters"""
    return p[0] == L[0] and p[1] == L[1] and LW_NAMES[p[2]] == lab_class(L)


@spec
def keys_disjoint(L, M):
    """the two (residue, edge) keys of label L are different from the two keys of label M"""
    return (not (L[0] == M[0] and L[3] == M[3]) and not (L[0] == M[1] and L[3] == M[4])
            and not (L[1] == M[0] and L[4] == M[3]) and not (L[1] == M[1] and L[4] == M[4]))


@spec
def takes(P, L):
    """reported label P uses one of the two (residue, edge) keys of label L"""
    return ((P[0] == L[0] and P[3] == L[3]) or (P[1] == L[0] and P[4] == L[3])
            or (P[0] == L[1] and P[3] == L[4]) or (P[1] == L[1] and P[4] == L[4]))


_TW = "(0 <= t and t < u and u < len(labels) and same_label(labels[t], labels[u]))"
_U = "CNT_IDX[t]"
_K1, _K2 = f"(MC[{_U}][0][0], MC[{_U}][0][3])", f"(MC[{_U}][0][1], MC[{_U}][0][4])"
_WIT = f"ite(0 <= REP[{_U}] and REP[{_U}] < len(base_base_pairs) and SRC8[REP[{_U}]] == {_U}, REP[{_U}], ite({_K1} in occupied, OCC[{_K1}], OCC[{_K2}]))"


class find_pairs_greedy(_FindPairsBase):
    """Ghost state: PL[k] = the label from which base_base_pairs[k] was made; SRC8[k] = its index in the most_common() list MC;
    REP[u] = index in base_base_pairs of the pair made from entry u of MC (-1: none); OCC[(r, e)] = index of the reported pair
    that took the key (r, e)."""
    stop_before = "base_pairs = []"
    raises = ANY_EXC
    loops = {0: [], 1: [], 2: [], 3: [], 4: [], 5: [], 6: [], 7: [],
             8: {"index": "m", "iter": "MC", "labels": {0: "lengths", 1: "every-reported-pair-comes-from-a-label-counted-twice",
                                                       2: "occupied-keys-belong-to-reported-pairs", 3: "keys-of-reported-pairs-are-occupied",
                                                       4: "no-edge-used-by-two-reported-pairs", 5: "processed-labels-counted-twice-are-reported-or-blocked"},
                 "inv": [
                     "0 <= len(base_base_pairs) and len(PL) == len(base_base_pairs) and len(SRC8) == len(base_base_pairs)",
                     "forall(lambda k: implies(0 <= k and k < len(base_base_pairs), 0 <= SRC8[k] and SRC8[k] < m and MC[SRC8[k]][1] >= 2 "
                     "and same_label(PL[k], MC[SRC8[k]][0]) and pair_of(base_base_pairs[k], PL[k]) and REP[SRC8[k]] == k))",
                     "forall(lambda r, e: implies((ref(Residue3D, r), e) in occupied, 0 <= OCC[ref(Residue3D, r), e] and OCC[ref(Residue3D, r), e] < len(base_base_pairs) "
                     "and ((ident(PL[OCC[ref(Residue3D, r), e]][0]) == r and PL[OCC[ref(Residue3D, r), e]][3] == e) "
                     "or (ident(PL[OCC[ref(Residue3D, r), e]][1]) == r and PL[OCC[ref(Residue3D, r), e]][4] == e))), sorts={'e': 'str'})",
                     "forall(lambda k: implies(0 <= k and k < len(base_base_pairs), (PL[k][0], PL[k][3]) in occupied and (PL[k][1], PL[k][4]) in occupied))",
                     "forall(lambda k, l: implies(0 <= k and k < l and l < len(base_base_pairs), keys_disjoint(PL[k], PL[l])))",
                     "forall(lambda u: implies(0 <= u and u < m and MC[u][1] >= 2, "
                     "(0 <= REP[u] and REP[u] < len(base_base_pairs) and SRC8[REP[u]] == u) "
                     "or (MC[u][0][0], MC[u][0][3]) in occupied or (MC[u][0][1], MC[u][0][4]) in occupied))",
                 ]}}
    ghost = [
        {"when": "after", "at": "base_base_pairs = []", "label": "ghost-init",
         "do": [f"let PL = empty('list[{LABEL}]')", "let SRC8 = empty('list[int]')", "let REP = empty('dict[int,int]')",
                "let OCC = empty('dict[tuple[Residue3D,str],int]')"]},
        {"when": "before", "at": "continue", "loop": 8, "label": "skipped-entry", "do": ["let REP = dstore(REP, m, 0 - 1)"]},
        {"when": "after", "at": "base_base_pairs.append(", "label": "record-pair",
         "do": ["let OCC = dstore(dstore(OCC, (residue_i, edge_i), len(PL)), (residue_j, edge_j), len(PL))",
                "let REP = dstore(REP, m, len(PL))", "let SRC8 = snoc(SRC8, m)", "let PL = snoc(PL, interaction)"]},
    ]
    ghost.append(
        {"when": "before", "at": "base_pairs = []", "label": "maximality-witness", "do": [
            f"forall t, u | assert implies({_TW}, 0 <= {_U} and {_U} < len(MC) and MC[{_U}][1] >= 2 and same_label(MC[{_U}][0], labels[t]))"
            f" | assert implies({_TW}, 0 <= {_WIT} and {_WIT} < len(base_base_pairs) and (same_label(PL[{_WIT}], labels[t]) or takes(PL[{_WIT}], labels[t])))"
            f" | assert implies({_TW}, exists(lambda k: 0 <= k and k < len(base_base_pairs) and (same_label(PL[k], labels[t]) or takes(PL[k], labels[t]))))"]})
    stop_ensures = [
        # SOUNDNESS of the count: a reported pair is a label that occurs at two different positions of `labels`
        "len(PL) == len(base_base_pairs) and forall(lambda k: implies(0 <= k and k < len(base_base_pairs), "
        "0 <= CNT_W1[SRC8[k]] and CNT_W1[SRC8[k]] < CNT_W2[SRC8[k]] and CNT_W2[SRC8[k]] < len(labels) "
        "and same_label(labels[CNT_W1[SRC8[k]]], PL[k]) and same_label(labels[CNT_W2[SRC8[k]]], PL[k]) and pair_of(base_base_pairs[k], PL[k])))",
        # EXCLUSIVITY: no (residue, edge) is used by two reported pairs
        "forall(lambda k, l: implies(0 <= k and k < l and l < len(base_base_pairs), keys_disjoint(PL[k], PL[l])))",
        # MAXIMALITY: a label occurring at two different positions is reported with that class, or a reported pair takes one of its keys
        "forall(lambda t, u: implies(0 <= t and t < u and u < len(labels) and same_label(labels[t], labels[u]), "
        "exists(lambda k: 0 <= k and k < len(base_base_pairs) and (same_label(PL[k], labels[t]) or takes(PL[k], labels[t])))))",
    ]
    stop_ensures_labels = {0: "every-reported-pair-is-a-label-occurring-twice", 1: "no-edge-used-by-two-reported-pairs",
                           2: "every-label-occurring-twice-is-reported-or-has-an-edge-taken"}


# ---------------------------------------------------------------------------------------------------------------------
# PHASE 2 (labelling loop): every label comes from one recorded hydrogen bond, for EVERY list `hydrogen_bonds`
# ---------------------------------------------------------------------------------------------------------------------
# pinned edge table (spec/tables.py), flattened to (base, atom name, edge letter) triples
EDGE_TRIPLES = [(b, a, ch) for b, tab in T.BASE_EDGES.items() for a, es in tab.items() for ch in es]
SPEC_CONSTS["EDGE_TRIPLES"] = EDGE_TRIPLES


@spec
def on_edge(r, a, e):
    """the pinned Leontis-Westhof edge table assigns edge e to atom a of a residue with the base of r"""
    return (r.one_letter_name, a.name, e) in EDGE_TRIPLES


@spec
def cis_ok(ri, rj, c):
    """c is the letter that detect_cis_trans is proved to return for (ri, rj): both glycosidic frames exist, and the letter is
    'c' when the torsion C1'-N1/N9 ... N1/N9-C1' is inside (-90, 90) degrees, 't' when it is outside [-90, 90] (EPS-sandwich)"""
    return (has_glyc_frame(ri) and has_glyc_frame(rj) and (c == 'c' or c == 't')
            and implies(cis_torsion(c1p(ri), nglyc(ri), nglyc(rj), c1p(rj)), c == 'c')
            and implies(trans_torsion(c1p(ri), nglyc(ri), nglyc(rj), c1p(rj)), c == 't'))


@spec
def lab_ok(L, hb):
    """label L = (lower residue, higher residue, letter, edge of lower, edge of higher) is derived from the recorded hydrogen
    bond hb = (atom_i, atom_j, residue_i, residue_j)"""
    return cis_ok(hb[2], hb[3], L[2]) and ite(res_lt(hb[2], hb[3]),
                                              L[0] == hb[2] and L[1] == hb[3] and on_edge(hb[2], hb[0], L[3]) and on_edge(hb[3], hb[1], L[4]),
                                              L[0] == hb[3] and L[1] == hb[2] and on_edge(hb[3], hb[1], L[3]) and on_edge(hb[2], hb[0], L[4]))


@spec
def distinct_chars(s):
    return forall(lambda a, b: implies(0 <= a and a < b and b < len(s), char(s, a) != char(s, b)))


_LEN3 = "0 <= len(labels) and len(SRC3) == len(labels) and len(E1) == len(labels) and len(E2) == len(labels)"
_ORD3 = ("forall(lambda t, u: implies(0 <= t and t < u and u < len(labels), SRC3[t] <= SRC3[u] "
         "and implies(SRC3[t] == SRC3[u], labels[t][3] != labels[u][3] or labels[t][4] != labels[u][4])))")
_OK3 = lambda bound: f"forall(lambda t: implies(0 <= t and t < len(labels), 0 <= SRC3[t] and SRC3[t] {bound} and lab_ok(labels[t], hydrogen_bonds[SRC3[t]])))"
# labels made so far from the current hydrogen bond: which characters of the two edge strings they carry
_CUR = lambda lim, c3, c4: (f"forall(lambda t: implies(0 <= t and t < len(labels) and SRC3[t] == h, 0 <= E1[t] and 0 <= E2[t] and E2[t] < len(edges_j) and {lim} "
                            f"and labels[t][3] == {c3} and labels[t][4] == {c4}))")
_CI, _CJ = "char(edges_i, E1[t])", "char(edges_j, E2[t])"
_L3 = {0: "lengths", 1: "every-label-comes-from-a-recorded-hydrogen-bond", 2: "one-hydrogen-bond-never-yields-the-same-label-twice", 3: "labels-of-the-current-hydrogen-bond"}


class find_pairs_labels(_FindPairsBase):
    """Ghost state: SRC3[t] = index in hydrogen_bonds of the bond from which labels[t] was made; E1[t], E2[t] = positions in the
    edge strings of atom_i / atom_j of the characters labels[t] carries."""
    stop_before = "base_base_pairs = []"
    raises = ANY_EXC
    loops = {
        0: [], 1: [], 2: [],
        3: {"index": "h", "labels": _L3, "inv": [_LEN3, _OK3("< h"), _ORD3]},
        4: {"index": "p4", "labels": _L3, "inv": [_LEN3, _OK3("<= h"), _ORD3, _CUR("E1[t] < p4", _CI, _CJ)]},
        5: {"index": "p5", "labels": _L3, "inv": [_LEN3, _OK3("<= h"), _ORD3, _CUR("(E1[t] < p4 or (E1[t] == p4 and E2[t] < p5))", _CI, _CJ)]},
        6: {"index": "p6", "labels": _L3, "inv": [_LEN3, _OK3("<= h"), _ORD3, _CUR("E1[t] < p6", _CJ, _CI)]},
        7: {"index": "p7", "labels": _L3, "inv": [_LEN3, _OK3("<= h"), _ORD3, _CUR("(E1[t] < p6 or (E1[t] == p6 and E2[t] < p7))", _CJ, _CI)]},
    }
    ghost = [
        {"when": "after", "at": "labels = []", "label": "ghost-init", "do": ["let SRC3 = empty('list[int]')", "let E1 = empty('list[int]')", "let E2 = empty('list[int]')"]},
        {"when": "before", "at": "for edge_i in edges_i", "label": "edge-strings-have-distinct-letters",
         "do": ["assert distinct_chars(edges_i) and distinct_chars(edges_j)",
                "assert forall(lambda a: implies(0 <= a and a < len(edges_i), on_edge(residue_i, atom_i, char(edges_i, a)))) "
                "and forall(lambda a: implies(0 <= a and a < len(edges_j), on_edge(residue_j, atom_j, char(edges_j, a))))",
                "assert cis_ok(residue_i, residue_j, cis_trans)"]},
        {"when": "after", "at": "labels.append((residue_i, residue_j", "label": "record-label",
         "do": ["let SRC3 = snoc(SRC3, h)", "let E1 = snoc(E1, p4)", "let E2 = snoc(E2, p5)"]},
        {"when": "after", "at": "labels.append((residue_j, residue_i", "label": "record-label-swapped",
         "do": ["let SRC3 = snoc(SRC3, h)", "let E1 = snoc(E1, p6)", "let E2 = snoc(E2, p7)"]},
    ]
    stop_ensures = [
        "len(SRC3) == len(labels) and forall(lambda t: implies(0 <= t and t < len(labels), 0 <= SRC3[t] and SRC3[t] < len(hydrogen_bonds) "
        "and lab_ok(labels[t], hydrogen_bonds[SRC3[t]])))",
        "forall(lambda t, u: implies(0 <= t and t < u and u < len(labels) and same_label(labels[t], labels[u]), SRC3[t] != SRC3[u]))",
    ]
    stop_ensures_labels = {0: "every-label-comes-from-a-recorded-hydrogen-bond(edges-of-the-pinned-table,lower-residue-first,cis-trans-letter)",
                           1: "two-occurrences-of-a-label-come-from-two-different-hydrogen-bonds"}


# ---- PHASE 2, completeness half: every (edge, edge) combination that the pinned table gives a recorded hydrogen bond has its label
@spec
def lab_has(L, hb, e1, e2):
    """L is the label of hydrogen bond hb for edge e1 of atom_i's residue and edge e2 of atom_j's residue (lower residue first)"""
    return ite(res_lt(hb[2], hb[3]), L[0] == hb[2] and L[1] == hb[3] and L[3] == e1 and L[4] == e2,
               L[0] == hb[3] and L[1] == hb[2] and L[3] == e2 and L[4] == e1)


@spec
def demand(hb, e1, e2):
    """a label is demanded: both atoms are on the named edges (pinned table) and both glycosidic frames exist"""
    return on_edge(hb[2], hb[0], e1) and on_edge(hb[3], hb[1], e2) and has_glyc_frame(hb[2]) and has_glyc_frame(hb[3])


@spec
def lp_ok(labels, SRC3, LP, hydrogen_bonds, g, e1, e2):
    return (0 <= LP[g, e1, e2] and LP[g, e1, e2] < len(labels) and SRC3[LP[g, e1, e2]] == g
            and lab_has(labels[LP[g, e1, e2]], hydrogen_bonds[g], e1, e2))


_LPA = "labels, SRC3, LP, hydrogen_bonds"
_LEN3C = "0 <= len(labels) and len(SRC3) == len(labels)"
_DONE3 = (f"forall(lambda g, e1, e2: implies(0 <= g and g < h and demand(hydrogen_bonds[g], e1, e2), lp_ok({_LPA}, g, e1, e2)), "
          "sorts={'e1': 'str', 'e2': 'str'})")
# (edge strings have at most two letters - ghost assert below - so the positions a, b are enumerated instead of quantified)
_CURC = lambda cond: " and ".join(f"implies({b} < len(edges_j) and {cond(a, b)}, lp_ok({_LPA}, h, char(edges_i, {a}), char(edges_j, {b})))"
                                  for a in (0, 1) for b in (0, 1))
_L3C = {0: "lengths", 1: "every-demanded-label-of-the-processed-bonds-is-present", 2: "labels-of-the-current-bond-made-so-far"}


class find_pairs_labels_complete(_FindPairsBase):
    """Ghost state: SRC3 as in find_pairs@labels; LP[(g, e1, e2)] = position in `labels` of the label of bond g for edges e1, e2."""
    stop_before = "base_base_pairs = []"
    raises = ANY_EXC
    loops = {
        0: [], 1: [], 2: [],
        3: {"index": "h", "labels": _L3C, "inv": [_LEN3C, _DONE3]},
        4: {"index": "p4", "labels": _L3C, "inv": [_LEN3C, _DONE3, _CURC(lambda a, b: f"{a} < p4")]},
        5: {"index": "p5", "labels": _L3C, "inv": [_LEN3C, _DONE3, _CURC(lambda a, b: f"({a} < p4 or ({a} == p4 and {b} < p5))")]},
        6: {"index": "p6", "labels": _L3C, "inv": [_LEN3C, _DONE3, _CURC(lambda a, b: f"{a} < p6")]},
        7: {"index": "p7", "labels": _L3C, "inv": [_LEN3C, _DONE3, _CURC(lambda a, b: f"({a} < p6 or ({a} == p6 and {b} < p7))")]},
    }
    ghost = [
        {"when": "after", "at": "labels = []", "label": "ghost-init", "do": ["let SRC3 = empty('list[int]')", "let LP = empty('dict[tuple[int,str,str],int]')"]},
        {"when": "before", "at": "continue", "loop": 3, "label": "a-skipped-bond-demands-no-label",
         "do": ["assert forall(lambda e1, e2: not demand(hydrogen_bonds[h], e1, e2), sorts={'e1': 'str', 'e2': 'str'})"]},
        {"when": "before", "at": "for edge_i in edges_i", "label": "the-code's-edge-strings-cover-the-pinned-table",
         "do": ["assert forall(lambda e: implies(on_edge(residue_i, atom_i, e), e == char(edges_i, 0) or (1 < len(edges_i) and e == char(edges_i, 1))), sorts={'e': 'str'})",
                "assert forall(lambda e: implies(on_edge(residue_j, atom_j, e), e == char(edges_j, 0) or (1 < len(edges_j) and e == char(edges_j, 1))), sorts={'e': 'str'})",
                "assert distinct_chars(edges_i) and distinct_chars(edges_j) and 1 <= len(edges_i) and len(edges_i) <= 2 and 1 <= len(edges_j) and len(edges_j) <= 2"]},
        {"when": "before", "at": "labels.append((residue_i, residue_j", "label": "positions-in-the-edge-strings",
         "do": ["assert (p4 == 0 or p4 == 1) and (p5 == 0 or p5 == 1) and edge_i == char(edges_i, p4) and edge_j == char(edges_j, p5)"]},
        {"when": "before", "at": "labels.append((residue_j, residue_i", "label": "positions-in-the-edge-strings",
         "do": ["assert (p6 == 0 or p6 == 1) and (p7 == 0 or p7 == 1) and edge_i == char(edges_i, p6) and edge_j == char(edges_j, p7)"]},
        {"when": "after", "at": "labels.append((residue_i, residue_j", "label": "record-label",
         "do": ["let LP = dstore(LP, (h, edge_i, edge_j), len(SRC3))", "let SRC3 = snoc(SRC3, h)"]},
        {"when": "after", "at": "labels.append((residue_j, residue_i", "label": "record-label-swapped",
         "do": ["let LP = dstore(LP, (h, edge_i, edge_j), len(SRC3))", "let SRC3 = snoc(SRC3, h)"]},
    ]
    stop_ensures = [
        # witness form of "... there is a position t of `labels` with SRC3[t] == g holding that label": t = LP[g, e1, e2]
        f"forall(lambda g, e1, e2: implies(0 <= g and g < len(hydrogen_bonds) and demand(hydrogen_bonds[g], e1, e2), lp_ok({_LPA}, g, e1, e2)), "
        "sorts={'e1': 'str', 'e2': 'str'})",
    ]
    stop_ensures_labels = {0: "every-edge-combination-of-a-recorded-hydrogen-bond-has-its-label"}


# ---------------------------------------------------------------------------------------------------------------------
# PHASE 0 / 4 (atom table): row k of `coordinates` <-> (residue, atom name); every (residue, atom) is listed once
# ---------------------------------------------------------------------------------------------------------------------
SPEC_CONSTS.update({
    "ACC_PAIRS": [(b, n) for b, ns in T.BASE_ACCEPTORS.items() for n in ns],
    "DON_PAIRS": [(b, n) for b, ns in T.BASE_DONORS.items() for n in ns],
    "RIBOSE_OX": list(T.RIBOSE_ACCEPTORS), "PHOSPHATE_OX": list(T.PHOSPHATE_ACCEPTORS),
    "D_HB": T.HBOND_MAX, "ANG_LO": T.HBOND_ANGLE[0], "ANG_HI": T.HBOND_ANGLE[1],
})


@spec
def in_model(r, model):
    """the residue belongs to the analysed model (all residues when no model is given)"""
    return is_none(model) or r.model == model


@spec
def is_acc(r, n):
    """pinned tables: n names an acceptor atom of residue r (base acceptor of its base, ribose or phosphate oxygen)"""
    return (r.one_letter_name, n) in ACC_PAIRS or n in RIBOSE_OX or n in PHOSPHATE_OX


@spec
def is_don(r, n):
    """pinned table: n names a donor atom of the base of residue r"""
    return (r.one_letter_name, n) in DON_PAIRS


@spec
def named_atom(r, n):
    """the atom of r called n (the first one of that name, as Residue3D.find_atom is proved to return)"""
    return r.atoms[first_idx(r, n)]


@spec
def xyz_of(a):
    return (a.x, a.y, a.z)


@spec
def row_is(S, model, GA, GN, coordinates, k):
    """row k of the table stands for the atom named GN[k] (a listed donor / acceptor name) of residue S[GA[k]] of the model"""
    return (0 <= GA[k] and GA[k] < len(S) and in_model(S[GA[k]], model) and (is_acc(S[GA[k]], GN[k]) or is_don(S[GA[k]], GN[k]))
            and 0 <= first_idx(S[GA[k]], GN[k]) and first_idx(S[GA[k]], GN[k]) < len(S[GA[k]].atoms)
            and named_atom(S[GA[k]], GN[k]).name == GN[k]
            and coordinates[k] == xyz_of(named_atom(S[GA[k]], GN[k])))


@spec
def row_maps(S, GA, GN, coordinates, amap, tmap_, rmap, k):
    """the three coordinate-keyed dictionaries map the coordinates of row k to its atom, its type ("acceptor" when the name is an
    acceptor name, else "donor") and its residue"""
    return (coordinates[k] in amap and amap[coordinates[k]] == named_atom(S[GA[k]], GN[k])
            and coordinates[k] in tmap_ and tmap_[coordinates[k]] == ite(is_acc(S[GA[k]], GN[k]), "acceptor", "donor")
            and coordinates[k] in rmap and rmap[coordinates[k]] == S[GA[k]])


@spec
def row_ok(S, model, GA, GN, coordinates, amap, tmap_, rmap, k):
    return row_is(S, model, GA, GN, coordinates, k) and row_maps(S, GA, GN, coordinates, amap, tmap_, rmap, k)


_S = "structure.residues"
_ROW = lambda k: f"row_ok({_S}, model, GA, GN, coordinates, coordinates_atom_map, coordinates_type_map, coordinates_residue_map, {k})"
# distinct atoms of the residues of the analysed model have distinct coordinates (the coordinate-keyed dictionaries lose rows otherwise)
REQ_DISTINCT = (f"forall(lambda a, b, p, q: implies(0 <= a and a < len({_S}) and 0 <= b and b < len({_S}) and in_model({_S}[a], model) and in_model({_S}[b], model) "
                f"and 0 <= p and p < len({_S}[a].atoms) and 0 <= q and q < len({_S}[b].atoms) and (a != b or p != q), "
                f"xyz_of({_S}[a].atoms[p]) != xyz_of({_S}[b].atoms[q])), pats=[['{_S}[a].atoms[p].x', '{_S}[b].atoms[q].x']])")
_ORD = "ORD"
_T_LEN = "0 <= len(coordinates) and len(GA) == len(coordinates) and len(GN) == len(coordinates) and len(GQ) == len(coordinates)"
_RIS = lambda k: f"row_is({_S}, model, GA, GN, coordinates, {k})"
_T_ROWS0 = f"forall(lambda k: implies(0 <= k and k < len(coordinates), {_RIS('k')} and GA[k] < a), pats=['GA[k]'])"
_T_ROWS1 = (f"forall(lambda k: implies(0 <= k and k < len(coordinates), {_RIS('k')} and GA[k] <= a "
            f"and implies(GA[k] == a, 0 <= GQ[k] and GQ[k] < kk and GN[k] == {_ORD}[GQ[k]])), pats=['GA[k]'])")
_T_MAPS = (f"forall(lambda k: implies(0 <= k and k < len(coordinates), row_maps({_S}, GA, GN, coordinates, coordinates_atom_map, coordinates_type_map, "
           "coordinates_residue_map, k)), pats=['GA[k]'])")
_T_ORDER = "forall(lambda k, w: implies(0 <= k and k < w and w < len(coordinates), GA[k] < GA[w] or (GA[k] == GA[w] and GQ[k] < GQ[w])), pats=[['GA[k]', 'GA[w]']])"
_T_DISTXYZ = "forall(lambda k, w: implies(0 <= k and k < w and w < len(coordinates), coordinates[k] != coordinates[w]), pats=[['coordinates[k][0]', 'coordinates[w][0]']])"
_T_ONCE = "forall(lambda k, w: implies(0 <= k and k < w and w < len(coordinates), not (GA[k] == GA[w] and GN[k] == GN[w])), pats=[['GA[k]', 'GA[w]']])"
_T_LAB = {0: "lengths", 1: "rows-are-listed-atoms-of-the-model", 2: "dictionaries-map-row-coordinates-to-the-row", 3: "rows-in-structure-order",
          4: "rows-have-distinct-coordinates", 5: "each-(residue,atom)-listed-once"}
_TABLE_GHOST = [
    {"when": "after", "at": "coordinates = []", "label": "ghost-init",
     "do": ["let GA = empty('list[int]')", "let GN = empty('list[str]')", "let GQ = empty('list[int]')"]},
    {"when": "after", "at": "donors = ", "label": "code-tables-equal-pinned-tables",
     "do": ["assert forall(lambda n: (n in acceptors) == is_acc(residue, n), sorts={'n': 'str'})",
            "assert forall(lambda n: (n in donors) == is_don(residue, n), sorts={'n': 'str'})"]},
    {"when": "after", "at": "atom = residue.find_atom(", "label": "iterated-name-is-a-listed-name",
     "do": ["use first_idx_definition(residue, atom_name)", "assert atom_name in acceptors or atom_name in donors",
            "assert (atom_name in acceptors) == is_acc(residue, atom_name) and (atom_name in donors) == is_don(residue, atom_name)"]},
    {"when": "after", "at": "atom = residue.find_atom(", "label": "each-atom-name-of-a-residue-is-visited-once",
     "do": [f"assert forall(lambda q: implies(0 <= q and q < kk, {_ORD}[q] != atom_name))"]},
    {"when": "before", "at": "coordinates.append(", "label": "new-coordinate-differs-from-all-earlier",
     "do": [f"assert atom == named_atom(residue, atom_name) and 0 <= first_idx(residue, atom_name) and first_idx(residue, atom_name) < len(residue.atoms) and residue == {_S}[a]",
            f"assert forall(lambda k: implies(0 <= k and k < len(coordinates), GA[k] != a or first_idx({_S}[GA[k]], GN[k]) != first_idx(residue, atom_name)), pats=['GA[k]'])",
            f"forall k | assert implies(0 <= k and k < len(coordinates), {_ROW('k')} and (GA[k] != a or first_idx({_S}[GA[k]], GN[k]) != first_idx(residue, atom_name)))"
            f" | assert in_model({_S}[a], model) and 0 <= a and a < len({_S})"
            f" | assert implies(0 <= k and k < len(coordinates), xyz_of({_S}[GA[k]].atoms[first_idx({_S}[GA[k]], GN[k])]) != xyz_of({_S}[a].atoms[first_idx({_S}[a], atom_name)]))"
            " | assert implies(0 <= k and k < len(coordinates), coordinates[k] != xyz)"]},
    {"when": "after", "at": "coordinates.append(", "label": "record-row",
     "do": ["let GA = snoc(GA, a)", "let GN = snoc(GN, atom_name)", "let GQ = snoc(GQ, kk)"]},
]


class find_pairs_table(_FindPairsBase):
    """Ghost state: GA[k] = position in structure.residues of the residue of row k, GN[k] = its atom name, GQ[k] = position of
    that name among the names iterated for the residue."""
    stop_before = "kdtree = KDTree("
    requires = [REQ_DISTINCT]
    raises = []
    loops = {
        0: {"index": "a", "labels": _T_LAB, "inv": [_T_LEN, _T_ROWS0, _T_MAPS, _T_ORDER, _T_DISTXYZ, _T_ONCE]},
        1: {"index": "kk", "elems": "ORD", "labels": _T_LAB, "inv": [_T_LEN, _T_ROWS1, _T_MAPS, _T_ORDER, _T_DISTXYZ, _T_ONCE]},
    }
    ghost = list(_TABLE_GHOST)
    stop_ensures = [
        f"len(GA) == len(coordinates) and len(GN) == len(coordinates) and forall(lambda k: implies(0 <= k and k < len(coordinates), {_ROW('k')}))",
        "forall(lambda k, w: implies(0 <= k and k < w and w < len(coordinates), not (GA[k] == GA[w] and GN[k] == GN[w])))",
        "forall(lambda k, w: implies(0 <= k and k < w and w < len(coordinates), coordinates[k] != coordinates[w]))",
    ]
    stop_ensures_labels = {0: "every-row-is-a-listed-atom-of-a-residue-of-the-model", 1: "distinct-rows-are-distinct-(residue,atom)-pairs",
                           2: "distinct-rows-have-distinct-coordinates"}


# ---------------------------------------------------------------------------------------------------------------------
# PHASE 3 (contact classification loop over the sorted KD-tree pair set)
# ---------------------------------------------------------------------------------------------------------------------
LEMMAS["sumsq_pos"] = AC.LEMMAS["sumsq_pos"]


@spec
def ratom(S, GA, GN, k):
    """the atom of table row k"""
    return named_atom(S[GA[k]], GN[k])


@spec
def sqd(P, Q):
    """squared Euclidean distance of two points (the uninterpreted function shared with the KD-tree contract)"""
    return sqdist(P[0], P[1], P[2], Q[0], Q[1], Q[2])


@spec
def same_res_id(x, y):
    """the library's same-residue test on two atoms: equal label identifiers, or equal auth identifiers (None never matches)"""
    return ((not is_none(x.label) and x.label == y.label) or (not is_none(x.auth) and x.auth == y.auth))


@spec
def hvec(x, y):
    """the contact vector, from atom y to atom x"""
    return vec(x.x - y.x, x.y - y.y, x.z - y.z)


@spec
def off_normal(r, x, y, e):
    """the contact direction lies more than ANG_LO - e and less than ANG_HI + e degrees off the base normal of residue r"""
    return (not is_none(r.base_normal_vector) and ANG_LO - e < ang(some(r.base_normal_vector), hvec(x, y))
            and ang(some(r.base_normal_vector), hvec(x, y)) < ANG_HI + e)


@spec
def donor_acceptor(S, GA, GN, i, j):
    """one row is an acceptor atom, the other a donor atom that is not also an acceptor name (pinned tables)"""
    return ((is_acc(S[GA[i]], GN[i]) and not is_acc(S[GA[j]], GN[j]) and is_don(S[GA[j]], GN[j]))
            or (is_acc(S[GA[j]], GN[j]) and not is_acc(S[GA[i]], GN[i]) and is_don(S[GA[i]], GN[i])))


@spec
def near(coordinates, i, j):
    return 0 <= i and i < j and j < len(coordinates) and sqd(coordinates[i], coordinates[j]) <= D_HB * D_HB


@spec
def backbone_oxygen(n):
    return n in PHOSPHATE_OX or n in RIBOSE_OX


@spec
def contact(S, GA, GN, coordinates, i, j, e):
    """rows i < j are a donor-acceptor contact of two different residues within D_HB whose direction lies (ANG_LO - e, ANG_HI + e)
    degrees off both base normals; e = +EPS: may be one, e = -EPS: definitely is one"""
    return (near(coordinates, i, j) and donor_acceptor(S, GA, GN, i, j) and not same_res_id(ratom(S, GA, GN, i), ratom(S, GA, GN, j))
            and off_normal(S[GA[i]], ratom(S, GA, GN, i), ratom(S, GA, GN, j), e) and off_normal(S[GA[j]], ratom(S, GA, GN, i), ratom(S, GA, GN, j), e))


@spec
def hb_is(hb, S, GA, GN, i, j):
    return hb[0] == ratom(S, GA, GN, i) and hb[1] == ratom(S, GA, GN, j) and hb[2] == S[GA[i]] and hb[3] == S[GA[j]]


# atoms carry the identifiers of their residue, and a residue has at least one identifier (how the library's readers build residues)
REQ_IDS = (f"forall(lambda a, p: implies(0 <= a and a < len({_S}) and 0 <= p and p < len({_S}[a].atoms), "
           f"{_S}[a].atoms[p].label == {_S}[a].label and {_S}[a].atoms[p].auth == {_S}[a].auth "
           f"and not (is_none({_S}[a].label) and is_none({_S}[a].auth))), pats=['ident({_S}[a].atoms[p])'])")
# Atom.coordinates is the cached property numpy.array([x, y, z])
REQ_COORDS = "forall(lambda x: x.coordinates == vec(x.x, x.y, x.z), sorts={'x': 'Atom'})"
# an existing base normal is a non-zero vector (tertiary.py returns a unit vector; NaN for collinear atoms is outside A-real)
REQ_NORMAL = ("forall(lambda r: implies(not is_none(r.base_normal_vector), dot3(some(r.base_normal_vector), some(r.base_normal_vector)) > 0), "
              "sorts={'r': 'Residue3D'})")
_TBL = f"{_S}, GA, GN"
_H_LEN = "0 <= len(hydrogen_bonds) and len(SRC2) == len(hydrogen_bonds) and len(POS2) == w"
_H_SOUND = (f"forall(lambda h: implies(0 <= h and h < len(hydrogen_bonds), 0 <= SRC2[h] and SRC2[h] < w and POS2[SRC2[h]] == h "
            f"and hb_is(hydrogen_bonds[h], {_TBL}, EN[SRC2[h]][0], EN[SRC2[h]][1]) and contact({_TBL}, coordinates, EN[SRC2[h]][0], EN[SRC2[h]][1], EPS)), pats=['SRC2[h]'])")
_H_INCR = "forall(lambda h, g: implies(0 <= h and h < g and g < len(hydrogen_bonds), SRC2[h] < SRC2[g]), pats=[['SRC2[h]', 'SRC2[g]']])"
_H_COMPLETE = (f"forall(lambda u: implies(0 <= u and u < w, (POS2[u] == 0 - 1 or (0 <= POS2[u] and POS2[u] < len(hydrogen_bonds) and SRC2[POS2[u]] == u)) "
               f"and implies(contact({_TBL}, coordinates, EN[u][0], EN[u][1], 0 - EPS) and not backbone_oxygen(GN[EN[u][0]]) and not backbone_oxygen(GN[EN[u][1]]), "
               f"0 <= POS2[u])), pats=['POS2[u]'])")
_H_LAB = {0: "lengths", 1: "every-recorded-hydrogen-bond-is-a-contact", 2: "recorded-in-enumeration-order",
          3: "every-definite-base-to-base-contact-is-recorded"}


_CT = f"(contact({_TBL}, coordinates, i, j, 0 - EPS) and not backbone_oxygen(GN[i]) and not backbone_oxygen(GN[j]))"


class find_pairs_contacts(_FindPairsBase):
    """Ghost state: GA/GN/GQ as in find_pairs@table; EN = the list sorted(kdtree.query_pairs(..)); SRC2[h] = position in EN of the
    index pair from which hydrogen_bonds[h] was made; POS2[u] = position in hydrogen_bonds of what step u appended (-1: nothing)."""
    stop_before = "labels = []"
    requires = [REQ_DISTINCT, REQ_IDS, REQ_COORDS, REQ_NORMAL]
    raises = ANY_EXC
    loops = {
        0: {"index": "a", "labels": _T_LAB, "inv": [_T_LEN, _T_ROWS0, _T_MAPS, _T_ORDER, _T_DISTXYZ]},
        1: {"index": "kk", "elems": "ORD", "labels": _T_LAB, "inv": [_T_LEN, _T_ROWS1, _T_MAPS, _T_ORDER, _T_DISTXYZ]},
        2: {"index": "w", "iter": "EN", "labels": _H_LAB, "inv": [_H_LEN, _H_SOUND, _H_INCR, _H_COMPLETE]},
    }
    ghost = list(_TABLE_GHOST) + [
        {"when": "after", "at": "hydrogen_bonds = []", "label": "ghost-init2", "do": ["let SRC2 = empty('list[int]')", "let POS2 = empty('list[int]')"]},
        {"when": "after", "at": "atom_j = coordinates_atom_map", "label": "pair-of-step",
         "do": [f"assert 0 <= i and i < j and j < len(coordinates) and sqd(coordinates[i], coordinates[j]) <= D_HB * D_HB",
                f"assert {_ROW('i')} and {_ROW('j')}",
                f"assert atom_i == ratom({_TBL}, i) and atom_j == ratom({_TBL}, j) "
                f"and (type_i == type_j) == (is_acc({_S}[GA[i]], GN[i]) == is_acc({_S}[GA[j]], GN[j]))"]},
        {"when": "after", "at": "residue_j = coordinates_residue_map", "label": "residues-of-step",
         "do": [f"assert residue_i == {_S}[GA[i]] and residue_j == {_S}[GA[j]]"]},
        {"when": "before", "at": "continue", "loop": 2, "label": "a-skipped-pair-is-not-a-definite-base-to-base-contact",
         "do": [f"assert not (contact({_TBL}, coordinates, i, j, 0 - EPS) and not backbone_oxygen(GN[i]) and not backbone_oxygen(GN[j]))",
                "let POS2 = snoc(POS2, 0 - 1)"]},
        {"when": "after", "at": "vector = ", "label": "contact-vector-is-not-zero",
         "do": ["assert vector[0] != 0 or vector[1] != 0 or vector[2] != 0", "use sumsq_pos(vector[0], vector[1], vector[2])",
                "assert vector == hvec(atom_i, atom_j)"]},
        {"when": "after", "at": "angle2 = ", "label": "angles-are-the-angles-off-the-base-normals",
         "do": ["assert angle1 == ang(some(residue_i.base_normal_vector), hvec(atom_i, atom_j)) and angle2 == ang(some(residue_j.base_normal_vector), hvec(atom_i, atom_j))"]},
        {"when": "before", "at": "if HYDROGEN_BOND_ANGLE_RANGE[0] < angle1", "label": "ghost-step", "do": ["let POS2 = snoc(POS2, 0 - 1)"]},
        {"when": "after", "at": "hydrogen_bonds.append(", "label": "a-recorded-pair-is-a-contact",
         "do": [f"assert contact({_TBL}, coordinates, i, j, EPS)", "let SRC2 = snoc(SRC2, w)", "let POS2 = upd(POS2, w, len(hydrogen_bonds) - 1)"]},
        {"when": "after", "at": "if HYDROGEN_BOND_ANGLE_RANGE[0] < angle1", "label": "a-pair-failing-the-angle-test-is-not-a-definite-contact",
         "do": [f"assert implies(POS2[w] == 0 - 1, not contact({_TBL}, coordinates, i, j, 0 - EPS))"]},
        {"when": "before", "at": "labels = []", "label": "completeness-witness", "do": [
            f"forall i, j | assert implies({_CT}, (i, j) in kdtree.query_pairs(D_HB) and 0 <= SORTED_POS[i, j] and SORTED_POS[i, j] < len(EN) "
            f"and EN[SORTED_POS[i, j]][0] == i and EN[SORTED_POS[i, j]][1] == j)"
            f" | assert implies({_CT}, 0 <= POS2[SORTED_POS[i, j]] and POS2[SORTED_POS[i, j]] < len(hydrogen_bonds) and SRC2[POS2[SORTED_POS[i, j]]] == SORTED_POS[i, j])"
            f" | assert implies({_CT}, hb_is(hydrogen_bonds[POS2[SORTED_POS[i, j]]], {_TBL}, i, j))"
            f" | assert implies({_CT}, exists(lambda h: 0 <= h and h < len(hydrogen_bonds) and hb_is(hydrogen_bonds[h], {_TBL}, i, j)))"]},
    ]
    stop_ensures = [
        f"len(SRC2) == len(hydrogen_bonds) and forall(lambda h: implies(0 <= h and h < len(hydrogen_bonds), 0 <= SRC2[h] and SRC2[h] < len(EN) "
        f"and (EN[SRC2[h]][0], EN[SRC2[h]][1]) in kdtree.query_pairs(D_HB) and GA[EN[SRC2[h]][0]] != GA[EN[SRC2[h]][1]] "
        f"and hb_is(hydrogen_bonds[h], {_TBL}, EN[SRC2[h]][0], EN[SRC2[h]][1]) and contact({_TBL}, coordinates, EN[SRC2[h]][0], EN[SRC2[h]][1], EPS)))",
        "forall(lambda h, g: implies(0 <= h and h < g and g < len(hydrogen_bonds), EN[SRC2[h]][0] != EN[SRC2[g]][0] or EN[SRC2[h]][1] != EN[SRC2[g]][1]))",
        f"forall(lambda i, j: implies(contact({_TBL}, coordinates, i, j, 0 - EPS) and not backbone_oxygen(GN[i]) and not backbone_oxygen(GN[j]), "
        f"exists(lambda h: 0 <= h and h < len(hydrogen_bonds) and hb_is(hydrogen_bonds[h], {_TBL}, i, j))))",
    ]
    stop_ensures_labels = {0: "every-recorded-hydrogen-bond-is-a-donor-acceptor-contact-within-4A-off-both-normals",
                           1: "two-recorded-hydrogen-bonds-are-two-different-row-pairs",
                           2: "every-definite-base-to-base-contact-is-recorded"}


# ---- PHASE 3, base-phosphate / base-ribose branch (C11: "each base-phosphate/base-ribose contact runs from a base donor atom to a
# phosphate/ribose oxygen within 4.0 A ... never joins a residue with itself") and what `used_atoms` does
@spec
def bb_contact(S, GA, GN, coordinates, d, c, oxygens):
    """row d is a base donor atom (a donor name of its base that is not also an acceptor name), row c an oxygen of `oxygens`, the
    two atoms are within D_HB and the library's same-residue test fails on them"""
    return ((near(coordinates, d, c) or near(coordinates, c, d))
            and is_don(S[GA[d]], GN[d]) and not is_acc(S[GA[d]], GN[d]) and GN[c] in oxygens
            and not same_res_id(ratom(S, GA, GN, d), ratom(S, GA, GN, c)))


_B_LEN = ("0 <= len(base_phosphate_pairs) and len(PD) == len(base_phosphate_pairs) and len(PC) == len(base_phosphate_pairs) "
          "and 0 <= len(base_ribose_pairs) and len(RD) == len(base_ribose_pairs) and len(RC) == len(base_ribose_pairs)")
_B_SOUND = lambda lst, D, C, ox: (
    f"forall(lambda b: implies(0 <= b and b < len({lst}), bb_contact({_TBL}, coordinates, {D}[b], {C}[b], {ox}) "
    f"and {lst}[b][0] == {_S}[GA[{D}[b]]] and {lst}[b][1] == {_S}[GA[{C}[b]]] "
    f"and ratom({_TBL}, {D}[b]) in used_atoms and ratom({_TBL}, {C}[b]) in used_atoms), pats=['{D}[b]'])")
_DISJ = lambda D1, C1, b, D2, C2, g: (f"ratom({_TBL}, {D1}[{b}]) != ratom({_TBL}, {D2}[{g}]) and ratom({_TBL}, {D1}[{b}]) != ratom({_TBL}, {C2}[{g}]) "
                                      f"and ratom({_TBL}, {C1}[{b}]) != ratom({_TBL}, {D2}[{g}]) and ratom({_TBL}, {C1}[{b}]) != ratom({_TBL}, {C2}[{g}])")
_B_ONCE_P = f"forall(lambda b, g: implies(0 <= b and b < g and g < len(base_phosphate_pairs), {_DISJ('PD', 'PC', 'b', 'PD', 'PC', 'g')}), pats=[['PD[b]', 'PD[g]']])"
_B_ONCE_R = f"forall(lambda b, g: implies(0 <= b and b < g and g < len(base_ribose_pairs), {_DISJ('RD', 'RC', 'b', 'RD', 'RC', 'g')}), pats=[['RD[b]', 'RD[g]']])"
_B_ONCE_X = (f"forall(lambda b, g: implies(0 <= b and b < len(base_phosphate_pairs) and 0 <= g and g < len(base_ribose_pairs), "
             f"{_DISJ('PD', 'PC', 'b', 'RD', 'RC', 'g')}), pats=[['PD[b]', 'RD[g]']])")
_B_USED = ("forall(lambda x: implies(x in used_atoms, (UK[x] == 0 and 0 <= UB[x] and UB[x] < len(base_phosphate_pairs) "
           f"and (x == ratom({_TBL}, PD[UB[x]]) or x == ratom({_TBL}, PC[UB[x]]))) "
           "or (UK[x] == 1 and 0 <= UB[x] and UB[x] < len(base_ribose_pairs) "
           f"and (x == ratom({_TBL}, RD[UB[x]]) or x == ratom({_TBL}, RC[UB[x]])))), sorts={{'x': 'Atom'}})")
_B_LAB = {0: "lengths", 1: "base-phosphate-contacts-run-from-a-base-donor-to-a-phosphate-oxygen-within-4A-of-another-residue",
          2: "base-ribose-contacts-run-from-a-base-donor-to-a-ribose-oxygen-within-4A-of-another-residue",
          3: "no-atom-in-two-base-phosphate-contacts", 4: "no-atom-in-two-base-ribose-contacts", 5: "no-atom-in-a-base-phosphate-and-a-base-ribose-contact",
          6: "used-atoms-are-atoms-of-recorded-contacts"}
_D_ROW, _C_ROW = "DROW", "CROW"


class find_pairs_bph(_FindPairsBase):
    """Ghost state: PD[b] / PC[b] = table rows of the donor / acceptor atom of base_phosphate_pairs[b]; RD / RC the same for
    base_ribose_pairs; UK[x] / UB[x] = kind (0 BPh, 1 BR) and index of the recorded contact that put atom x into used_atoms."""
    stop_before = "labels = []"
    requires = [REQ_DISTINCT, REQ_IDS, REQ_COORDS, REQ_NORMAL]
    raises = ANY_EXC
    loops = {
        0: {"index": "a", "labels": _T_LAB, "inv": [_T_LEN, _T_ROWS0, _T_MAPS, _T_ORDER, _T_DISTXYZ]},
        1: {"index": "kk", "elems": "ORD", "labels": _T_LAB, "inv": [_T_LEN, _T_ROWS1, _T_MAPS, _T_ORDER, _T_DISTXYZ]},
        2: {"index": "w", "iter": "EN", "labels": _B_LAB,
            "inv": [_B_LEN, _B_SOUND("base_phosphate_pairs", "PD", "PC", "PHOSPHATE_OX"), _B_SOUND("base_ribose_pairs", "RD", "RC", "RIBOSE_OX"),
                    _B_ONCE_P, _B_ONCE_R, _B_ONCE_X, _B_USED]},
    }
    ghost = list(_TABLE_GHOST) + [
        {"when": "after", "at": "hydrogen_bonds = []", "label": "ghost-init2",
         "do": ["let PD = empty('list[int]')", "let PC = empty('list[int]')", "let RD = empty('list[int]')", "let RC = empty('list[int]')",
                "let UK = empty('dict[Atom,int]')", "let UB = empty('dict[Atom,int]')", "let DROW = 0", "let CROW = 0"]},
        {"when": "after", "at": "atom_j = coordinates_atom_map", "label": "pair-of-step",
         "do": [f"assert 0 <= i and i < j and j < len(coordinates) and sqd(coordinates[i], coordinates[j]) <= D_HB * D_HB",
                f"assert {_ROW('i')} and {_ROW('j')}",
                f"assert atom_i == ratom({_TBL}, i) and atom_j == ratom({_TBL}, j) and atom_i != atom_j "
                f"and type_i == ite(is_acc({_S}[GA[i]], GN[i]), 'acceptor', 'donor') and type_j == ite(is_acc({_S}[GA[j]], GN[j]), 'acceptor', 'donor')"]},
        {"when": "after", "at": "residue_j = coordinates_residue_map", "label": "residues-of-step",
         "do": [f"assert residue_i == {_S}[GA[i]] and residue_j == {_S}[GA[j]]"]},
        {"when": "after", "at": "donor_residue, acceptor_residue = (residue_i, residue_j)", "label": "donor-is-row-i", "do": ["let DROW = i", "let CROW = j"]},
        {"when": "after", "at": "donor_residue, acceptor_residue = (residue_j, residue_i)", "label": "donor-is-row-j", "do": ["let DROW = j", "let CROW = i"]},
        {"when": "after", "at": "base_phosphate_pairs.append(", "label": "a-recorded-base-phosphate-contact",
         "do": [f"assert bb_contact({_TBL}, coordinates, {_D_ROW}, {_C_ROW}, PHOSPHATE_OX)",
                "let UK = dstore(dstore(UK, atom_i, 0), atom_j, 0)", "let UB = dstore(dstore(UB, atom_i, len(PD)), atom_j, len(PD))",
                f"let PD = snoc(PD, {_D_ROW})", f"let PC = snoc(PC, {_C_ROW})"]},
        {"when": "after", "at": "base_ribose_pairs.append(", "label": "a-recorded-base-ribose-contact",
         "do": [f"assert bb_contact({_TBL}, coordinates, {_D_ROW}, {_C_ROW}, RIBOSE_OX)",
                "let UK = dstore(dstore(UK, atom_i, 1), atom_j, 1)", "let UB = dstore(dstore(UB, atom_i, len(RD)), atom_j, len(RD))",
                f"let RD = snoc(RD, {_D_ROW})", f"let RC = snoc(RC, {_C_ROW})"]},
    ]
    stop_ensures = [
        "len(PD) == len(base_phosphate_pairs) and len(PC) == len(base_phosphate_pairs) and "
        f"forall(lambda b: implies(0 <= b and b < len(base_phosphate_pairs), bb_contact({_TBL}, coordinates, PD[b], PC[b], PHOSPHATE_OX) "
        f"and base_phosphate_pairs[b][0] == {_S}[GA[PD[b]]] and base_phosphate_pairs[b][1] == {_S}[GA[PC[b]]] and GA[PD[b]] != GA[PC[b]]))",
        "len(RD) == len(base_ribose_pairs) and len(RC) == len(base_ribose_pairs) and "
        f"forall(lambda b: implies(0 <= b and b < len(base_ribose_pairs), bb_contact({_TBL}, coordinates, RD[b], RC[b], RIBOSE_OX) "
        f"and base_ribose_pairs[b][0] == {_S}[GA[RD[b]]] and base_ribose_pairs[b][1] == {_S}[GA[RC[b]]] and GA[RD[b]] != GA[RC[b]]))",
        _B_ONCE_P, _B_ONCE_R, _B_ONCE_X,
    ]
    stop_ensures_labels = {0: "base-phosphate-contacts-run-from-a-base-donor-to-a-phosphate-oxygen-within-4A-of-another-residue",
                           1: "base-ribose-contacts-run-from-a-base-donor-to-a-ribose-oxygen-within-4A-of-another-residue",
                           2: "no-atom-in-two-base-phosphate-contacts", 3: "no-atom-in-two-base-ribose-contacts",
                           4: "no-atom-in-a-base-phosphate-and-a-base-ribose-contact"}


# ---------------------------------------------------------------------------------------------------------------------
# PHASE 5 (output assembly): base_pairs is sorted(base_base_pairs) turned into BasePair records
# ---------------------------------------------------------------------------------------------------------------------
class detect_saenger_ord:
    """detect_saenger as proved in contracts/annotator_c.py (C11: detect_saenger_c, enum parameter modelled as the record (name, value)),
    re-stated for the engine's ordinal encoding of an enum member read back from a list: the k-th member of LeontisWesthof has the
    value LW_NAMES[k] (name == value for all 18 members).  The result is the NAME of the Saenger member.  ASSUMED at the call site in
    find_pairs (listed in props/C03.py); its body cannot be verified under the ordinal encoding (`lw.value`)."""
    target = "detect_saenger"
    params = {"residue_i": "Residue3D", "residue_j": "Residue3D", "lw": "enum[LeontisWesthof]"}
    requires = ["0 <= lw and lw < len(LW_NAMES)"]
    returns = "opt[str]"
    raises = []
    modifies = []
    ensures = ["result == saenger_of(SAENGER_PINNED, residue_i.one_letter_name, residue_j.one_letter_name, LW_NAMES[lw])"]


@spec
def bp_of(bp, t):
    """the BasePair record bp is built from the triple t = (residue_i, residue_j, lw)"""
    return (bp.nt1.label == t[0].label and bp.nt1.auth == t[0].auth and bp.nt2.label == t[1].label and bp.nt2.auth == t[1].auth and bp.lw == t[2]
            and bp.saenger == saenger_of(SAENGER_PINNED, t[0].one_letter_name, t[1].one_letter_name, LW_NAMES[t[2]]))


class find_pairs_output(_FindPairsBase):
    """Ghost state: SP = sorted(base_base_pairs) (the list the loop iterates); SORT_PI / SORT_PINV the permutation of the assumed
    contract of sorted()."""
    stop_before = "bph_map = merge_and_clean_bph_br("
    raises = ANY_EXC
    callee_variants = {"angle_between_vectors": "total", "detect_saenger": "ord"}
    loops = {0: [], 1: [], 2: [], 3: [], 4: [], 5: [], 6: [], 7: [],
             8: {"index": "m", "labels": {0: "class-ordinals-are-members"},
                 "inv": ["forall(lambda k: implies(0 <= k and k < len(base_base_pairs), 0 <= base_base_pairs[k][2] and base_base_pairs[k][2] < len(LW_NAMES)))"]},
             9: {"index": "q9", "iter": "SP", "labels": {0: "length", 1: "records-built-from-the-sorted-triples"},
                 "inv": ["len(base_pairs) == q9",
                         "forall(lambda q: implies(0 <= q and q < q9, bp_of(base_pairs[q], SP[q])))"]}}
    ghost = [
        {"when": "before", "at": "base_pairs.append(", "label": "class-ordinal-is-a-member",
         "do": ["assert 0 <= SORT_PI[q9] and SORT_PI[q9] < len(base_base_pairs) and lw == base_base_pairs[SORT_PI[q9]][2]"]},
    ]
    stop_ensures = [
        "len(base_pairs) == len(base_base_pairs) and len(SP) == len(base_base_pairs) "
        "and forall(lambda q: implies(0 <= q and q < len(base_pairs), bp_of(base_pairs[q], SP[q])))",
        # SP is a rearrangement of base_base_pairs (bijection SORT_PI with inverse SORT_PINV) ...
        "forall(lambda q: implies(0 <= q and q < len(SP), 0 <= SORT_PI[q] and SORT_PI[q] < len(SP) and SORT_PINV[SORT_PI[q]] == q "
        "and SP[q][0] == base_base_pairs[SORT_PI[q]][0] and SP[q][1] == base_base_pairs[SORT_PI[q]][1] and SP[q][2] == base_base_pairs[SORT_PI[q]][2]))",
        "forall(lambda k: implies(0 <= k and k < len(SP), 0 <= SORT_PINV[k] and SORT_PINV[k] < len(SP) and SORT_PI[SORT_PINV[k]] == k))",
        # ... ordered by residue order of the first, then of the second residue
        "forall(lambda q, w: implies(0 <= q and q < w and w < len(SP), not res_lt(SP[w][0], SP[q][0]) and implies(SP[w][0] == SP[q][0], not res_lt(SP[w][1], SP[q][1]))))",
    ]
    stop_ensures_labels = {0: "every-BasePair-record-is-built-from-its-triple(ids,class,Saenger-of-pinned-table)",
                           1: "output-is-a-rearrangement-of-the-reported-triples", 2: "no-reported-triple-is-lost",
                           3: "output-sorted-by-residue-order"}


# ---------------------------------------------------------------------------------------------------------------------
# NO EXCEPTION up to the base-pair list (the phase variants above leave exceptions to this variant)
# ---------------------------------------------------------------------------------------------------------------------
@spec
def lab_alphabet(L):
    return (L[2] == 'c' or L[2] == 't') and (L[3] == 'W' or L[3] == 'H' or L[3] == 'S') and (L[4] == 'W' or L[4] == 'H' or L[4] == 'S')


_ALPH = "forall(lambda t: implies(0 <= t and t < len(labels), lab_alphabet(labels[t])))"
_AL = {0: "labels-spell-class-names"}


class find_pairs_safe(_FindPairsBase):
    """raises = []: every exception the statements up to `bph_map = ...` could raise (IndexError / KeyError of the table and dictionary
    lookups, ZeroDivisionError of the angle computation, KeyError of LeontisWesthof[...], AttributeError / TypeError on None) is an
    obligation here."""
    stop_before = "bph_map = merge_and_clean_bph_br("
    requires = [REQ_DISTINCT, REQ_IDS, REQ_COORDS, REQ_NORMAL]
    raises = []
    callee_variants = {"angle_between_vectors": "total", "detect_saenger": "ord"}
    loops = {
        0: {"index": "a", "labels": _T_LAB, "inv": [_T_LEN, _T_ROWS0, _T_MAPS, _T_ORDER, _T_DISTXYZ]},
        1: {"index": "kk", "elems": "ORD", "labels": _T_LAB, "inv": [_T_LEN, _T_ROWS1, _T_MAPS, _T_ORDER, _T_DISTXYZ]},
        2: {"index": "w", "iter": "EN", "inv": []},
        3: {"inv": [_ALPH], "labels": _AL}, 4: {"inv": [_ALPH], "labels": _AL}, 5: {"inv": [_ALPH], "labels": _AL},
        6: {"inv": [_ALPH], "labels": _AL}, 7: {"inv": [_ALPH], "labels": _AL},
        8: {"index": "m", "iter": "MC", "labels": {0: "class-ordinals-are-members"},
            "inv": ["forall(lambda k: implies(0 <= k and k < len(base_base_pairs), 0 <= base_base_pairs[k][2] and base_base_pairs[k][2] < len(LW_NAMES)))"]},
        9: {"index": "q9", "iter": "SP", "inv": ["len(base_pairs) == q9"]},
    }
    ghost = list(_TABLE_GHOST) + [
        {"when": "before", "at": "type_i = coordinates_type_map", "label": "pair-of-step",
         "do": [f"assert 0 <= i and i < j and j < len(coordinates)", f"assert {_ROW('i')} and {_ROW('j')}"]},
        {"when": "after", "at": "atom_j = coordinates_atom_map", "label": "atoms-of-step",
         "do": [f"assert atom_i == ratom({_TBL}, i) and atom_j == ratom({_TBL}, j)"]},
        {"when": "after", "at": "vector = ", "label": "contact-vector-is-not-zero",
         "do": ["assert vector[0] != 0 or vector[1] != 0 or vector[2] != 0", "use sumsq_pos(vector[0], vector[1], vector[2])"]},
        {"when": "before", "at": "for edge_i in edges_i", "label": "edge-letters",
         "do": ["assert forall(lambda a: implies(0 <= a and a < len(edges_i), char(edges_i, a) == 'W' or char(edges_i, a) == 'H' or char(edges_i, a) == 'S'))",
                "assert forall(lambda a: implies(0 <= a and a < len(edges_j), char(edges_j, a) == 'W' or char(edges_j, a) == 'H' or char(edges_j, a) == 'S'))"]},
        {"when": "after", "at": "residue_i, residue_j, cis_trans, edge_i, edge_j = interaction", "label": "counted-label-spells-a-class-name",
         "do": ["assert 0 <= CNT_POS[m] and CNT_POS[m] < len(labels) and same_label(labels[CNT_POS[m]], interaction)", "assert lab_alphabet(interaction)"]},
        {"when": "before", "at": "base_pairs.append(", "label": "class-ordinal-is-a-member",
         "do": ["assert 0 <= SORT_PI[q9] and SORT_PI[q9] < len(base_base_pairs) and lw == base_base_pairs[SORT_PI[q9]][2]"]},
    ]
    stop_ensures = ["len(base_pairs) == len(base_base_pairs)"]
    stop_ensures_labels = {0: "reached-without-exception"}


CONTRACTS = {
    "Residue3D.find_atom": AC.find_atom_c,
    "Residue3D.__lt__": AC.res_lt_c,
    "angle_between_vectors": AC.angle_c,
    "detect_bph_br_classification": AC.detect_bph_br_c,
    "angle_between_vectors@total": angle_total,
    "detect_cis_trans": detect_cis_trans_c,
    "find_pairs@greedy": find_pairs_greedy,
    "find_pairs@table": find_pairs_table,
    "find_pairs@contacts": find_pairs_contacts,
    "find_pairs@bph": find_pairs_bph,
    "find_pairs@labels": find_pairs_labels,
    "find_pairs@output": find_pairs_output,
    "find_pairs@safe": find_pairs_safe,
    "detect_saenger": AC.detect_saenger_c,
    "detect_saenger@ord": detect_saenger_ord,
    "find_pairs@labels_complete": find_pairs_labels_complete,
}
