"""Sidecar contracts for rnapolis.annotator.find_pairs / detect_cis_trans (C03, and the contact-soundness sentence of C11).

find_pairs is cut at its phases; every phase is a PREFIX contract (stop_before) on the same function:
the real function body is executed symbolically up to the statement `bph_map = merge_and_clean_bph_br(...)` (the base-pair
list `base_pairs` is complete there and is not assigned afterwards).  A phase variant gives the loops of the OTHER phases the
invariant `true`: what those loops assign is then completely unknown when the phase starts, so the clauses of a phase hold
for EVERY value of the earlier phases' outputs - no assumption about the state a phase starts from is made.  What a variant
leaves to the other variants is exceptions (its `raises` list names the exception types whose absence another variant proves).

Reused by import (not edited): contracts/annotator_c.py - Residue3D.find_atom, Residue3D.__lt__, angle_between_vectors
contracts and their vocabulary (first_idx, rlt, vangle6, degrees), the KD-tree externals.
"""
import z3

import contracts.annotator_c as AC
from pyvc.values import Unsupported, VConc, VList, VSet, VTuple, fresh, key_terms, leaves, sel, to_z3, uid
from spec import tables as T


def spec(f):
    return f


__file_spec__ = [AC.__file__, __file__]
PRUNE_BRANCHES = False
INLINE = []

CLASSES = {
    # Atom / Residue3D / Structure3D: heap objects that find_pairs never writes (frozen dataclasses of the library).
    # label / auth identifiers are opaque tokens (only copied and compared); Optional as in the library.
    # Atom.coordinates (cached property numpy.array([x, y, z])) is read as a stored attribute, see requires `coords_def`.
    "Atom": {"kind": "object", "fields": {"name": "str", "x": "real", "y": "real", "z": "real", "label": "opt[int]", "auth": "opt[int]",
                                          "coordinates": "vec3"}},
    "Residue3D": {"kind": "object", "fields": {"model": "int", "one_letter_name": "str", "atoms": "list[Atom]",
                                               "base_normal_vector": "opt[vec3]", "label": "opt[int]", "auth": "opt[int]",
                                               "chain": "str", "number": "int", "icode": "opt[str]"}},
    "Structure3D": {"kind": "object", "fields": {"residues": "list[Residue3D]"}},
    "KDTree": {"kind": "object", "fields": {"points": "list[tuple[real,real,real]]"}},
    "Residue": {"kind": "record", "fields": {"label": "opt[int]", "auth": "opt[int]"}},
    "BasePair": {"kind": "record", "fields": {"nt1": "rec[Residue]", "nt2": "rec[Residue]", "lw": "enum[LeontisWesthof]", "saenger": "opt[str]"}},
}

UFUNS = dict(AC.UFUNS)
EXTERNALS = dict(AC.EXTERNALS)
SPEC_EXTERNALS = dict(AC.SPEC_EXTERNALS)
SPEC_CONSTS = dict(AC.SPEC_CONSTS)
LEMMAS = {k: AC.LEMMAS[k] for k in ("first_idx_definition", "residue_order_definition", "vangle_definition", "degrees_monotone")}

LABEL = "tuple[Residue3D,Residue3D,str,str,str]"


# ---------------------------------------------------------------------------------------------------------------------
# assumed contracts of third-party / stdlib calls (trusted base; every one is listed in props/C03.py TRUSTED)
# ---------------------------------------------------------------------------------------------------------------------
class _Counter:
    """value of collections.Counter(labels): remembers the counted list"""

    def __init__(self, items):
        self.items = items
        self.most_common = _MostCommon()


class _MostCommon:
    def __init__(self):
        self.__module__, self.__qualname__ = "collections", "Counter.most_common"

    def __call__(self, *a, **k):
        raise RuntimeError("symbolic handle")


def ext_counter(e, args, kw, node, st):
    """collections.Counter(xs) for a list xs of hashable values: the multiset of the elements of xs (keys compared with ==)."""
    xs = args[0]
    if kw or len(args) != 1 or not isinstance(xs, VList) or xs.elems is None:
        raise Unsupported("Counter of something that is not a typed list")
    return VConc(_Counter(xs))


def ext_most_common(e, args, kw, node, st):
    """counter.most_common() with counter = Counter(xs): a list MC of (key, count) pairs such that
         (1) every entry's key is an element of xs (witness CNT_POS[m]) and its count is >= 1;
         (2) different entries have different keys;
         (3) every element of xs is the key of an entry (CNT_IDX[t] = its index in MC);
         (4) count >= 2 exactly when the key occurs at two different positions of xs (witnesses CNT_W1[m] < CNT_W2[m]).
       NOTHING is assumed about the order of MC (Python documents: descending counts, ties in first-occurrence order - the
       proof does not need it, so what is proved holds for every order).  (1)-(4) are consequences of "count = number of
       occurrences of the key in xs"; the exact count is not used.  The witness maps are exposed as ghost names."""
    if kw or len(args) != 0:
        raise Unsupported("most_common(n)")
    cnt = e.ev(node.func.value, st)
    if not (isinstance(cnt, VConc) and isinstance(cnt.obj, _Counter)):
        raise Unsupported("most_common on an unknown receiver")
    xs = cnt.obj.items
    n = to_z3(xs.length)
    mc = fresh(("list", ("tuple", (xs.eshape, ("int",)))), uid("most_common"))
    L = to_z3(mc.length)
    A = z3.ArraySort(z3.IntSort(), z3.IntSort())
    pos, idx, w1, w2 = (z3.Const(uid(nm), A) for nm in ("cnt.pos", "cnt.idx", "cnt.w1", "cnt.w2"))
    m, w, t, u = z3.Int(uid("m")), z3.Int(uid("w")), z3.Int(uid("t")), z3.Int(uid("u"))
    key = lambda k_: sel(mc.elems, k_).items[0]
    cntof = lambda k_: to_z3(sel(mc.elems, k_).items[1])
    same = lambda a_, b_: to_z3(e.eq(a_, b_))
    x_at = lambda k_: sel(xs.elems, k_)
    anchor = lambda k_: leaves(key(k_))[0]
    st.assume(L >= 0)
    st.assume(z3.ForAll([m], z3.Implies(z3.And(m >= 0, m < L), z3.And(cntof(m) >= 1, pos[m] >= 0, pos[m] < n, same(x_at(pos[m]), key(m)))),
                        patterns=[anchor(m)]))
    st.assume(z3.ForAll([m, w], z3.Implies(z3.And(m >= 0, m < w, w < L), z3.Not(same(key(m), key(w)))),
                        patterns=[z3.MultiPattern(anchor(m), anchor(w))]))
    st.assume(z3.ForAll([t], z3.Implies(z3.And(t >= 0, t < n), z3.And(idx[t] >= 0, idx[t] < L, same(key(idx[t]), x_at(t)))),
                        patterns=[idx[t]]))
    st.assume(z3.ForAll([m], z3.Implies(z3.And(m >= 0, m < L, cntof(m) >= 2),
                                        z3.And(w1[m] >= 0, w1[m] < w2[m], w2[m] < n, same(x_at(w1[m]), key(m)), same(x_at(w2[m]), key(m)))),
                        patterns=[anchor(m)]))
    st.assume(z3.ForAll([t, u], z3.Implies(z3.And(t >= 0, t < u, u < n, same(x_at(t), x_at(u))), cntof(idx[t]) >= 2),
                        patterns=[z3.MultiPattern(idx[t], idx[u])]))
    for nm, arr in (("CNT_POS", pos), ("CNT_IDX", idx), ("CNT_W1", w1), ("CNT_W2", w2)):
        st.ghost[nm] = VList(L if nm != "CNT_IDX" else n, arr, ("int",))
    return mc


ext_most_common.pure = True


def ext_sorted(e, args, kw, node, st):
    """sorted(xs), the three uses in find_pairs:
       * xs a set of (int, int) pairs: the list of exactly the members of xs, each once, in strictly increasing lexicographic
         order.  Ghost name SORTED_POS: the position of a member in that list (inverse map, so no existential is needed).
       * xs a list of (Residue3D, Residue3D, LeontisWesthof) triples: a permutation of xs (bijection SORT_PI / SORT_PINV between
         positions: out[q] is xs[SORT_PI[q]]) in which no later element is smaller than an earlier one.  Of the order only these
         consequences are stated (tuple order built on Residue3D.__lt__, abbreviated rlt as in contracts/annotator_c.py):
         not rlt(out[w][0], out[q][0]), and out[w][0] is out[q][0] -> not rlt(out[w][1], out[q][1])   for q < w."""
    xs = args[0]
    if kw or len(args) != 1:
        raise Unsupported("sorted() with options")
    q, w = z3.Int(uid("q")), z3.Int(uid("w"))
    if isinstance(xs, VSet) and xs.kshape == ("tuple", (("int",), ("int",))):
        out = fresh(("list", xs.kshape), uid("sorted"))
        n = to_z3(out.length)
        at = lambda k_: [to_z3(x_) for x_ in sel(out.elems, k_).items]
        posof = z3.Const(uid("sorted.pos"), z3.ArraySort(z3.IntSort(), z3.ArraySort(z3.IntSort(), z3.IntSort())))
        a, b = z3.Int(uid("a")), z3.Int(uid("b"))
        st.assume(n >= 0)
        st.assume(z3.ForAll([q], z3.Implies(z3.And(q >= 0, q < n), z3.And(sel(xs.mem, *at(q)), posof[at(q)[0]][at(q)[1]] == q)), patterns=[at(q)[0]]))
        st.assume(z3.ForAll([q, w], z3.Implies(z3.And(q >= 0, q < w, w < n),
                                               z3.Or(at(q)[0] < at(w)[0], z3.And(at(q)[0] == at(w)[0], at(q)[1] < at(w)[1]))),
                            patterns=[z3.MultiPattern(at(q)[0], at(w)[0])]))
        st.assume(z3.ForAll([a, b], z3.Implies(sel(xs.mem, a, b), z3.And(posof[a][b] >= 0, posof[a][b] < n, at(posof[a][b])[0] == a, at(posof[a][b])[1] == b)),
                            patterns=[posof[a][b]]))
        from pyvc.values import VDict
        st.ghost["SORTED_POS"] = VDict(xs.kshape, ("int",), xs.mem, posof, None, None)
        return out
    raise Unsupported("sorted() of this value has no assumed contract here")


EXTERNALS["builtins.sorted"] = ext_sorted

EXTERNALS.update({"collections.Counter": ext_counter, "collections.Counter.most_common": ext_most_common})


# ---------------------------------------------------------------------------------------------------------------------
# find_pairs: what every phase variant shares
# ---------------------------------------------------------------------------------------------------------------------
XYZ = "tuple[real,real,real]"
HB = "tuple[Atom,Atom,Residue3D,Residue3D]"
BBP = "tuple[Residue3D,Residue3D,enum[LeontisWesthof]]"
LOCALS = {
    "coordinates": f"list[{XYZ}]", "coordinates_atom_map": f"dict[{XYZ},Atom]", "coordinates_type_map": f"dict[{XYZ},str]",
    "coordinates_residue_map": f"dict[{XYZ},Residue3D]",
    "hydrogen_bonds": f"list[{HB}]", "base_phosphate_pairs": "list[tuple[Residue3D,Residue3D,int]]",
    "base_ribose_pairs": "list[tuple[Residue3D,Residue3D,int]]", "used_atoms": "set[Atom]",
    "labels": f"list[{LABEL}]", "base_base_pairs": f"list[{BBP}]", "occupied": "set[tuple[Residue3D,str]]",
    "base_pairs": "list[rec[BasePair]]",
}
ANY_EXC = ["KeyError", "IndexError", "AttributeError", "TypeError", "ValueError", "ZeroDivisionError"]


class _FindPairsBase:
    target = "find_pairs"
    params = {"structure": "Structure3D", "model": "opt[int]"}
    requires = []
    ensures = []
    modifies = []
    locals = LOCALS
    callee_variants = {"detect_bph_br_classification": "any", "angle_between_vectors": "any", "detect_cis_trans": "any"}


# ---- callee contracts that claim nothing about the result (used by the variants for which the value is irrelevant)
class bph_any:
    """detect_bph_br_classification: some Optional[int], no exception, no heap write (verified below: target ...@any)"""
    target = "detect_bph_br_classification"
    params = {"donor_residue": "Residue3D", "donor": "Atom", "acceptor": "Atom"}
    requires = []
    returns = "opt[int]"
    raises = []
    modifies = []
    ensures = []


class angle_any:
    """angle_between_vectors: some real number (verified below: target ...@any); a zero vector may raise"""
    target = "angle_between_vectors"
    params = {"v1": "vec3", "v2": "vec3"}
    requires = []
    returns = "real"
    raises = ["ZeroDivisionError"]
    modifies = []
    ensures = []


class cis_trans_any:
    """detect_cis_trans: some Optional[str], no exception, no heap write (verified below: target ...@any)"""
    target = "detect_cis_trans"
    params = {"residue_i": "Residue3D", "residue_j": "Residue3D"}
    requires = []
    returns = "opt[str]"
    raises = []
    modifies = []
    ensures = []
    callee_variants = {}


# ---------------------------------------------------------------------------------------------------------------------
# detect_cis_trans: 'c' iff the torsion C1'-N1/N9 ... N1/N9-C1' lies in (-90, 90) degrees
# ---------------------------------------------------------------------------------------------------------------------
@spec
def glyc(r):
    """name of the base atom bonded to C1': N9 for purines (A, G), N1 otherwise"""
    return ite(r.one_letter_name == "A" or r.one_letter_name == "G", "N9", "N1")


@spec
def has_glyc_frame(r):
    """the residue has its C1' atom and its N1/N9 atom"""
    return first_idx(r, "C1'") >= 0 and first_idx(r, glyc(r)) >= 0


@spec
def c1p(r):
    return r.atoms[first_idx(r, "C1'")]


@spec
def nglyc(r):
    return r.atoms[first_idx(r, glyc(r))]


class detect_cis_trans_c:
    target = "detect_cis_trans"
    params = {"residue_i": "Residue3D", "residue_j": "Residue3D"}
    requires = ["len(residue_i.one_letter_name) == 1 and len(residue_j.one_letter_name) == 1"]
    returns = "opt[str]"
    raises = []
    modifies = []
    callee_variants = {}
    ghost_entry = [f"use first_idx_definition({r}, {n!r})" for r in ("residue_i", "residue_j") for n in ("C1'", "N9", "N1")]
    ensures = [
        "is_none(result) == (not (has_glyc_frame(residue_i) and has_glyc_frame(residue_j)))",
        "implies(not is_none(result), result == 'c' or result == 't')",
        "implies(not is_none(result) and cis_torsion(c1p(residue_i), nglyc(residue_i), nglyc(residue_j), c1p(residue_j)), result == 'c')",
        "implies(not is_none(result) and trans_torsion(c1p(residue_i), nglyc(residue_i), nglyc(residue_j), c1p(residue_j)), result == 't')",
    ]
    ensures_labels = {0: "none-iff-a-frame-atom-is-missing", 1: "letter-is-c-or-t", 2: "torsion-inside-(-90,90)-gives-c", 3: "torsion-outside-[-90,90]-gives-t"}


# ---------------------------------------------------------------------------------------------------------------------
# PHASE 1 (greedy loop over Counter(labels).most_common()): exclusivity and maximality, for EVERY list `labels`
# ---------------------------------------------------------------------------------------------------------------------
@spec
def lab_class(L):
    """the class name spelled by a label: cis/trans letter + the two edge letters"""
    return L[2] + L[3] + L[4]


@spec
def same_label(L, M):
    return L[0] == M[0] and L[1] == M[1] and L[2] == M[2] and L[3] == M[3] and L[4] == M[4]


@spec
def pair_of(p, L):
    """the reported triple p is the label L: its two residues, and the Leontis-Westhof member named by L's letters"""
    return p[0] == L[0] and p[1] == L[1] and LW_NAMES[p[2]] == lab_class(L)


@spec
def keys_disjoint(L, M):
    """the two (residue, edge) keys of label L are different from the two keys of label M"""
    return (not (L[0] == M[0] and L[3] == M[3]) and not (L[0] == M[1] and L[3] == M[4])
            and not (L[1] == M[0] and L[4] == M[3]) and not (L[1] == M[1] and L[4] == M[4]))


@spec
def takes(P, L):
    """reported label P uses one of the two (residue, edge) keys of label L"""
    return ((P[0] == L[0] and P[3] == L[3]) or (P[1] == L[0] and P[4] == L[3])
            or (P[0] == L[1] and P[3] == L[4]) or (P[1] == L[1] and P[4] == L[4]))


class find_pairs_greedy(_FindPairsBase):
    """Ghost state: PL[k] = the label from which base_base_pairs[k] was made; SRC8[k] = its index in the most_common() list MC;
    REP[u] = index in base_base_pairs of the pair made from entry u of MC (-1: none); OCC[(r, e)] = index of the reported pair
    that took the key (r, e)."""
    stop_before = "base_pairs = []"
    raises = ANY_EXC
    loops = {0: [], 1: [], 2: [], 3: [], 4: [], 5: [], 6: [], 7: [],
             8: {"index": "m", "iter": "MC", "labels": {0: "lengths", 1: "every-reported-pair-comes-from-a-label-counted-twice",
                                                       2: "occupied-keys-belong-to-reported-pairs", 3: "keys-of-reported-pairs-are-occupied",
                                                       4: "no-edge-used-by-two-reported-pairs", 5: "processed-labels-counted-twice-are-reported-or-blocked"},
                 "inv": [
                     "0 <= len(base_base_pairs) and len(PL) == len(base_base_pairs) and len(SRC8) == len(base_base_pairs)",
                     "forall(lambda k: implies(0 <= k and k < len(base_base_pairs), 0 <= SRC8[k] and SRC8[k] < m and MC[SRC8[k]][1] >= 2 "
                     "and same_label(PL[k], MC[SRC8[k]][0]) and pair_of(base_base_pairs[k], PL[k]) and REP[SRC8[k]] == k))",
                     "forall(lambda r, e: implies((ref(Residue3D, r), e) in occupied, 0 <= OCC[ref(Residue3D, r), e] and OCC[ref(Residue3D, r), e] < len(base_base_pairs) "
                     "and ((ident(PL[OCC[ref(Residue3D, r), e]][0]) == r and PL[OCC[ref(Residue3D, r), e]][3] == e) "
                     "or (ident(PL[OCC[ref(Residue3D, r), e]][1]) == r and PL[OCC[ref(Residue3D, r), e]][4] == e))), sorts={'e': 'str'})",
                     "forall(lambda k: implies(0 <= k and k < len(base_base_pairs), (PL[k][0], PL[k][3]) in occupied and (PL[k][1], PL[k][4]) in occupied))",
                     "forall(lambda k, l: implies(0 <= k and k < l and l < len(base_base_pairs), keys_disjoint(PL[k], PL[l])))",
                     "forall(lambda u: implies(0 <= u and u < m and MC[u][1] >= 2, "
                     "(0 <= REP[u] and REP[u] < len(base_base_pairs) and SRC8[REP[u]] == u) "
                     "or (MC[u][0][0], MC[u][0][3]) in occupied or (MC[u][0][1], MC[u][0][4]) in occupied))",
                 ]}}
    ghost = [
        {"when": "after", "at": "base_base_pairs = []", "label": "ghost-init",
         "do": [f"let PL = empty('list[{LABEL}]')", "let SRC8 = empty('list[int]')", "let REP = empty('dict[int,int]')",
                "let OCC = empty('dict[tuple[Residue3D,str],int]')"]},
        {"when": "before", "at": "continue", "loop": 8, "label": "skipped-entry", "do": ["let REP = dstore(REP, m, 0 - 1)"]},
        {"when": "after", "at": "base_base_pairs.append(", "label": "record-pair",
         "do": ["let OCC = dstore(dstore(OCC, (residue_i, edge_i), len(PL)), (residue_j, edge_j), len(PL))",
                "let REP = dstore(REP, m, len(PL))", "let SRC8 = snoc(SRC8, m)", "let PL = snoc(PL, interaction)"]},
    ]
    stop_ensures = [
        # SOUNDNESS of the count: a reported pair is a label that occurs at two different positions of `labels`
        "len(PL) == len(base_base_pairs) and forall(lambda k: implies(0 <= k and k < len(base_base_pairs), "
        "0 <= CNT_W1[SRC8[k]] and CNT_W1[SRC8[k]] < CNT_W2[SRC8[k]] and CNT_W2[SRC8[k]] < len(labels) "
        "and same_label(labels[CNT_W1[SRC8[k]]], PL[k]) and same_label(labels[CNT_W2[SRC8[k]]], PL[k]) and pair_of(base_base_pairs[k], PL[k])))",
        # EXCLUSIVITY: no (residue, edge) is used by two reported pairs
        "forall(lambda k, l: implies(0 <= k and k < l and l < len(base_base_pairs), keys_disjoint(PL[k], PL[l])))",
        # MAXIMALITY: a label occurring at two different positions is reported with that class, or a reported pair takes one of its keys
        "forall(lambda t, u: implies(0 <= t and t < u and u < len(labels) and same_label(labels[t], labels[u]), "
        "exists(lambda k: 0 <= k and k < len(base_base_pairs) and (same_label(PL[k], labels[t]) or takes(PL[k], labels[t])))))",
    ]
    stop_ensures_labels = {0: "every-reported-pair-is-a-label-occurring-twice", 1: "no-edge-used-by-two-reported-pairs",
                           2: "every-label-occurring-twice-is-reported-or-has-an-edge-taken"}


CONTRACTS = {
    "Residue3D.find_atom": AC.find_atom_c,
    "Residue3D.__lt__": AC.res_lt_c,
    "angle_between_vectors": AC.angle_c,
    "detect_bph_br_classification": AC.detect_bph_br_c,
    "detect_bph_br_classification@any": bph_any,
    "angle_between_vectors@any": angle_any,
    "detect_cis_trans": detect_cis_trans_c,
    "detect_cis_trans@any": cis_trans_any,
    "find_pairs@greedy": find_pairs_greedy,
}
