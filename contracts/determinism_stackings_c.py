"""Sidecar contracts for C14 (outputs are a function of the input), part 2: rnapolis.annotator.find_stackings.

find_stackings iterates `kdtree.query_pairs(STACKING_MAX_DISTANCE)` - a SET, in the encoding an arbitrary duplicate-free enumeration -
appends one triple per accepted index pair and returns the records of `sorted(pairs)`.  The C04 contract of the function
(contracts/annotator_c.py: find_stackings_c) states the geometric definition with a 1e-6 band around every threshold (what a
floating-point evaluation may decide either way) and a NON-strict order clause; that is the right statement for C04 but it does not
pin the list.  The variant here is the same proof with the band closed and the order made strict:

    find_stackings@determined
        every-reported-stacking-satisfies-the-definition    every record is the record rec_exact of a pair (a, b) of participating
                                                            residues with stk(a, b, 0)
        every-pair-satisfying-the-definition-is-reported    every such pair has its record            (membership: an IFF, no band)
        each-pair-reported-once
        strictly-ordered-by-chain-and-number                for q < w: lower residue of q before lower residue of w in the residue
                                                            order, or the same lower residue and higher residue of q before that of w

    "exact" is relative to the modelling of the floating-point library calls as FUNCTIONS of their arguments (numpy.dot, numpy.linalg.norm,
    math.acos, math.degrees, KDTree distance: uninterpreted or defined symbols shared by code and clause) - which is precisely the
    statement "the same numbers give the same decisions".  The four clauses determine the returned list: its members are the records of
    {(a, b) : stk(a, b, 0)} (a function of the input), no record twice, and a strict total order on the members leaves one arrangement.
    Nothing is assumed about the enumeration of the KD-tree pair set, so the list does not depend on it.

    The strict clause needs the residue order (model, chain, number, insertion code) to be TOTAL on the participating residues
    (requires `residue-order-is-total-on-participating-residues`): two different participating residues with the same model, chain,
    number and insertion code compare neither way, sorted() - stable - then keeps them in the order of `pairs`, i.e. of the set
    enumeration.  See props/C14.py ASSUMPTIONS (A-total-residue-order).

The contract text is DERIVED from find_stackings_c by textual substitution (below), so the two cannot drift apart:
    stk(.., EPS), stk(.., 0 - EPS) -> stk(.., 0);  pair_loose / pair_tight -> pair_exact;  rec_loose / rec_tight -> rec_exact.
Reused by import, not edited: contracts/annotator_c.py (classes, externals, lemmas, vocabulary)."""
import contracts.annotator_c as AC


def spec(f):
    return f


__file_spec__ = [AC.__file__, __file__]
PURE_EXTERNALS = list(getattr(AC, "PURE_EXTERNALS", ()))
INLINE = list(AC.INLINE)
CLASSES = dict(AC.CLASSES)
UFUNS = dict(AC.UFUNS)
EXTERNALS = dict(AC.EXTERNALS)
SPEC_EXTERNALS = dict(AC.SPEC_EXTERNALS)
SPEC_CONSTS = dict(AC.SPEC_CONSTS)
LEMMAS = dict(AC.LEMMAS)


@spec
def topo_is(t, pos, name_pos, name_other):
    return ite(pos, t == name_pos, t == name_other)


@spec
def pair_exact(pr, r1, r2):
    """(lower, higher, topology name) is THE report for r1 (earlier in the file), r2 (later): orientation by the residue order,
    topology by the sign test `numpy.dot(normal_i, normal_j) > 0.0` of the code"""
    return ite(res_lt(r1, r2),
               pr[0] == r1 and pr[1] == r2 and topo_is(pr[2], ndot(r1, r2) > 0, "upward", "inward"),
               pr[0] == r2 and pr[1] == r1 and topo_is(pr[2], ndot(r1, r2) > 0, "downward", "outward"))


@spec
def rec_exact(s, r1, r2):
    """the Stacking record s is THE record for r1 (earlier in the file), r2 (later)"""
    return ite(res_lt(r1, r2),
               same_ids(s, r1, r2) and topo_is(s.topology, ndot(r1, r2) > 0, TOPO_ORD["upward"], TOPO_ORD["inward"]),
               same_ids(s, r2, r1) and topo_is(s.topology, ndot(r1, r2) > 0, TOPO_ORD["downward"], TOPO_ORD["outward"]))


def _x(t):
    """the substitution that closes the 1e-6 band"""
    if isinstance(t, str):
        for a, b in ((", 0 - EPS)", ", 0)"), (", EPS)", ", 0)"), ("pair_loose(", "pair_exact("), ("pair_tight(", "pair_exact("),
                     ("rec_loose(", "rec_exact("), ("rec_tight(", "rec_exact(")):
            t = t.replace(a, b)
        assert "EPS" not in t, t
        return t
    if isinstance(t, list):
        return [_x(v) for v in t]
    if isinstance(t, dict):
        return {k: (_x(v) if k in ("inv", "do") else v) for k, v in t.items()}
    return t


_B = AC.find_stackings_c
_S, _N, _EL = AC._S, AC._N, AC._EL

_TOTAL = (f"forall(lambda a, b: implies(0 <= a and a < b and b < {_N} and {_EL('a')} and {_EL('b')}, "
          f"res_lt({_S}[a], {_S}[b]) or res_lt({_S}[b], {_S}[a])), pats=[['ident({_S}[a])', 'ident({_S}[b])']])")

_STRICT = (f"forall(lambda q, w, a, b, c, d: implies(0 <= q and q < w and w < len(result) and 0 <= a and a < {_N} and 0 <= b and b < {_N} "
           f"and 0 <= c and c < {_N} and 0 <= d and d < {_N} and {_EL('a')} and {_EL('b')} and {_EL('c')} and {_EL('d')} "
           f"and same_ids(result[q], {_S}[a], {_S}[b]) and same_ids(result[w], {_S}[c], {_S}[d]), "
           f"res_lt({_S}[a], {_S}[c]) or (a == c and res_lt({_S}[b], {_S}[d]))))")


class find_stackings_determined(_B):
    __doc__ = "find_stackings_c (contracts/annotator_c.py) with the 1e-6 band closed and the order strict; ghost state as there"
    requires = _x(list(_B.requires)) + [_TOTAL]
    requires_labels = {len(_B.requires): "residue-order-is-total-on-participating-residues"}
    ensures = _x(list(_B.ensures[:3])) + [_STRICT]
    ensures_labels = {**_B.ensures_labels, 3: "strictly-ordered-by-chain-and-number"}
    loops = {k: _x(dict(v)) for k, v in _B.loops.items()}
    ghost = [_x(dict(g)) for g in _B.ghost] + [
        {"when": "before", "at": "return stackings", "label": "output-list-is-strictly-sorted",
         "do": [# two different participating residues are ordered one way or the other; the triples list lower before higher
                "assert forall(lambda q, w: implies(0 <= q and q < w and w < len(stackings), "
                "res_lt(pairs[SORTED_PI[q]][0], pairs[SORTED_PI[w]][0]) or (pairs[SORTED_PI[q]][0] == pairs[SORTED_PI[w]][0] "
                "and res_lt(pairs[SORTED_PI[q]][1], pairs[SORTED_PI[w]][1]))), pats=[['SORTED_PI[q]', 'SORTED_PI[w]']])"]},
    ]


CONTRACTS = dict(AC.CONTRACTS)
CONTRACTS["find_stackings@determined"] = find_stackings_determined
