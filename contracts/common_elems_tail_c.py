"""Sidecar for C07, the TAIL of rnapolis.common.BpSeq.elements: the closure walk over the loop-linking graph and the final
single-strand loop (`used = set()` ... `return stems, single_strands, hairpins, loops`).

    BpSeq.elements@tail   TAIL contract (engine: start_at / start_from): verified from the statement `used = set()` to the return.
                          Its entry facts are, literally, clauses that the prefix contract BpSeq.elements@graph
                          (contracts/common_elems_c.py, bpseq_elements_graph.TAIL_FACTS) PROVES at its cut point in front of the
                          same statement; the locals are unknown values of their shapes.

Modelling decisions (each listed in props/C07.py)
  * `used` is a set of Strand VALUES (frozen dataclass with two text fields): a set object kept as the LIST of the values added
    (class StrandSet, "boxed_valueset"): `x in used` is equality with one of the added values - what a Python set of values
    with consistent __eq__/__hash__ answers; used.update(loop) appends the strands of loop.  `i in used` (an int against Strand
    values) is False, as in Python.
  * Strand == Strand is the dataclass-generated field-wise equality (first, last, sequence, structure), record equality of the engine.
  * Loop.__post_init__ / SingleStrand.__post_init__ (self.description = str(self)) are not modelled, as in common_elems_c.
  * `graph` at the cut is a collections.defaultdict(set) (start_defaultdicts): `graph[i]` inserts an empty set for a missing i.

Reused by import, not edited here: the vocabulary and contracts of contracts/common_elems_c.py (and through it common_c.py)."""
import contracts.common_c as _c
import contracts.common_elems_c as CE


def spec(f):
    return f


__file_spec__ = [_c.__file__, CE.__file__, __file__]
for _n in ("STABLE_BINDERS", "PRUNE_BRANCHES", "PACK_KEYS", "FINITE_MEMBERSHIP", "PURE_EXTERNALS", "SPEC_EXTERNALS", "SPEC_CONSTS", "INLINE"):
    if hasattr(CE, _n):
        globals()[_n] = getattr(CE, _n)
CLASSES = dict(CE.CLASSES)
CLASSES["StrandSet"] = {"kind": "object", "boxed_valueset": "members", "fields": {"members": "list[rec[Strand]]"}}
LEMMAS = dict(CE.LEMMAS)
UFUNS = dict(CE.UFUNS)
EXTERNALS = dict(CE.EXTERNALS)

_E = "self.entries"
_DB = "self.dot_bracket_.structure"


@spec
def chain_ok(E, L):
    """consecutive strands of L are joined by a base pair: the 3' end of each is the partner of the 5' end of the next"""
    return forall(lambda t: implies(0 <= t and t < len(L) - 1, E[L[t].last - 1].pair == L[t + 1].first))


@spec
def all_cands(L, E, db):
    """every strand of L is a loop-strand candidate: between two paired nucleotides that are not partners, interior unpaired, slices"""
    return forall(lambda t: implies(0 <= t and t < len(L), cand_ok(L[t], E, db)))


@spec
def loop_ok(L, E, db):
    """C07 'every loop is a closed cycle of at least two strands whose consecutive ends are base-paired and whose interiors are
    unpaired': at least two strands, each ends where the next begins (by a base pair), the last one closes onto the first"""
    return (len(L) >= 2 and chain_ok(E, L) and E[L[len(L) - 1].last - 1].pair == L[0].first and all_cands(L, E, db))


@spec
def loops_ok(LS, E, db):
    return forall(lambda l: implies(0 <= l and l < len(LS), ident(LS[l]) < frontier() and loop_ok(LS[l].strands, E, db)))


@spec
def used_segments(LS, QI, M):
    """the strands of reported loop l were added to `used` as the segment QI[l] .. of its member list M"""
    return (len(QI) == len(LS)
            and forall(lambda l: implies(0 <= l and l < len(LS), 0 <= QI[l] and QI[l] + len(LS[l].strands) <= len(M))))


@spec
def used_holds_loops(LS, QI, M):
    """every strand of every reported loop is a member of `used` (where: position QI[l] + t)"""
    return forall(lambda l, t: implies(0 <= l and l < len(LS) and 0 <= t and t < len(LS[l].strands), M[QI[l] + t] == LS[l].strands[t]))


@spec
def used_only_loops(LS, QI, UL, M):
    """every member of `used` lies in the segment of some reported loop (UL[q]: which), hence - used_holds_loops - is one of its strands"""
    return (len(UL) == len(M)
            and forall(lambda q: implies(0 <= q and q < len(M), 0 <= UL[q] and UL[q] < len(LS) and QI[UL[q]] <= q and q < QI[UL[q]] + len(LS[UL[q]].strands))))


_NO_SET_WRITES = {"StrandSet.members": []}
_USED_ONLY = {"StrandSet.members": ["used"]}


class bpseq_elements_tail:
    """see the module text"""
    target = "BpSeq.elements"
    params = {"self": "BpSeq"}
    requires = []
    start_at = "used = set()"
    start_from = "graph"
    start_locals = {"stems": "list[Stem]", "single_strands": "list[SingleStrand]", "hairpins": "list[Hairpin]", "loops": "list[Loop]",
                    "loop_candidates": "list[rec[Strand]]", "graph": "dict[int,set[int]]"}
    start_defaultdicts = {"graph": "set"}
    start_assumes = list(CE.bpseq_elements_graph.TAIL_FACTS)
    defaultdicts = ["graph"]
    locals = {"used": "StrandSet", "loop": "list[rec[Strand]]"}
    returns = "tuple[list[Stem],list[SingleStrand],list[Hairpin],list[Loop]]"
    raises = []
    modifies = []
    ghost_entry = ["let STEMS0 = stems", "let HAIRPINS0 = hairpins", "let SS0 = single_strands", "let LC = loop_candidates"]
    ensures = [
        f"loops_ok(result[3], {_E}, {_DB})",
        "len(result[0]) == len(STEMS0) and forall(lambda a: implies(0 <= a and a < len(STEMS0), result[0][a] is STEMS0[a]))",
        "len(result[2]) == len(HAIRPINS0) and forall(lambda a: implies(0 <= a and a < len(HAIRPINS0), result[2][a] is HAIRPINS0[a]))",
        "len(result[1]) >= len(SS0) and forall(lambda a: implies(0 <= a and a < len(SS0), result[1][a] is SS0[a]))",
        f"forall(lambda m: implies(len(SS0) <= m and m < len(result[1]), not result[1][m].is5p and not result[1][m].is3p and cand_ok(result[1][m].strand, {_E}, {_DB})))",
    ]
    ensures += [
        # every loop-strand candidate that the closure walk did not put into a reported loop (i.e. that is not in `used`) is reported
        # as a plain single strand (SSI, ghost: where) ...
        "forall(lambda c: implies(0 <= c and c < len(LC) and not (LC[c] in USED0.members), len(SS0) <= SSI[c] and SSI[c] < len(result[1]) and result[1][SSI[c]].strand == LC[c]))",
        # ... and no other candidate is: a new single strand is a candidate (CI, ghost: which) that is not in `used`
        "forall(lambda m: implies(len(SS0) <= m and m < len(result[1]), 0 <= CI[m] and CI[m] < len(LC) and result[1][m].strand == LC[CI[m]] and not (LC[CI[m]] in USED0.members)))",
    ]
    ensures += [
        # the set `used` holds exactly the strands of the reported loops (QI, UL ghost: where), so - with the two clauses above - every
        # candidate is a strand of a reported loop or a reported single strand, and no new single strand is a strand of a reported loop
        "used_segments(result[3], QI, USED0.members) and used_holds_loops(result[3], QI, USED0.members)",
        "used_only_loops(result[3], QI, UL, USED0.members)",
    ]
    ensures_labels = {0: "every-loop-is-a-closed-cycle-of->=2-strands-with-base-paired-consecutive-ends", 1: "stems-returned-unchanged",
                      2: "hairpins-returned-unchanged", 3: "earlier-single-strands-kept", 4: "new-single-strands-are-free-candidates",
                      5: "every-candidate-outside-the-loops-is-a-single-strand", 6: "only-candidates-outside-the-loops-are-new-single-strands",
                      7: "strands-of-reported-loops-are-in-used", 8: "used-holds-only-strands-of-reported-loops"}
    loops = {
        # for i in range(len(loop_candidates))
        4: {"index": "c4", "allocates": ["Loop.strands"], "touches": _USED_ONLY,
            "inv": ["len(loops) >= 0 and used is USED0", f"loops_ok(loops, {_E}, {_DB})", f"graph_only_links(graph, {_E}, loop_candidates)",
                    "used_segments(loops, QI, USED0.members)", "used_holds_loops(loops, QI, USED0.members)", "used_only_loops(loops, QI, UL, USED0.members)"],
            "labels": {0: "one-used-set", 1: "reported-loops-are-closed-cycles", 2: "graph-edges-join-base-paired-ends",
                       3: "used-segments", 4: "strands-of-reported-loops-are-in-used", 5: "used-holds-only-strands-of-reported-loops"}},
        # while True
        5: {"touches": _NO_SET_WRITES,
            "inv": ["0 <= i and i < len(loop_candidates) and len(loop) >= 1 and loop[len(loop) - 1].last == loop_candidates[i].last",
                    f"chain_ok({_E}, loop)", f"all_cands(loop, {_E}, {_DB})", f"graph_only_links(graph, {_E}, loop_candidates)"],
            "labels": {0: "walk-stands-at-candidate-i", 1: "walk-is-a-chain-of-base-paired-ends", 2: "walk-holds-candidates", 3: "graph-edges-join-base-paired-ends"}},
        # for j in graph[i]
        # (a step that changes `loop` or `i` leaves this loop at once: at its head both are what they were when it was entered)
        6: {"index": "c6", "touches": _NO_SET_WRITES,
            "inv": ["i == I6", "0 <= i and i < len(loop_candidates) and len(loop) >= 1 and loop[len(loop) - 1].last == loop_candidates[i].last",
                    f"chain_ok({_E}, loop)", f"all_cands(loop, {_E}, {_DB})"],
            "labels": {0: "walk-has-not-moved", 1: "walk-stands-at-candidate-i", 2: "walk-is-a-chain-of-base-paired-ends", 3: "walk-holds-candidates"}},
        # for loop_candidate in loop_candidates
        7: {"index": "c7", "allocates": ["SingleStrand.strand", "SingleStrand.is5p", "SingleStrand.is3p"], "touches": _NO_SET_WRITES,
            "inv": ["len(single_strands) >= len(SS0) and forall(lambda a: implies(0 <= a and a < len(SS0), single_strands[a] is SS0[a]))",
                    f"forall(lambda m: implies(len(SS0) <= m and m < len(single_strands), ident(single_strands[m]) < frontier() and not single_strands[m].is5p"
                    f" and not single_strands[m].is3p and cand_ok(single_strands[m].strand, {_E}, {_DB})))"],
            "labels": {0: "earlier-single-strands-kept", 1: "new-single-strands-are-free-candidates", 2: "candidates-outside-the-loops-so-far-are-reported",
                       3: "new-single-strands-are-candidates-outside-the-loops"}},
    }
    loops[7]["inv"] += [
        "len(SSI) == len(LC) and len(CI) == len(single_strands) and used is USED0"
        " and forall(lambda c: implies(0 <= c and c < c7 and not (LC[c] in USED0.members), len(SS0) <= SSI[c] and SSI[c] < len(single_strands) and single_strands[SSI[c]].strand == LC[c]))",
        "forall(lambda m: implies(len(SS0) <= m and m < len(single_strands), 0 <= CI[m] and CI[m] < len(LC) and single_strands[m].strand == LC[CI[m]] and not (LC[CI[m]] in USED0.members)))",
    ]
    ghost = [
        {"when": "before", "at": "for j in graph[i]", "label": "walk-at", "do": ["let I6 = i"]},
        {"when": "after", "at": "used = set()", "label": "the-used-set",
         "do": ["let USED0 = used", "let QI = empty('list[int]')", "let UL = empty('list[int]')"]},
        {"when": "before", "at": "for loop_candidate in loop_candidates", "label": "witnesses",
         "do": ["let SSI = fill(len(LC), 0 - 1)", "let CI = fill(len(single_strands), 0 - 1)"]},
        {"when": "before", "at": "single_strands.append(", "loop": 7, "label": "free-candidate",
         "do": ["let SB = single_strands", "let frB = frontier()", f"let E = {_E}", f"let DB = {_DB}",
                "assert 0 <= c7 and c7 < len(LC) and cand_ok(loop_candidate, E, DB)",
                "assert forall(lambda m: implies(len(SS0) <= m and m < len(SB), ident(SB[m]) < frB and not SB[m].is5p and not SB[m].is3p and cand_ok(SB[m].strand, E, DB)))"]},
        {"when": "after", "at": "single_strands.append(", "loop": 7, "label": "free-candidate-reported",
         "do": ["let SSI = upd(SSI, c7, len(single_strands) - 1)", "let CI = snoc(CI, c7)",
                "let ns = single_strands[len(single_strands) - 1]",
                "assert ident(ns) >= frB and ident(ns) < frontier() and frB <= frontier() and len(single_strands) == len(SB) + 1 and len(SB) >= len(SS0)"
                " and not ns.is5p and not ns.is3p and cand_ok(ns.strand, E, DB)",
                "forall m | let c = len(SS0) <= m and m < len(SB)"
                " | assert implies(c, single_strands[m] is SB[m] and ident(SB[m]) < frB and ident(SB[m]) != ident(ns))"
                " | assert_last 3 implies(c, not single_strands[m].is5p and not single_strands[m].is3p and cand_ok(single_strands[m].strand, E, DB))"
                " | assert_last 2 implies(c, ident(single_strands[m]) < frB and not single_strands[m].is5p and not single_strands[m].is3p and cand_ok(single_strands[m].strand, E, DB))"
                " | assert implies(c, ident(single_strands[m]) < frB and not single_strands[m].is5p and not single_strands[m].is3p and cand_ok(single_strands[m].strand, E, DB))",
                "assert_last 2 forall(lambda m: implies(len(SS0) <= m and m < len(single_strands), ident(single_strands[m]) < frontier() and not single_strands[m].is5p"
                " and not single_strands[m].is3p and cand_ok(single_strands[m].strand, E, DB)))"]},
        {"when": "before", "at": "loops.append(", "label": "closed-cycle",
         "do": ["let L0 = loops", "let fr0 = frontier()", f"let E = {_E}", f"let DB = {_DB}", "let w = len(loop)",
                "assert w >= 1 and cand_ok(loop[0], E, DB) and cand_ok(loop[w - 1], E, DB)",
                "assert E[loop[0].first - 1].pair == loop[w - 1].last",
                "assert w >= 2",
                "assert valid(E)",
                "assert_last 4 E[loop[w - 1].last - 1].pair == loop[0].first",
                "assert loop_ok(loop, E, DB)",
                "let M0 = USED0.members", "let QI0 = QI", "let UL0 = UL",
                "assert used_segments(L0, QI0, M0) and used_only_loops(L0, QI0, UL0, M0) and len(M0) >= 0",
                "assert used_holds_loops(L0, QI0, M0)",
                # the invariant about the loops reported so far, flattened (one clause per conjunct of loop_ok; F3, F2, F1 in this order)
                "assert forall(lambda l, t: implies(0 <= l and l < len(L0) and 0 <= t and t < len(L0[l].strands), cand_ok(L0[l].strands[t], E, DB)))",
                "assert forall(lambda l, t: implies(0 <= l and l < len(L0) and 0 <= t and t < len(L0[l].strands) - 1, E[L0[l].strands[t].last - 1].pair == L0[l].strands[t + 1].first))",
                "assert forall(lambda l: implies(0 <= l and l < len(L0), ident(L0[l]) < fr0 and len(L0[l].strands) >= 2"
                " and E[L0[l].strands[len(L0[l].strands) - 1].last - 1].pair == L0[l].strands[0].first))"]},
        {"when": "after", "at": "loops.append(", "label": "loop-reported",
         "do": ["let nl = loops[len(loops) - 1]",
                "assert ident(nl) >= fr0 and ident(nl) < frontier() and len(loops) == len(L0) + 1 and len(L0) >= 0 and fr0 <= frontier()",
                "forall l | let c = 0 <= l and l < len(L0)"
                " | assert implies(c, loops[l] is L0[l] and ident(L0[l]) < fr0 and ident(L0[l]) != ident(nl))"
                # (each step sees only: the clause about L0 proved in front of the statement, the two facts above, the steps so far)
                " | assert_last 3 implies(c, len(loops[l].strands) >= 2 and E[loops[l].strands[len(loops[l].strands) - 1].last - 1].pair == loops[l].strands[0].first)"
                " | assert_last 5 implies(c, chain_ok(E, loops[l].strands))"
                " | assert_last 7 implies(c, all_cands(loops[l].strands, E, DB))"
                " | assert_last 4 implies(c, loops[l] is L0[l] and ident(loops[l]) < fr0 and loop_ok(loops[l].strands, E, DB))"
                " | assert implies(c, loops[l] is L0[l] and ident(loops[l]) < fr0 and loop_ok(loops[l].strands, E, DB))",
                "assert loop_ok(nl.strands, E, DB)",
                "assert_last 3 loops_ok(loops, E, DB)"]},
        # the two membership tests of the step (quantified over the members of `used` / `loop`, with text equality inside) are
        # not needed by anything proved about the step: set aside (hiding hypotheses is sound)
        {"when": "after", "at": "used.update(", "label": "used-updated",
         "do": ["let M1 = USED0.members", "let QI = snoc(QI0, len(M0))", "let UL = UL0 + fill(len(loop), len(L0))", "let w = len(loop)",
                "assert len(M1) == len(M0) + w and w >= 2 and len(loops) == len(L0) + 1 and len(UL) == len(M1) and len(QI) == len(loops) and ident(nl) >= fr0",
                "assert len(nl.strands) == w and forall(lambda t: implies(0 <= t and t < w, M1[len(M0) + t] == nl.strands[t]))",
                "forall l | let c = 0 <= l and l < len(L0)"
                " | assert implies(c, loops[l] is L0[l] and ident(L0[l]) < fr0 and ident(L0[l]) != ident(nl) and QI[l] == QI0[l])"
                " | assert implies(c, len(loops[l].strands) == len(L0[l].strands) and 0 <= QI[l] and QI[l] + len(loops[l].strands) <= len(M0))",
                "assert used_segments(loops, QI, M1)",
                "forall l, t | let c = 0 <= l and l < len(L0) and 0 <= t and t < len(loops[l].strands)"
                " | assert implies(c, loops[l] is L0[l] and ident(L0[l]) != ident(nl) and QI[l] == QI0[l] and QI0[l] + t < len(M0) and 0 <= QI0[l] + t)"
                " | assert implies(c, M1[QI[l] + t] == M0[QI0[l] + t])"
                " | assert implies(c, M0[QI0[l] + t] == L0[l].strands[t])"
                " | assert implies(c, M1[QI[l] + t] == loops[l].strands[t])",
                "assert used_holds_loops(loops, QI, M1)",
                "forall q | let c = 0 <= q and q < len(M0)"
                " | assert implies(c, UL[q] == UL0[q] and 0 <= UL0[q] and UL0[q] < len(L0))"
                " | assert implies(c, QI[UL[q]] <= q and q < QI[UL[q]] + len(loops[UL[q]].strands))",
                "forall q | let c = len(M0) <= q and q < len(M1)"
                " | assert implies(c, UL[q] == len(L0) and QI[UL[q]] == len(M0) and loops[UL[q]] is nl)",
                "assert used_only_loops(loops, QI, UL, M1)"]},
        {"when": "before", "at": "if loop_candidates[j] not in used", "loop": 6, "label": "step", "do": ["mark Q"]},
        {"when": "before", "at": "loop.append(", "loop": 6, "label": "walk-before", "do": ["stash Q", "let LP0 = loop", f"let E = {_E}", f"let DB = {_DB}"]},
        {"when": "after", "at": "loop.append(", "loop": 6, "label": "walk-extended",
         "do": ["let w0 = len(LP0)",
                "assert i in graph and j in graph[i]",
                "assert 0 <= j and j < len(loop_candidates) and link(E, loop_candidates, i, j)",
                "assert w0 >= 1 and LP0[w0 - 1].last == loop_candidates[i].last and chain_ok(E, LP0)",
                "assert len(loop) == w0 + 1 and loop[w0].first == loop_candidates[j].first and forall(lambda t: implies(0 <= t and t < w0, loop[t].last == LP0[t].last and loop[t].first == LP0[t].first))",
                "assert_last 3 chain_ok(E, loop)",
                "assert 0 <= j and j < len(loop_candidates) and cand_ok(loop_candidates[j], E, DB) and all_cands(LP0, E, DB)",
                "assert_last 1 all_cands(loop, E, DB)"]},
    ]


CONTRACTS = dict(CE.CONTRACTS)
CONTRACTS["BpSeq.elements@tail"] = bpseq_elements_tail
