"""Sidecar contracts for the USERS of the torsion functions (last sentence of C18: "Hence glycosidic chi of A-form RNA is
anti (about -160 degrees) in every table the library produces"): the convention proved for calculate_torsion_angle_coords
(contracts/tertiary_c.py) reaches the tables only through the call sites below.

  rnapolis.tertiary :  torsion_angle, Residue3D.__chi_purine, Residue3D.__chi_pyrimidine, Residue3D.chi, Residue3D.chi_class
  rnapolis.annotator:  detect_cis_trans

Vocabulary, lemmas and helper contracts are REUSED by import: the IUPAC polynomials / atan2 / reversal lemma of
contracts/tertiary_c.py, the classes Atom / Residue3D, the contract of Residue3D.find_atom and the definition of first_idx of
contracts/annotator_c.py.  Nothing of those files is changed.

Modelling decisions (each repeated in props/C18.py under ASSUMPTIONS / TRUSTED):
  * A-real (floats are reals).  The one non-real float the code under contract handles, math.nan, is used purely as the
    sentinel "chi is undefined" (returned by __chi_purine / __chi_pyrimidine, tested with math.isnan by chi / chi_class,
    never compared, never used in arithmetic, never tested with `is None`).  It is modelled as the None of an Optional real:
    MODULE_VALUES["math.nan"] = None, math.isnan(x) = "x is that None" (ext_isnan).  A NaN reaching a comparison or an
    arithmetic operation surfaces as an undischarged safe.no_TypeError obligation (stricter than Python, never laxer).
    Limit of the model: inside these functions a returned None and a returned NaN are the same value.
  * math.degrees / math.radians are uninterpreted functions (the same symbol in code and clauses).  About math.radians only
    "strictly increasing" is assumed (lemma radians_increasing_above, kind assumed-external); nothing about math.degrees.
  * torsion_of / general_position (UFUNS) are abbreviations with explicit definitions (lemmas of kind "definition") over the
    coordinates of four atoms; they keep the non-linear arithmetic out of the users' verification conditions: it is met once,
    in torsion_angle (against the proved contract of calculate_torsion_angle_coords) and in the reversal lemmas.
  * Atom / Residue3D are heap objects the functions never write (frame obligations).  cached_property: every read of
    r.chi yields the value of the one evaluation of the body (chi_c.returns_value names it chi_nan(r) / chi_val(r)).
"""
import z3

from contracts import annotator_c as A
from contracts import tertiary_c as T
from contracts.externals import NUMPY
from pyvc.expr import VVec
from pyvc.values import VOpt, to_z3


def spec(f):
    return f


__file_spec__ = [T.__file__, A.__file__, __file__]
PRUNE_BRANCHES = True
CLASSES = {"Atom": A.CLASSES["Atom"], "Residue3D": A.CLASSES["Residue3D"]}
# Atom.coordinates (cached property): numpy.array([self.x, self.y, self.z]) - executed at the call site
INLINE = ["Atom.coordinates"]
UFUNS = {"first_idx": A.UFUNS["first_idx"]}
MODULE_VALUES = {"math.nan": None}  # see the module docstring: NaN as the None of an Optional real


# ---------------------------------------------------------------------------------------------------------------------
# assumed contracts of third-party calls (trusted base)
# ---------------------------------------------------------------------------------------------------------------------
def ext_isnan(e, args, kw, node, st):
    """math.isnan(x): x is the NaN sentinel (the None of an Optional real); a real-valued term is never NaN (A-real)"""
    x = args[0]
    return x.isnone if isinstance(x, VOpt) else (x is None)


def _real_arg(e, v, node):
    if isinstance(v, VOpt):  # NaN in, NaN out in Python; not modelled: refused by an obligation (see module docstring)
        e.may_raise(v.isnone, "TypeError", node)
        v = v.val
    return to_z3(v, "real")


def ext_degrees(e, args, kw, node, st):
    return e.ufun("degrees", z3.RealSort(), z3.RealSort())(_real_arg(e, args[0], node))


def ext_radians(e, args, kw, node, st):
    return e.ufun("radians", z3.RealSort(), z3.RealSort())(_real_arg(e, args[0], node))


def ext_array(e, args, kw, node, st):
    """numpy.array of a list of known length: the vector of its elements (as contracts.externals, with every component term
    simplified, so that [x, y, z][0] is the term x itself)"""
    v = NUMPY["numpy.array"](e, args, kw, node, st)
    return VVec([z3.simplify(c) for c in v.c])


def ext_torsion_angle(e, args, kw, node, st):
    """rnapolis.tertiary.torsion_angle called from another module (rnapolis.annotator): the contract torsion_angle_c below,
    which is a verified target against rnapolis.tertiary - requires become obligations of the caller, ensures are assumed"""
    return e.call_contract("torsion_angle", args, kw, node, st)


EXTERNALS = dict(NUMPY)
EXTERNALS.update({"math.isnan": ext_isnan, "math.degrees": ext_degrees, "math.radians": ext_radians, "numpy.array": ext_array,
                  "rnapolis.tertiary.torsion_angle": ext_torsion_angle})
SPEC_EXTERNALS = {"norm": "numpy.linalg.norm", "atan2": "math.atan2", "degrees": "math.degrees", "radians": "math.radians"}


# ---------------------------------------------------------------------------------------------------------------------
# vocabulary
# ---------------------------------------------------------------------------------------------------------------------
@spec
def xyz(a):
    """position of an atom"""
    return vec(a.x, a.y, a.z)


@spec
def tors(p1, p2, p3, p4):
    """THE torsion angle p1-p2-p3-p4 of C18: atan2(Y, X) of the IUPAC polynomials (contracts/tertiary_c.py), in radians"""
    return atan2(iupac_y(p1, p2, p3, p4), iupac_x(p1, p2, p3, p4))


@spec
def tors_atoms(a1, a2, a3, a4):
    return tors(xyz(a1), xyz(a2), xyz(a3), xyz(a4))


@spec
def nondegenerate(p1, p2, p3, p4):
    """the non-degeneracy guards of calculate_torsion_angle_coords: literally the `requires` of its proved contract
    (contracts/tertiary_c.py; the assert below keeps the two texts identical)"""
    return (norm(p2 - p1) > 1e-6 and norm(p3 - p2) > 1e-6 and norm(p4 - p3) > 1e-6
            and norm(cross3((p2 - p1) / norm(p2 - p1), (p3 - p2) / norm(p3 - p2))) >= 1e-6
            and norm(cross3((p3 - p2) / norm(p3 - p2), (p4 - p3) / norm(p4 - p3))) >= 1e-6)


def _same_text_as_callee_requires():
    import ast
    import inspect
    body = ast.parse(inspect.getsource(nondegenerate)).body[0].body[-1].value
    return ast.unparse(body) == ast.unparse(ast.parse(" and ".join(f"({r})" for r in T.torsion_coords.requires), mode="eval").body)


assert _same_text_as_callee_requires(), "nondegenerate() must be the conjunction of tertiary_c.torsion_coords.requires"


UFUNS.update({
    # torsion_of(a1, a2, a3, a4): THE torsion angle of four atoms - an abbreviation, explicitly defined by torsion_of_definition
    # as tors() of their positions.  Atoms are frozen dataclass instances (x, y, z are never written: frame obligations of
    # every target), so a function of the four identities.  contracts/annotator_c.py uses the same symbol with no property
    # assumed ("C18 is about its value"): this is where it gets its value.
    "torsion_of": (["int"] * 4, "real"),
    # general_position(a1, a2, a3, a4): the four atoms pass the guards of calculate_torsion_angle_coords (consecutive atoms more
    # than 1e-6 apart, no three consecutive atoms collinear within 1e-6); defined by general_position_definition
    "general_position": (["int"] * 4, "bool"),
    # the cached value of Residue3D.chi of an object (see chi_c.returns_value): is it NaN / the number
    "chi_nan": (["int"], "bool"), "chi_val": (["int"], "real"),
})

LEMMAS = {
    "first_idx_definition": A.LEMMAS["first_idx_definition"],
    "atan2_scale": T.LEMMAS["atan2_scale"],
    "reversal": T.LEMMAS["reversal"],
    # --- explicit definitions of the two abbreviations (conservative: each introduces a new symbol by a defining term) ---
    "torsion_of_definition": {"kind": "definition", "params": ["a1", "a2", "a3", "a4"],
                              "ensures": ["torsion_of(a1, a2, a3, a4) == tors_atoms(a1, a2, a3, a4)"]},
    "general_position_definition": {"kind": "definition", "params": ["a1", "a2", "a3", "a4"],
                                    "ensures": ["general_position(a1, a2, a3, a4) == nondegenerate(xyz(a1), xyz(a2), xyz(a3), xyz(a4))"]},
}
CONTRACTS = {"Residue3D.find_atom": A.find_atom_c}


# ---------------------------------------------------------------------------------------------------------------------
# (1) torsion_angle(a1, a2, a3, a4)                                                             module rnapolis.tertiary
# ---------------------------------------------------------------------------------------------------------------------
class torsion_angle_c:
    """The Atom-level wrapper passes the four positions on IN THE GIVEN ORDER.  No None / NaN handling of its own: an
    argument that is None raises AttributeError in Python - here every call site must show its arguments are atoms
    (nonnull_params: obligation call[..]->torsion_angle.arg-not-None.<p>); degenerate quadruples (coincident consecutive
    atoms, collinear triples: the callee returns 0.0 there) are outside the callee's proved contract and therefore
    excluded by the precondition here."""
    target = "torsion_angle"
    params = {"a1": "Atom", "a2": "Atom", "a3": "Atom", "a4": "Atom"}
    nonnull_params = True
    requires = ["general_position(a1, a2, a3, a4)"]
    returns = "real"
    raises = []
    modifies = []
    ghost_entry = ["use general_position_definition(a1, a2, a3, a4)", "use torsion_of_definition(a1, a2, a3, a4)"]
    ensures = ["result == torsion_of(a1, a2, a3, a4)"]
    ensures_labels = {0: "iupac-torsion-of-the-four-atoms-in-the-given-order"}


CONTRACTS["torsion_angle"] = torsion_angle_c
CONTRACTS["calculate_torsion_angle_coords"] = T.torsion_coords

# reversal of the four points keeps THE torsion (spec level, proved): X and the triple product by lemma `reversal`
# (contracts/tertiary_c.py), |p2 - p3| = |p3 - p2| because both are non-negative with the same square
LEMMAS["same_square"] = {"kind": "smt", "params": ["a", "b"], "shapes": ["real", "real"],
                         "requires": ["a >= 0", "b >= 0", "a * a == b * b"], "ensures": ["a == b"]}
LEMMAS["atan2_same_point"] = {"kind": "smt", "params": ["y1", "x1", "y2", "x2"], "shapes": ["real"] * 4,
                              "requires": ["y1 == y2", "x1 == x2"], "ensures": ["atan2(y1, x1) == atan2(y2, x2)"]}
LEMMAS["tors_reversal"] = {"kind": "smt", "params": ["p1", "p2", "p3", "p4"], "shapes": ["vec3"] * 4,
                           "steps": ["use reversal(p1, p2, p3, p4)",
                                     "assert norm(p2 - p3) * norm(p2 - p3) == dot3(p2 - p3, p2 - p3) and norm(p3 - p2) * norm(p3 - p2) == dot3(p3 - p2, p3 - p2)",
                                     "use same_square(norm(p2 - p3), norm(p3 - p2))",
                                     "assert iupac_y(p4, p3, p2, p1) == iupac_y(p1, p2, p3, p4)",
                                     "use atan2_same_point(iupac_y(p4, p3, p2, p1), iupac_x(p4, p3, p2, p1), iupac_y(p1, p2, p3, p4), iupac_x(p1, p2, p3, p4))"],
                           "ensures": ["tors(p4, p3, p2, p1) == tors(p1, p2, p3, p4)"]}
# ... and the same statement about atoms
LEMMAS["torsion_of_reversal"] = {"kind": "smt", "params": ["a1", "a2", "a3", "a4"], "shapes": ["Atom"] * 4,
                                 "steps": ["use torsion_of_definition(a1, a2, a3, a4)", "use torsion_of_definition(a4, a3, a2, a1)",
                                           "use tors_reversal(xyz(a1), xyz(a2), xyz(a3), xyz(a4))"],
                                 "ensures": ["torsion_of(a4, a3, a2, a1) == torsion_of(a1, a2, a3, a4)"]}
# the guards are symmetric under reversal of the four points (proved): |-v| = |v|, hence equal inverses, and the two cross
# products of the reversed chain are the negated cross products of the original one
LEMMAS["inv_unique"] = {"kind": "smt", "params": ["r", "s", "n", "m"], "shapes": ["real"] * 4,
                        "requires": ["n == m", "r * n == 1", "s * m == 1"], "ensures": ["r == s"]}
LEMMAS["negated_same_norm"] = {"kind": "smt", "params": ["n", "m", "a", "b"], "shapes": ["real", "real", "vec3", "vec3"],
                               "requires": ["n >= 0", "m >= 0", "n * n == dot3(a, a)", "m * m == dot3(b, b)",
                                            "a[0] == 0 - b[0]", "a[1] == 0 - b[1]", "a[2] == 0 - b[2]"],
                               "steps": ["assert dot3(a, a) == dot3(b, b)", "use same_square(n, m)"],
                               "ensures": ["n == m"]}
LEMMAS["inv_of_positive"] = {"kind": "smt", "params": ["r", "n"], "shapes": ["real"] * 2,
                             "requires": ["n > 0", "implies(n != 0, r * n == 1)"], "ensures": ["r * n == 1"]}
LEMMAS["nondegenerate_reversal"] = {
    "kind": "smt", "params": ["p1", "p2", "p3", "p4"], "shapes": ["vec3"] * 4,
    "requires": ["nondegenerate(p1, p2, p3, p4)"],
    # (sub-proofs run in cut-down contexts - `scoped`, `cut`, `keep`: fewer hypotheses, always sound - because z3 wanders
    # in the non-linear definitions of the norms of the two cross products otherwise)
    "steps": ["let v1 = p2 - p1", "let v2 = p3 - p2", "let v3 = p4 - p3", "let w1 = p3 - p4", "let w2 = p2 - p3", "let w3 = p1 - p2",
              "let r1 = inv(norm(v1))", "let r2 = inv(norm(v2))", "let r3 = inv(norm(v3))",
              "let s1 = inv(norm(w1))", "let s2 = inv(norm(w2))", "let s3 = inv(norm(w3))",
              "scoped cut norm(v1) > 1e-6 and norm(v2) > 1e-6 and norm(v3) > 1e-6"
              " | use negated_same_norm(norm(w1), norm(v3), w1, v3) | use negated_same_norm(norm(w2), norm(v2), w2, v2)"
              " | use negated_same_norm(norm(w3), norm(v1), w3, v1)"
              " | use inv_of_positive(r1, norm(v1)) | use inv_of_positive(r2, norm(v2)) | use inv_of_positive(r3, norm(v3))"
              " | use inv_of_positive(s1, norm(w1)) | use inv_of_positive(s2, norm(w2)) | use inv_of_positive(s3, norm(w3))"
              " | use inv_unique(s1, r3, norm(w1), norm(v3)) | use inv_unique(s2, r2, norm(w2), norm(v2)) | use inv_unique(s3, r1, norm(w3), norm(v1))"
              " | assert norm(w1) == norm(v3) and norm(w2) == norm(v2) and norm(w3) == norm(v1) and s1 == r3 and s2 == r2 and s3 == r1",
              "let c1 = cross3(v1 / norm(v1), v2 / norm(v2))", "let c2 = cross3(v2 / norm(v2), v3 / norm(v3))",
              "let d1 = cross3(w1 / norm(w1), w2 / norm(w2))", "let d2 = cross3(w2 / norm(w2), w3 / norm(w3))",
              "scoped keep 1 | assert d1[0] == 0 - c2[0] and d1[1] == 0 - c2[1] and d1[2] == 0 - c2[2] | assert d2[0] == 0 - c1[0] and d2[1] == 0 - c1[1] and d2[2] == 0 - c1[2] | assert d1[0] == 0 - c2[0] and d1[1] == 0 - c2[1] and d1[2] == 0 - c2[2] and d2[0] == 0 - c1[0] and d2[1] == 0 - c1[1] and d2[2] == 0 - c1[2]",
              "scoped keep 1 | use negated_same_norm(norm(d1), norm(c2), d1, c2) | use negated_same_norm(norm(d2), norm(c1), d2, c1)"
              " | assert norm(d1) == norm(c2) and norm(d2) == norm(c1)"],
    "ensures": ["nondegenerate(p4, p3, p2, p1)"]}
# ... and the same statement about atoms
LEMMAS["general_position_reversal"] = {"kind": "smt", "params": ["a1", "a2", "a3", "a4"], "shapes": ["Atom"] * 4,
                                       "requires": ["general_position(a1, a2, a3, a4)"],
                                       "steps": ["use general_position_definition(a1, a2, a3, a4)", "use general_position_definition(a4, a3, a2, a1)",
                                                 "use nondegenerate_reversal(xyz(a1), xyz(a2), xyz(a3), xyz(a4))"],
                                       "ensures": ["general_position(a4, a3, a2, a1)"]}


# ---------------------------------------------------------------------------------------------------------------------
# (2) glycosidic torsion chi                                                                    module rnapolis.tertiary
# ---------------------------------------------------------------------------------------------------------------------
# PINNED from the IUPAC-IUB Joint Commission on Biochemical Nomenclature, "Abbreviations and symbols for the description of
# conformations of polynucleotide chains" (Recommendations 1982), Eur. J. Biochem. 131 (1983) 9-15, section 2.3:
#     chi = O4'-C1'-N9-C4 for purine bases,      chi = O4'-C1'-N1-C2 for pyrimidine bases
# (the torsion angle A-B-C-D in exactly this order; by lemma torsion_of_reversal D-C-B-A is the same angle - every other
# order and every other atom is a different angle, which the clauses below do not accept).
# Purines: adenine, guanine; pyrimidines: cytosine, uracil, thymine.  Residue3D.chi upper-cases the residue letter, i.e. it
# treats a lower-case letter as the same base; the clauses follow that reading.  (read_3d_structure itself only produces
# upper-case letters: parser.py replaces every letter outside "ACGUTN" by the base detected from the atom names.)
CHI_ATOMS = {"purine": ("O4'", "C1'", "N9", "C4"), "pyrimidine": ("O4'", "C1'", "N1", "C2")}
SPEC_CONSTS = {"PURINES": ("A", "G", "a", "g"), "PYRIMIDINES": ("C", "U", "T", "c", "u", "t"),
               # one-letter names that say neither (every other ASCII letter in both cases, the digits' place holder '?' and 'X'/'N' among them)
               "OTHER_LETTERS": tuple(ch for ch in "BDEFHIJKLMNOPQRSVWXYZbdefhijklmnopqrsvwxyz?*-.")}
CASE_MAP_UNINTERPRETED = True  # str.upper() of a residue name of unknown length (exact on one ASCII character)


def _atom(r, name):
    return f"{r}.atoms[first_idx({r}, {name!r})]"


def _atoms(r, kind):
    return ", ".join(_atom(r, n) for n in CHI_ATOMS[kind])


def _present(r, names):
    return " and ".join(f"first_idx({r}, {n!r}) >= 0" for n in names)


def _chi_is(res, r, kind):
    """`res` is the glycosidic torsion of residue r for a base of the given kind: THE torsion of the pinned quadruple when
    its four atoms are present (find_atom: the first atom of each name), the NaN sentinel when one is missing"""
    return (f"ite({_present(r, CHI_ATOMS[kind])}, not is_none({res}) and some({res}) == torsion_of({_atoms(r, kind)}), "
            f"is_none({res}))")


def _chi_requires(r, kind):
    """when the four atoms are there they are in general position (see torsion_angle_c)"""
    return f"implies({_present(r, CHI_ATOMS[kind])}, general_position({_atoms(r, kind)}))"


def _chi_helper(kind, fname):
    q = CHI_ATOMS[kind]

    class c:
        target = f"Residue3D.{fname}"
        params = {"self": "Residue3D"}
        requires = [_chi_requires("self", kind)]
        returns = "opt[real]"  # the None of this Optional is NaN
        raises = []
        modifies = []
        ensures = [_chi_is("result", "self", kind)]
        ensures_labels = {0: f"{kind}-chi-is-the-torsion-{'-'.join(q)}-or-NaN-when-an-atom-is-missing"}
        # reversal keeps the angle and the general position: the direction in which the code lists the four atoms is free
        ghost_entry = [f"use torsion_of_reversal({_atoms('self', kind)})",
                       f"use general_position_reversal({_atoms('self', kind)}) when {_present('self', q)}"]
    c.__name__ = f"chi_{kind}_c"
    return c


CONTRACTS["Residue3D.__chi_purine"] = _chi_helper("purine", "__chi_purine")
CONTRACTS["Residue3D.__chi_pyrimidine"] = _chi_helper("pyrimidine", "__chi_pyrimidine")


class chi_c:
    """cached property Residue3D.chi.  What C18 pins: a purine's chi is the purine torsion, a pyrimidine's the pyrimidine
    torsion, each NaN when one of its four atoms is missing.  Residues whose letter is neither (e.g. 'N', 'X', '?'): clause 3 - the purine quadruple decides when its atoms are
    present (IUPAC: the base bonded through N9 is a purine), else the pyrimidine quadruple; clause 2 is the weaker statement
    kept for call sites."""
    target = "Residue3D.chi"
    params = {"self": "Residue3D"}
    requires = [_chi_requires("self", "purine"), _chi_requires("self", "pyrimidine")]
    returns = "opt[real]"
    # cached_property on a frozen object: every read of r.chi yields the value computed by the one evaluation of this body.
    # At call sites the value is therefore named as a function of the object (chi_nan / chi_val, UFUNS), about which
    # exactly the ensures below are known.  (Assumption "cached property = evaluated once per object", listed in props/C18.)
    returns_value = "opt(chi_nan(self), chi_val(self))"
    raises = []
    modifies = []
    ensures = [f"implies(self.one_letter_name in PURINES, {_chi_is('result', 'self', 'purine')})",
               f"implies(self.one_letter_name in PYRIMIDINES, {_chi_is('result', 'self', 'pyrimidine')})",
               f"({_chi_is('result', 'self', 'purine')}) or ({_chi_is('result', 'self', 'pyrimidine')}) or is_none(result)",
               # a residue whose letter says neither (modified / unknown: 'N', '?', 'I', ...): the base bonded through N9 is a purine
               # (IUPAC: chi = O4'-C1'-N9-C4), so when the purine quadruple is present it decides; a purine also has N1 and C2, so
               # trying the pyrimidine quadruple first would report the wrong torsion for it
               f"implies(self.one_letter_name in OTHER_LETTERS, "
               f"ite({_present('self', CHI_ATOMS['purine'])}, {_chi_is('result', 'self', 'purine')}, {_chi_is('result', 'self', 'pyrimidine')}))"]
    ensures_labels = {0: "purine-chi-is-O4'-C1'-N9-C4", 1: "pyrimidine-chi-is-O4'-C1'-N1-C2", 2: "any-chi-is-one-of-the-two-or-NaN",
                      3: "unknown-letter:the-purine-quadruple-decides-when-present"}


CONTRACTS["Residue3D.chi"] = chi_c


# ---------------------------------------------------------------------------------------------------------------------
# (3) Residue3D.chi_class                                                                      module rnapolis.tertiary
# ---------------------------------------------------------------------------------------------------------------------
def _gb():
    from rnapolis.common import GlycosidicBond
    members = list(GlycosidicBond)
    return {"GB_ANTI": members.index(GlycosidicBond.anti), "GB_SYN": members.index(GlycosidicBond.syn)}


SPEC_CONSTS.update(_gb())
# "about -160 degrees": read as -160 +- 20 degrees, i.e. the band [-180, -140] (A-form RNA: chi between about -150 and -170)
SPEC_CONSTS.update({"A_FORM_CHI_LO": -180, "A_FORM_CHI_HI": -140})


def _a_form(r, kind):
    t = f"torsion_of({_atoms(r, kind)})"
    return f"{_present(r, CHI_ATOMS[kind])} and radians(A_FORM_CHI_LO) <= {t} and {t} <= radians(A_FORM_CHI_HI)"


class chi_class_c:
    """What C18 pins ("glycosidic chi of A-form RNA is anti (about -160 degrees)"): a purine / pyrimidine residue whose IUPAC
    glycosidic torsion lies in the A-form band is classified anti; a residue without chi has no class.
    NOT pinned by C18 (and not stated here): where syn ends and anti begins - the code takes syn = (-30, 120) degrees citing
    Neidle, IUPAC-IUB 1983 has syn = 0 +- 90; any boundary that leaves [-180, -140] degrees anti satisfies the clauses."""
    target = "Residue3D.chi_class"
    params = {"self": "Residue3D"}
    requires = [_chi_requires("self", "purine"), _chi_requires("self", "pyrimidine")]
    returns = "opt[enum[GlycosidicBond]]"
    raises = []
    modifies = []
    # the A-form band lies below every angle above -140 degrees, whatever limits the code compares with (math.radians is
    # strictly increasing; instantiated by the radians(..) terms of the code's comparisons)
    ghost_entry = ["use radians_increasing_above(A_FORM_CHI_HI)"]
    ensures = [f"implies(self.one_letter_name in PURINES and {_a_form('self', 'purine')}, result == GB_ANTI)",
               f"implies(self.one_letter_name in PYRIMIDINES and {_a_form('self', 'pyrimidine')}, result == GB_ANTI)",
               f"implies(self.one_letter_name in PURINES and not ({_present('self', CHI_ATOMS['purine'])}), result is None)",
               f"implies(self.one_letter_name in PYRIMIDINES and not ({_present('self', CHI_ATOMS['pyrimidine'])}), result is None)"]
    ensures_labels = {0: "A-form-purine-chi-is-anti", 1: "A-form-pyrimidine-chi-is-anti",
                      2: "purine-without-chi-atoms-has-no-class", 3: "pyrimidine-without-chi-atoms-has-no-class"}


CONTRACTS["Residue3D.chi_class"] = chi_class_c
# assumed properties of libm (trusted base): strictly increasing
LEMMAS["radians_increasing_above"] = {"kind": "assumed-external", "params": ["x"],
                                      "ensures": ["forall(lambda y: implies(x < y, radians(x) < radians(y)), sorts={'y': 'real'}, pats=['radians(y)'])"]}


# ---------------------------------------------------------------------------------------------------------------------
# (4) detect_cis_trans(residue_i, residue_j)                                                   module rnapolis.annotator
# ---------------------------------------------------------------------------------------------------------------------
SPEC_CONSTS["EPS"] = 1e-6  # undecided band around the 90-degree limits (a torsion of exactly +-90 degrees may go either way)
C1P = "C1'"
GLYCOSIDIC_N = {"N9": ("A", "G"), "N1": ("C", "U", "T")}  # C1'-N9 is the glycosidic bond of purines, C1'-N1 of pyrimidines


def _tau_atoms(ni, nj):
    return f"{_atom('residue_i', C1P)}, {_atom('residue_i', ni)}, {_atom('residue_j', nj)}, {_atom('residue_j', C1P)}"


def _tau_present(ni, nj):
    return f"{_present('residue_i', (C1P, ni))} and {_present('residue_j', (C1P, nj))}"


def _cis_trans_clause(ni, nj):
    tau = f"degrees(torsion_of({_tau_atoms(ni, nj)}))"
    return (f"implies(residue_i.one_letter_name in {GLYCOSIDIC_N[ni]!r} and residue_j.one_letter_name in {GLYCOSIDIC_N[nj]!r}, "
            f"ite({_tau_present(ni, nj)}, "
            f"(result == 'c' or result == 't') and implies(-90 + EPS < {tau} and {tau} < 90 - EPS, result == 'c') "
            f"and implies({tau} < -90 - EPS or {tau} > 90 + EPS, result == 't'), "
            f"result is None))")


_NN = [(a, b) for a in ("N9", "N1") for b in ("N9", "N1")]


class detect_cis_trans_c:
    """'c' iff the torsion C1'(i) - N(i) - N(j) - C1'(j) of the two glycosidic bonds is within 90 degrees of 0, 't' iff it is
    further away (a band of 1e-6 degrees around +-90 is left open); N = N9 of a purine (A, G), N1 of a pyrimidine (C, U, T);
    None when one of the four atoms is missing.  The torsion is THE torsion of C18 (torsion_of), through the contract of
    torsion_angle.  |tau| < 90 degrees does not depend on the sign convention nor on the direction of the chain (reversal),
    it does depend on the cosine term X.  NOT pinned: residues with any other letter (the code takes N9 exactly when the
    letter is a substring of "AG", N1 otherwise; unlike chi it does not upper-case - read_3d_structure produces upper-case
    letters only, so the difference does not show in structures read from files)."""
    target = "detect_cis_trans"
    params = {"residue_i": "Residue3D", "residue_j": "Residue3D"}
    requires = [f"implies({_tau_present(a, b)}, general_position({_tau_atoms(a, b)}))" for a, b in _NN]
    returns = "opt[str]"
    raises = []
    modifies = []
    ensures = [_cis_trans_clause(a, b) for a, b in _NN]
    # reversal keeps the angle and the general position: the direction in which the code lists the four atoms is free
    ghost_entry = [c for a, b in _NN for c in (f"use torsion_of_reversal({_tau_atoms(a, b)})",
                                               f"use general_position_reversal({_tau_atoms(a, b)}) when {_tau_present(a, b)}")]
    ensures_labels = {k: f"cis-iff-torsion-C1'-{a}-{b}-C1'-within-90-degrees" for k, (a, b) in enumerate(_NN)}


CONTRACTS["detect_cis_trans"] = detect_cis_trans_c
