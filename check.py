#!/verif/.venv/bin/python
"""Per-property check driver.

  check.py <ID> [--tier quick|thorough] [--replay <file>]

Deductive part: obligations regenerated from /repo's working tree through pyvc and discharged by z3/cvc5.
Bounded part:   independent oracles of the property statement run against the real functions (labelled bounded).
Exit 0: held on everything explored (known findings are printed, not failed); exit 1: VIOLATION lines printed;
exit 3: the checker itself is broken.
"""
from __future__ import annotations

import argparse
import importlib
import json
import os
import sys
import time
import traceback

os.environ.setdefault("LOGLEVEL", "CRITICAL")
ROOT = os.path.dirname(os.path.abspath(__file__))
sys.path.insert(0, ROOT)
SRC_ROOT = os.environ.get("PYVC_SRC_ROOT", "/repo/src")
if SRC_ROOT != "/repo/src":
    sys.path.insert(0, SRC_ROOT)


def load_known():
    path = os.path.join(ROOT, "known_findings.json")
    if not os.path.exists(path):
        return []
    return json.load(open(path))["findings"]


def main():
    ap = argparse.ArgumentParser()
    ap.add_argument("pid")
    ap.add_argument("--tier", default=os.environ.get("VERIF_TIER", "quick"))
    ap.add_argument("--replay")
    args = ap.parse_args()
    seed = int(os.environ.get("VERIF_SEED", "0"))
    pid = args.pid
    t0 = time.time()
    prop = importlib.import_module(f"props.{pid}")
    if args.replay:
        from pyvc.report import do_replay
        sys.exit(do_replay(prop, args.replay))

    from pyvc.report import run_property
    try:
        code = run_property(pid, prop, args.tier, seed, load_known(), t0)
    except Exception:
        traceback.print_exc()
        print(f"CHECKER-ERROR property={pid}")
        sys.exit(3)
    sys.exit(code)


if __name__ == "__main__":
    main()
