"""Secondary structures with several independent pseudoknot groups (inputs whose list of all dot-brackets has many members)."""
from gen.pairings import bpseq_text, random_structure

FIXED = [
    ("ACGUACGUACGUACGU", "([{.)].}..([.)]."),          # two groups: three mutually crossing stems, then two
    ("ACGUACGUACGU", "([)]..([)].."),
    ("GGGGAAAACCCCUUUUGGGGAAAACCCC", "((((....[[[[))))....]]]]...."),
    ("ACGUACGUACGUACGUACGUAC", "(.[.{.<.).].}.>.(.[.)]"),
    ("ACGUACGUAC", ".........."),
    ("ACGUACGUACGUACGUACGUACGUACGU", "([)]([)]([)]([)]([)]([)]...."),  # six groups of two: 2^6 alternatives
]


def multi_group(rng, groups=None):
    """BPSEQ text: `groups` random knotted blocks (<= 4 stems each) laid side by side, so the conflict graph has several components"""
    groups = groups or rng.randint(2, 4)
    pairing = []
    for _ in range(groups):
        n = rng.randint(8, 16)
        block = random_structure(rng, n, rng.randint(2, 4), maxlen=2)
        off = len(pairing)
        pairing += [p + off if p else 0 for p in block]
        pairing += [0] * rng.randint(0, 2)
    return bpseq_text(tuple(pairing))
