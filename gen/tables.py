"""Generated atom tables for C10 (fit_to_pdb): records -> text by independent emitters -> the library's own readers, so the
tables have exactly the column schema / dtypes parse_pdb_atoms and parse_cif_atoms produce.  One very large table is built
directly as a DataFrame with the same dtypes (parsing 100k rows of text would dominate the run).

record = dict(model, chain, resnum, icode, resname, name, x, y, z, occ, altloc, element, het, bfac, charge)
"""
import io
import random
import string

from gen import emit

NAMES = ["P", "OP1", "OP2", "O5'", "C5'", "C4'", "O4'", "C3'", "O3'", "C2'", "O2'", "C1'", "N9", "C8", "N7", "C5", "C6", "O6", "N1", "C2", "N2", "N3", "C4",
         "H5''", "HO2'", "MG"]
RESNAMES = ["G", "A", "C", "U", "DG", "DT", "PSU", "5MC"]
MULTI = ["AA", "AB", "BA", "A1", "1A", "aa", "Aa", "AAA", "B2", "XYZ", "H1", "L10", "10", "AbC", "R_1"]
SINGLE = list("ABCDEFGHabcz0179")

FAMILIES = ["fits", "multichar", "bigres", "bigserial", "chains62", "chains63", "chains100", "multimodel", "negative", "neg1000", "interleaved",
            "collide", "mixed"]


def _residue_ids(rng, start, n, icodes=True):
    """n distinct (number, icode) in file order: increasing numbers with gaps, occasionally inserted residues (10, 10A, 10B)"""
    out = []
    num = start
    while len(out) < n:
        out.append((num, None))
        if icodes and rng.random() < 0.3:
            for ic in "ABC"[: rng.randint(1, 2)]:
                if len(out) < n:
                    out.append((num, ic))
        num += rng.choice([1, 1, 1, 2, 5])
    return out


def _atoms(rng, model, chain, num, icode, resname, names, het=False, altloc_p=0.0):
    recs = []
    for nm in names:
        r = dict(model=model, chain=chain, resnum=num, icode=icode, resname=resname, name=nm, x=round(rng.uniform(-99, 99), 3), y=round(rng.uniform(-99, 99), 3),
                 z=round(rng.uniform(-99, 99), 3), occ=1.0, altloc=None, element="MG" if nm == "MG" else nm.strip("0123456789'")[:1], het=het,
                 bfac=round(rng.uniform(0, 99), 2), charge=None)
        if rng.random() < altloc_p:
            r.update(altloc="A", occ=0.6)
            recs.append(r)
            r = dict(r, altloc="B", occ=0.4, x=round(r["x"] + 0.7, 3))
        recs.append(r)
    return recs


def make_records(family, seed):
    """records of one generated table + the first atom serial to use in mmCIF"""
    rng = random.Random(f"{family}-{seed}")
    id_start = 1
    nmodels = 1
    icodes = rng.random() < 0.7
    altloc_p = rng.choice([0.0, 0.0, 0.08])
    starts = [1, 1, 5, 98, 996]
    blocks = None  # list of (chain, [(num, icode)], het)
    natoms = (1, 4)
    if family == "fits":
        chains = rng.sample(SINGLE, rng.randint(1, 4))
        nmodels = rng.choice([1, 1, 2, 3])
        starts = [-12, -3, 1, 1, 98, 9960]
    elif family == "multichar":
        chains = rng.sample(MULTI, rng.randint(1, 4)) + rng.sample(SINGLE, rng.randint(0, 2))
        rng.shuffle(chains)
    elif family == "bigres":
        chains = rng.sample(SINGLE, rng.randint(1, 3))
        starts = [9995, 9998, 10000, 12345, 99990, 123456]
    elif family == "bigserial":
        chains = rng.sample(SINGLE, rng.randint(1, 3))
        id_start = rng.choice([99990, 99999, 100000, 250000])
    elif family in ("chains62", "chains63", "chains100"):
        n = int(family[6:])
        pool = [a + b for a in string.ascii_uppercase[:12] for b in string.digits + "xy"]
        chains = rng.sample(pool, n)
        natoms = (1, 2)
        icodes = False
        altloc_p = 0.0
    elif family == "multimodel":
        chains = rng.sample(MULTI, rng.randint(1, 3)) + rng.sample(SINGLE, rng.randint(0, 1))
        nmodels = rng.choice([2, 3])
    elif family == "negative":
        chains = rng.sample(MULTI, rng.randint(1, 2)) + rng.sample(SINGLE, 1)
        starts = [-20, -3, -1, 0]
    elif family == "neg1000":
        chains = rng.sample(SINGLE, rng.randint(1, 2))
        starts = [-1003, -1000, -1234]
    elif family == "interleaved":
        a, b = rng.sample(MULTI + SINGLE, 2)
        if len(a) == 1 and len(b) == 1:
            a = a + "2"
        ra, rb = _residue_ids(rng, rng.choice(starts), rng.randint(2, 4), icodes), _residue_ids(rng, rng.choice(starts), rng.randint(2, 4), icodes)
        wa = [(ra[-1][0] + 10 + k, None) for k in range(rng.randint(1, 3))]
        wb = [(rb[-1][0] + 10 + k, None) for k in range(rng.randint(1, 2))]
        blocks = [(a, ra, False), (b, rb, False), (a, wa, True), (b, wb, True)]
        chains = [a, b]
    elif family == "collide":
        chains = rng.sample(["B", "AA", "A", "a", "C", "BB", "b", "0"], rng.randint(3, 6))
        if all(len(c) == 1 for c in chains):
            chains[0] = "AA"
    elif family == "mixed":
        chains = rng.sample(MULTI, rng.randint(0, 3)) + rng.sample(SINGLE, rng.randint(1, 3))
        rng.shuffle(chains)
        nmodels = rng.choice([1, 1, 2])
        starts = [-20, 1, 98, 9996, 10000, 54321]
        id_start = rng.choice([1, 1, 99995, 123456])
    else:
        raise KeyError(family)
    if blocks is None:
        small = family.startswith("chains")
        blocks = [(c, _residue_ids(rng, rng.choice(starts), 1 if small else rng.randint(2, 6), icodes), False) for c in chains]
    skeleton = []
    for chain, rids, het in blocks:
        for num, ic in rids:
            resname = "HOH" if het else rng.choice(RESNAMES)
            names = ["O"] if het else rng.sample(NAMES, rng.randint(*natoms))
            skeleton.append((chain, num, ic, resname, names, het))
    recs = []
    for m in sorted(rng.sample([1, 2, 3, 4, 7], nmodels)) if nmodels > 1 else [1]:
        for chain, num, ic, resname, names, het in skeleton:
            recs += _atoms(rng, m, chain, num, ic, resname, names, het, altloc_p)
    if rng.random() < 0.3 and recs:
        rng.choice(recs)["charge"] = rng.choice([1, 2, -1])
    return recs, id_start


def to_cif(recs, id_start=1, columns="full", null="?"):
    """mmCIF text of the records; columns: 'full' (label_* and auth_* atom/comp ids), 'auth' or 'label' (only those atom/comp ids)"""
    cols = ["group_PDB", "id", "type_symbol"]
    if columns in ("full", "label"):
        cols.append("label_atom_id")
    cols.append("label_alt_id")
    if columns in ("full", "label"):
        cols.append("label_comp_id")
    cols += ["label_asym_id", "label_entity_id", "label_seq_id", "pdbx_PDB_ins_code", "Cartn_x", "Cartn_y", "Cartn_z", "occupancy", "B_iso_or_equiv",
             "pdbx_formal_charge", "auth_seq_id"]
    if columns in ("full", "auth"):
        cols.append("auth_comp_id")
    cols.append("auth_asym_id")
    if columns in ("full", "auth"):
        cols.append("auth_atom_id")
    cols.append("pdbx_PDB_model_num")
    out = ["data_synth", "#", "loop_"] + [f"_atom_site.{c}" for c in cols]
    seq = {}
    labels = {}
    for k, r in enumerate(recs):
        key = (r["chain"], r["resnum"], r.get("icode"))
        if key not in seq:
            seq[key] = len([1 for kk in seq if kk[0] == r["chain"]]) + 1
        labels.setdefault(r["chain"], string.ascii_uppercase[len(labels) % 26] * (1 + len(labels) // 26))
        v = {"group_PDB": "HETATM" if r.get("het") else "ATOM", "id": id_start + k, "type_symbol": r.get("element") or "C", "label_atom_id": emit.q(r["name"]),
             "label_alt_id": r.get("altloc") or ".", "label_comp_id": r["resname"], "label_asym_id": labels[r["chain"]], "label_entity_id": "1",
             "label_seq_id": "." if r.get("het") else seq[key], "pdbx_PDB_ins_code": r.get("icode") or null, "Cartn_x": f"{r['x']:.3f}", "Cartn_y": f"{r['y']:.3f}",
             "Cartn_z": f"{r['z']:.3f}", "occupancy": f"{r['occ']:.2f}", "B_iso_or_equiv": f"{r['bfac']:.2f}", "pdbx_formal_charge": r.get("charge") if r.get("charge") is not None else "?",
             "auth_seq_id": r["resnum"], "auth_comp_id": r["resname"], "auth_asym_id": r["chain"], "auth_atom_id": emit.q(r["name"]), "pdbx_PDB_model_num": r["model"]}
        out.append(" ".join(str(v[c]) for c in cols))
    out.append("#")
    return "\n".join(out) + "\n"


def as_object(df):
    """the same table with plain object columns instead of categoricals (what e.g. pd.concat of tables with different categories yields)"""
    out = df.copy()
    for c in out.columns:
        if str(out[c].dtype) == "category":
            out[c] = out[c].astype(object)
    out.attrs = dict(df.attrs)
    return out


def cif_table(family, seed, columns="full", dtype="category"):
    from rnapolis.parser_v2 import parse_cif_atoms
    recs, id_start = make_records(family, seed)
    df = parse_cif_atoms(io.StringIO(to_cif(recs, id_start, columns, null=random.Random(seed).choice(["?", "."]))))
    return (as_object(df) if dtype == "object" else df), recs


def pdb_table(family, seed, dtype="category"):
    """PDB-schema table (only families whose records can be laid out in PDB columns)"""
    from rnapolis.parser_v2 import parse_pdb_atoms
    recs, _ = make_records(family, seed)
    df = parse_pdb_atoms(io.StringIO(emit.to_pdb(recs)))
    return (as_object(df) if dtype == "object" else df), recs


def overflow_pdb_table(seed):
    """a PDB-schema table (dtypes of parse_pdb_atoms) edited so that it exceeds the limits: what concatenating / renaming tables in memory gives"""
    rng = random.Random(f"ovf-{seed}")
    df, recs = pdb_table("fits", seed)
    attrs = dict(df.attrs)
    how = rng.choice(["chain", "resseq", "serial", "all"])
    df = df.copy()
    if how in ("chain", "all"):
        df["chainID"] = df["chainID"].astype(object).map(lambda c: c + "x").astype("category")
    if how in ("resseq", "all"):
        df["resSeq"] = df["resSeq"] + 10000
    if how in ("serial", "all"):
        df["serial"] = df["serial"] + 100000
    df.attrs = attrs
    return df, how


def huge_cif_table(n, chain="A", id_start=1, nres=None):
    """mmCIF-schema table of n atoms built directly with the dtypes parse_cif_atoms assigns (category / Int64 / float64)"""
    import numpy as np
    import pandas as pd
    nres = nres or max(1, n // 20)
    resnum = (np.arange(n) * nres // n) + 1
    cat = lambda values: pd.Series(values, dtype=object).astype("category")  # noqa: E731
    df = pd.DataFrame({
        "group_PDB": cat(["ATOM"] * n), "id": cat([str(id_start + k) for k in range(n)]), "type_symbol": cat(["C"] * n), "label_atom_id": cat(["C1'"] * n),
        "label_alt_id": cat([None] * n), "label_comp_id": cat(["G"] * n), "label_asym_id": cat(["A"] * n), "label_entity_id": cat(["1"] * n),
        "label_seq_id": pd.Series(resnum, dtype="Int64"), "pdbx_PDB_ins_code": cat([None] * n), "Cartn_x": np.arange(n) % 997 * 0.1, "Cartn_y": np.arange(n) % 89 * 1.0,
        "Cartn_z": np.arange(n) % 13 * 2.5, "occupancy": np.ones(n), "B_iso_or_equiv": np.full(n, 10.0), "pdbx_formal_charge": pd.Series([pd.NA] * n, dtype="Int64"),
        "auth_seq_id": cat([str(v) for v in resnum]), "auth_comp_id": cat(["G"] * n), "auth_asym_id": cat([chain] * n), "auth_atom_id": cat(["C1'"] * n),
        "pdbx_PDB_model_num": pd.Series([1] * n, dtype="Int64")})
    df.attrs["format"] = "mmCIF"
    return df
