"""Corpus structures and their perturbations (bounded stand-in inputs for the 3D properties)."""
import glob
import math
import os

import numpy as np

TESTS = os.path.join(os.environ.get("PYVC_SRC_ROOT", "/repo/src").rsplit("/src", 1)[0], "tests")
if not os.path.isdir(TESTS):
    TESTS = "/repo/tests"
SMALL = ["1DFU_1_M-N.cif", "1HMH_1_E.cif", "6INQ.cif", "4WTI_1_T-P.cif", "1E7K_1_C.cif", "1A1T_1_B.cif", "1ATO.pdb", "6RS3.cif",
         "2HY9.cif", "1JJP.cif", "6FC9.cif", "488d.pdb", "q-ugg-5k-salt_400-500ns_frame1065.pdb"]
MEDIUM = ["4qln.cif", "4gqj-assembly1.cif", "184D.cif", "8btk_B7.cif", "4qln.pdb"]
LARGE = ["1ehz-assembly-1.cif", "6g90_1.cif", "1a9n.cif"]


def corpus(tier):
    names = SMALL + MEDIUM[:4] if tier == "quick" else SMALL + MEDIUM + LARGE
    return [os.path.join(TESTS, n) for n in names if os.path.exists(os.path.join(TESTS, n))]


def load(path, model=None):
    from rnapolis.parser import read_3d_structure
    with open(path) as f:
        return read_3d_structure(f, model)


def rebuild(structure, atom_fn=None, residue_filter=None, atom_filter=None, ident_fn=None, shuffle_rng=None):
    """new Structure3D with transformed atoms; atom_fn(atom) -> (x, y, z); ident_fn(label, auth) -> (label, auth)"""
    from rnapolis.tertiary import Atom, Residue3D, Structure3D
    out = []
    for k, r in enumerate(structure.residues):
        if residue_filter is not None and not residue_filter(k, r):
            continue
        label, auth = r.label, r.auth
        if ident_fn is not None:
            label, auth = ident_fn(label, auth)
        atoms = []
        for a in r.atoms:
            if atom_filter is not None and not atom_filter(r, a):
                continue
            x, y, z = atom_fn(a) if atom_fn is not None else (a.x, a.y, a.z)
            atoms.append(Atom(a.entity_id, label, auth, a.model, a.name, float(x), float(y), float(z), a.occupancy))
        if shuffle_rng is not None:
            shuffle_rng.shuffle(atoms)
        if atoms:
            out.append(Residue3D(label, auth, r.model, r.one_letter_name, tuple(atoms)))
    return Structure3D(out)


def random_rotation(rng):
    q = np.array([rng.gauss(0, 1) for _ in range(4)])
    q /= np.linalg.norm(q)
    w, x, y, z = q
    return np.array([[1 - 2 * (y * y + z * z), 2 * (x * y - z * w), 2 * (x * z + y * w)],
                     [2 * (x * y + z * w), 1 - 2 * (x * x + z * z), 2 * (y * z - x * w)],
                     [2 * (x * z - y * w), 2 * (y * z + x * w), 1 - 2 * (x * x + y * y)]])


def rigid(structure, rng, max_t=300.0, axis_perm=False):
    R = np.array([[0, 1, 0], [0, 0, 1], [1, 0, 0]], dtype=float) if axis_perm else random_rotation(rng)
    t = np.array([rng.uniform(-max_t, max_t) for _ in range(3)])
    return rebuild(structure, atom_fn=lambda a: R @ np.array([a.x, a.y, a.z]) + t)


def jitter(structure, rng, sigma=0.15):
    return rebuild(structure, atom_fn=lambda a: (a.x + rng.gauss(0, sigma), a.y + rng.gauss(0, sigma), a.z + rng.gauss(0, sigma)))


def thin(structure, rng, p_res=0.15, p_atom=0.03):
    keep = {k for k in range(len(structure.residues)) if rng.random() > p_res}
    return rebuild(structure, residue_filter=lambda k, r: k in keep, atom_filter=lambda r, a: rng.random() > p_atom)


def reorder(structure, rng, mode):
    """same residues listed in a different file order: reversed, or chain blocks rotated"""
    from rnapolis.tertiary import Structure3D
    res = list(structure.residues)
    if mode == "reversed":
        res.reverse()
    elif mode == "interleaved":
        # a chain whose residues re-appear after another chain's (A.., B.., A..): chain ids are not contiguous in file order
        blocks = {}
        for r in res:
            blocks.setdefault(r.chain, []).append(r)
        keys = list(blocks)
        first = blocks[keys[0]]
        h = max(1, len(first) // 2)
        if len(keys) > 1:
            res = first[:h] + [r for k in keys[1:] for r in blocks[k]] + first[h:]
        else:
            return relabel_second_half(structure)
    else:
        blocks = {}
        for r in res:
            blocks.setdefault(r.chain, []).append(r)
        keys = list(blocks)
        if len(keys) > 1:
            keys = keys[1:] + keys[:1]
            res = [r for k in keys for r in blocks[k]]
        else:
            h = len(res) // 2
            res = res[h:] + res[:h]
    return Structure3D(res)


def relabel_second_half(structure):
    """single-chain structure -> the middle third gets another chain id, so the original chain id re-appears after it"""
    from rnapolis.common import ResidueAuth
    n = len(structure.residues)
    lo, hi = n // 3, 2 * n // 3
    state = {"k": -1}

    def ident(label, auth):
        state["k"] += 1
        if auth is None or not (lo <= state["k"] < hi):
            return (None if auth is not None else label), auth
        return None, ResidueAuth(auth.chain + "x", auth.number, auth.icode, auth.name)
    return rebuild(structure, ident_fn=ident)


def icode_twins(structure, rng):
    """the same structure as a PDB-style one (no label identity) in which a few residues are renumbered to the number of
    their predecessor plus an insertion code (N, N^A, N^B ...): identities then differ in the insertion code only"""
    from rnapolis.common import ResidueAuth
    n = len(structure.residues)
    picks = set(rng.sample(range(1, n), min(n - 1, max(1, n // 6)))) if n > 1 else set()
    state = {"k": -1, "prev": None, "code": 0}

    def ident(label, auth):
        state["k"] += 1
        if auth is None:
            return label, auth
        if state["k"] in picks and state["prev"] is not None and state["prev"].chain == auth.chain:
            state["code"] += 1
            new = ResidueAuth(auth.chain, state["prev"].number, "ABCDEFGH"[(state["code"] - 1) % 8], auth.name)
        else:
            state["code"] = 0
            new = ResidueAuth(auth.chain, auth.number, auth.icode, auth.name)
            state["prev"] = new
        return None, new
    return rebuild(structure, ident_fn=ident)


def variants(path, rng, tier):
    """(tag, Structure3D) for the file and a few seeded perturbations"""
    s = load(path)
    name = os.path.basename(path)
    out = [(name, s)]
    n = 1 if tier == "quick" else 3
    if len(s.residues) > 200 and tier == "quick":
        return out
    for k in range(n):
        out.append((f"{name}|rigid{k}", rigid(s, rng)))
        out.append((f"{name}|jitter{k}", jitter(s, rng, sigma=rng.choice([0.05, 0.15, 0.3]))))
        out.append((f"{name}|thin{k}", thin(s, rng)))
    out.append((f"{name}|icode-twins", icode_twins(s, rng)))
    out.append((f"{name}|reversed", reorder(s, rng, "reversed")))
    out.append((f"{name}|rotated-chains", reorder(s, rng, "rotate")))
    # the smallest structures: two and three consecutive residues cut out of the file
    if len(s.residues) >= 3:
        k = rng.randrange(len(s.residues) - 2)
        out.append((f"{name}|two-residues", rebuild(s, residue_filter=lambda i, r, k=k: i in (k, k + 1))))
        out.append((f"{name}|three-residues", rebuild(s, residue_filter=lambda i, r, k=k: i in (k, k + 1, k + 2))))
    return out
