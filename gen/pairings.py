"""Generators of secondary structures (bounded stand-in inputs)."""
import random

OPEN = "([{<ABCDEFGHIJKLMNOPQRSTUVWXYZ"
CLOSE = ")]}>abcdefghijklmnopqrstuvwxyz"


def all_pairings(n):
    """every partial matching on positions 1..n, as a tuple pair[1..n] (0 = unpaired)"""
    def rec(free, cur):
        if not free:
            yield tuple(cur[1:])
            return
        i = free[0]
        rest = free[1:]
        yield from rec(rest, cur)
        for k, j in enumerate(rest):
            cur[i], cur[j] = j, i
            yield from rec(rest[:k] + rest[k + 1:], cur)
            cur[i], cur[j] = 0, 0
    yield from rec(list(range(1, n + 1)), [0] * (n + 1))


def pairings_upto(nmax):
    for n in range(0, nmax + 1):
        yield from all_pairings(n)


def random_structure(rng, n, stems, maxlen=4):
    """random knotted structure: `stems` stacked runs placed at random free positions"""
    pair = [0] * (n + 1)
    for _ in range(stems):
        for _try in range(20):
            ln = rng.randint(1, maxlen)
            i = rng.randint(1, n)
            j = rng.randint(1, n)
            if i > j:
                i, j = j, i
            if j - i + 1 < 2 * ln:
                continue
            pos = [(i + t, j - t) for t in range(ln)]
            if any(pair[a] or pair[b] for a, b in pos):
                continue
            for a, b in pos:
                pair[a], pair[b] = b, a
            break
    return tuple(pair[1:])


def bpseq_text(pairing, seq=None):
    seq = seq or "".join("ACGUacguNn"[(i * 7) % 10] for i in range(len(pairing)))
    return "\n".join(f"{i + 1} {seq[i]} {p}" for i, p in enumerate(pairing))


def pairs_of(pairing):
    return {(i + 1, p) for i, p in enumerate(pairing) if p > i + 1}


def stems_of(pairing):
    """independent stem extraction: maximal runs (i,j),(i+1,j-1),... in 5'->3' order of opening position"""
    ps = sorted(pairs_of(pairing))
    stems = []
    for (i, j) in ps:
        if stems and stems[-1][-1] == (i - 1, j + 1):
            stems[-1].append((i, j))
        else:
            stems.append([(i, j)])
    return stems


def crossing(a, b):
    (k, l), (m, n) = a, b
    return k < m < l < n or m < k < n < l


def decode(structure):
    """independent decoder: per-type stacks; returns set of 1-based pairs or None if unbalanced / bad alphabet"""
    stacks = {o: [] for o in OPEN}
    close_to_open = dict(zip(CLOSE, OPEN))
    out = set()
    for p, c in enumerate(structure, 1):
        if c == ".":
            continue
        if c in stacks:
            stacks[c].append(p)
        elif c in close_to_open:
            st = stacks[close_to_open[c]]
            if not st:
                return None
            out.add((st.pop(), p))
        else:
            return None
    if any(stacks.values()):
        return None
    return out


def level_of(structure, pos):
    c = structure[pos - 1]
    return OPEN.index(c) if c in OPEN else CLOSE.index(c)


def concat(*ps):
    out = []
    for p in ps:
        off = len(out)
        out += [x + off if x else 0 for x in p]
    return tuple(out)


def stretch(pairing, lens):
    """replace every pair of `pairing` (one per stem expected; works for any pairing) by a stacked run of the given length"""
    ps = sorted(pairs_of(pairing))
    n = len(pairing)
    # width of each original position: positions that open/close pair k get lens[k]
    width = [1] * (n + 1)
    for k, (i, j) in enumerate(ps):
        width[i] = width[j] = lens[k % len(lens)]
    start = [0] * (n + 2)
    for pos in range(1, n + 1):
        start[pos + 1] = start[pos] + width[pos]
    total = start[n + 1]
    out = [0] * (total + 1)
    for k, (i, j) in enumerate(ps):
        w = lens[k % len(lens)]
        for t in range(w):
            a = start[i] + 1 + t
            b = start[j] + w - t
            out[a], out[b] = b, a
    return tuple(out[1:])


HAIRPIN = (3, 0, 1)
