"""Independent PDB / mmCIF emitters (do not use the library's writers) for synthetic and derived atom tables.
record = dict(model, chain, resnum, icode, resname, name, x, y, z, occ, altloc, element, het, bfac, label_seq)"""


def from_structure(structure, model=1):
    recs = []
    for r in structure.residues:
        for a in r.atoms:
            auth = a.auth or r.auth
            recs.append(dict(model=a.model if a.model is not None else model, chain=(auth.chain if auth else r.chain), resnum=(auth.number if auth else r.number),
                             icode=(auth.icode if auth and auth.icode else None), resname=(auth.name if auth else r.name), name=a.name,
                             x=a.x, y=a.y, z=a.z, occ=a.occupancy if a.occupancy is not None else 1.0, altloc=None,
                             element=a.name.strip("0123456789'")[:1] or "C", het=False, bfac=0.0))
    return recs


def pdb_atom_name(name, element):
    if len(name) >= 4 or len(element) == 2:
        return name.ljust(4)[:4]
    return (" " + name).ljust(4)


def to_pdb(recs, with_models=None):
    lines = []
    models = list(dict.fromkeys(r["model"] for r in recs))
    multi = with_models if with_models is not None else (len(models) > 1 or models != [1])
    serial = 0
    for m in models:
        if multi:
            lines.append(f"MODEL     {m:>4}".ljust(80))
        for r in recs:
            if r["model"] != m:
                continue
            serial += 1
            rec = "HETATM" if r.get("het") else "ATOM  "
            line = (f"{rec}{serial % 100000:>5} {pdb_atom_name(r['name'], r.get('element') or 'C')}{r.get('altloc') or ' '}{r['resname']:>3} "
                    f"{r['chain'][:1] or ' '}{r['resnum']:>4}{r.get('icode') or ' '}   {r['x']:8.3f}{r['y']:8.3f}{r['z']:8.3f}"
                    f"{r.get('occ', 1.0):6.2f}{r.get('bfac', 0.0):6.2f}          {(r.get('element') or 'C'):>2}")
            lines.append(line.ljust(80))
        if multi:
            lines.append("ENDMDL".ljust(80))
    lines.append("END".ljust(80))
    return "\n".join(lines) + "\n"


def q(v):
    if v is None:
        return "?"
    s = str(v)
    if s == "":
        return "?"
    if "'" in s and '"' not in s:
        return f'"{s}"'
    if "'" in s or " " in s or s[0] in "_#$[];" or '"' in s:
        return f"'{s}'" if "'" not in s else f'"{s}"'
    return s


def to_cif(recs, null_icode="?", with_label=True, entity_poly=True):
    cols = ["group_PDB", "id", "type_symbol", "label_atom_id", "label_alt_id", "label_comp_id", "label_asym_id", "label_entity_id",
            "label_seq_id", "pdbx_PDB_ins_code", "Cartn_x", "Cartn_y", "Cartn_z", "occupancy", "B_iso_or_equiv", "auth_seq_id",
            "auth_comp_id", "auth_asym_id", "auth_atom_id", "pdbx_PDB_model_num"]
    out = ["data_synth", "#", "loop_"] + [f"_atom_site.{c}" for c in cols]
    seqmap = {}
    for k, r in enumerate(recs, 1):
        key = (r["model"], r["chain"], r["resnum"], r.get("icode"))
        if key not in seqmap:
            seqmap[key] = r.get("label_seq", len([1 for kk in seqmap if kk[0] == r["model"] and kk[1] == r["chain"]]) + 1)
        occ = r.get("occ", 1.0)
        row = ["HETATM" if r.get("het") else "ATOM", k, r.get("element") or "C", q(r["name"]), r.get("altloc") or ".", r["resname"],
               r["chain"], "1", seqmap[key] if not r.get("het") else ".", r.get("icode") or null_icode, f"{r['x']:.3f}", f"{r['y']:.3f}", f"{r['z']:.3f}",
               occ if isinstance(occ, str) else f"{occ:.2f}", f"{r.get('bfac', 0.0):.2f}", r["resnum"], r["resname"], r["chain"], q(r["name"]), r["model"]]
        out.append(" ".join(str(x) for x in row))
    out.append("#")
    return "\n".join(out) + "\n"
