"""Synthetic full atom tables (every PDB ATOM/HETATM field) and independent PDB / mmCIF emitters for them (C09, C15).

record = dict(record 'ATOM'|'HETATM', serial, name, altloc|None, resname, chain, resnum, icode|None, x, y, z, occ, bfac,
              element, charge int|None, model, label_asym, label_seq int|None)
All generated values fit the PDB 3.3 field widths.  Nothing here imports the library under test."""
import math

from gen.emit import pdb_atom_name, q

SUGAR_PHOSPHATE = ["P", "OP1", "OP2", "O5'", "C5'", "C4'", "O4'", "C3'", "O3'", "C2'", "O2'", "C1'"]
PURINE = ["N9", "C8", "N7", "C5", "C6", "O6", "N1", "C2", "N2", "N3", "C4"]
PYRIMIDINE = ["N1", "C2", "O2", "N3", "C4", "N4", "C5", "C6"]
HYDROGENS = ["H5'", "H5''", "H4'", "H3'", "HO2'", "H2'", "H1'", "H8", "H1", "H21", "H22", "HO5'", "1H5'", "2H5'", "1H2", "2HO'", "H", "3HB"]
# (residue/atom name, element symbol as written, charge): two-letter symbols in both spellings found in the wild ("MG" and "Mg")
IONS = [("MG", "Mg", 2), ("NA", "NA", 1), ("CL", "Cl", -1), ("ZN", "ZN", 2), ("FE", "Fe", 3), ("K", "K", 1), ("CA", "CA", 2), ("MN", "Mn", 2)]
CHAIN_POOL = list("ABCDEFGHIJKLMNOPQRSTUVWXYZabcdefghijklmnopqrstuvwxyz0123456789")
SPECIAL_COORD = [0.0, 0.0, -999.999, 9999.999, -100.0, -100.001, 1000.0, 999.999, -0.001, 0.001, -99.999, 1234.567, -104.518]


def element_of(name):
    s = name.lstrip("0123456789")
    if name in ("MG", "NA", "ZN", "CL", "MN", "FE", "CA", "CO", "CU", "BR", "SE", "NI", "CD", "SR", "BA", "PT", "HG"):
        # two-letter symbols as modelling programs write them: second letter lower case in about half of the tables
        return name if (sum(map(ord, name)) + _ELEMENT_CASE[0]) % 2 else name[0] + name[1].lower()
    return s[:1].upper() if s else "X"


_ELEMENT_CASE = [0]


def coord(rng, centre, spread):
    if rng.random() < 0.06:
        return rng.choice(SPECIAL_COORD)
    return round(centre + rng.uniform(-spread, spread), 3)


def make_table(rng, nmodels=None, allow_altloc=True, allow_blank_chain=False):
    """random atom table within PDB limits, file order; returns (records, info)"""
    nmodels = nmodels or rng.choice([1, 1, 1, 2, 2, 3])
    if nmodels == 1:
        model_ids = [rng.choice([1, 1, 1, 3, 17])]
    else:
        model_ids = sorted(rng.sample([1, 2, 3, 4, 5, 7, 12], nmodels))
        if rng.random() < 0.3:
            rng.shuffle(model_ids)  # models listed out of numeric order
        if rng.random() < 0.5:
            model_ids = list(range(1, nmodels + 1))
    nchains = rng.choice([1, 2, 2, 3])
    chains = rng.sample(CHAIN_POOL, nchains)
    blank = allow_blank_chain and rng.random() < 0.5
    if blank:
        chains[rng.randrange(nchains)] = ""
    far = rng.random() < 0.25  # whole molecule far from the origin: 8-character coordinate fields
    origin = [rng.choice([-600.0, -150.0, 1500.0, 5000.0]) if far and rng.random() < 0.7 else rng.uniform(-40, 40) for _ in range(3)]
    skeleton = []  # (record, chain, resnum, icode, resname, [(name, element, charge, altlocs)])
    for ch in chains:
        num = rng.choice([-999, -12, -3, -1, 0, 1, 1, 1, 98, 996, 9990, 9996])
        for k in range(rng.randint(1, 4)):
            icode = rng.choice([None, None, None, "A", "B", "Z"])
            if icode is None or k == 0:
                if num == 9999:
                    break  # the chain ends at the largest number the four columns hold
                num = min(9999, num + rng.choice([1, 1, 2, 10]))
            resname = rng.choice(["G", "A", "C", "U", "DG", "DT", "PSU", "5MC", "2MG", "N", "GTP"])
            base = PURINE if resname in ("G", "A", "DG", "2MG", "GTP") else PYRIMIDINE
            names = rng.sample(SUGAR_PHOSPHATE, rng.randint(2, 7)) + rng.sample(base, rng.randint(1, 4)) + rng.sample(HYDROGENS, rng.randint(0, 3))
            atoms = []
            for nm in names:
                charge = None
                if nm in ("OP1", "OP2") and rng.random() < 0.3:
                    charge = -1
                elif nm.startswith("N") and rng.random() < 0.1:
                    charge = 1
                elif rng.random() < 0.04:
                    charge = rng.choice([0, 0, 2, -2, 3])
                alts = None
                if allow_altloc and rng.random() < 0.08:
                    alts = rng.choice([("A", "B"), ("A", "B", "C"), ("1", "2")])
                atoms.append((nm, element_of(nm), charge, alts))
            record = "HETATM" if resname in ("PSU", "5MC", "2MG", "GTP") and rng.random() < 0.7 else "ATOM"
            skeleton.append((record, ch, num, icode, resname, atoms))
    # hetero groups: ions / water, appended after the polymers, re-using one of the chain identifiers
    for _ in range(rng.choice([0, 0, 1, 2, 3])):
        ch = rng.choice(chains)
        if rng.random() < 0.3:
            skeleton.append(("HETATM", ch, rng.randint(100, 9999), None, "HOH", [("O", "O", None, None)]))
        else:
            nm, el, chg = rng.choice(IONS)
            skeleton.append(("HETATM", ch, rng.randint(100, 9999), None, nm, [(nm, el, chg if rng.random() < 0.8 else None, None)]))
    serial_restart = rng.random() < 0.5
    serial_gap = rng.random() < 0.5
    start_serial = rng.choice([1, 1, 1, 50, 99900 if nmodels == 1 else 1])
    label_differs = rng.random() < 0.3
    recs = []
    serial = start_serial - 1
    for m in model_ids:
        if serial_restart:
            serial = start_serial - 1
        label_seq = {}
        prev_chain = None
        for record, ch, num, icode, resname, atoms in skeleton:
            if prev_chain is not None and ch != prev_chain and serial_gap:
                serial += 1  # the serial a TER record would take
            prev_chain = ch
            cx, cy, cz = (o + rng.uniform(-25, 25) for o in origin)
            key = (ch, num, icode)
            if key not in label_seq:
                label_seq[key] = len([1 for kk in label_seq if kk[0] == ch]) + 1
            for nm, el, chg, alts in atoms:
                x, y, z = coord(rng, cx, 5), coord(rng, cy, 5), coord(rng, cz, 5)
                occ = rng.choice([1.0, 1.0, 1.0, 1.0, 0.5, 0.0, 0.35, 0.99])
                bf = rng.choice([0.0, 999.99, 100.0, 5.5]) if rng.random() < 0.12 else round(rng.uniform(0, 120), 2)
                copies = [(None, occ, x)] if not alts else [(a, round(1.0 / len(alts), 2), round(min(x, 9990.0) + 0.7 * i, 3)) for i, a in enumerate(alts)]
                for alt, o, xx in copies:
                    serial += 1
                    recs.append(dict(record=record, serial=serial, name=nm, altloc=alt, resname=resname, chain=ch, resnum=num, icode=icode,
                                     x=xx, y=y, z=z, occ=o, bfac=bf, element=el, charge=chg, model=m,
                                     label_asym=(ch + ch if label_differs else ch), label_seq=(None if record == "HETATM" and len(atoms) == 1 else label_seq[key])))
    recs = [r for r in recs if r["serial"] <= 99998]  # 99999 is left for the TER record that must follow the last chain
    no_elements = rng.random() < 0.06  # old-style table without element symbols
    if no_elements:
        for r in recs:
            r["element"] = None
            r["charge"] = None
    info = {"no_elements": no_elements, "models": model_ids, "chains": chains, "blank_chain": blank, "far": far, "altloc": any(r["altloc"] for r in recs),
            "charge": any(r["charge"] is not None for r in recs), "nonzero_charge": any(r["charge"] for r in recs),
            "zero": any(v == 0 for r in recs for v in (r["x"], r["y"], r["z"], r["occ"], r["bfac"], r["resnum"])),
            "icode": any(r["icode"] for r in recs), "het": any(r["record"] == "HETATM" for r in recs),
            "wide": any(v <= -100 or v >= 1000 for r in recs for v in (r["x"], r["y"], r["z"]))}
    return recs, info


def pdb_charge(c):
    if c is None or c == 0:
        return "  "
    return f"{abs(c)}{'+' if c > 0 else '-'}"


def pdb_line(r):
    line = (f"{r['record']:<6}{r['serial']:>5} {pdb_atom_name(r['name'], r['element'] or 'C')}{r['altloc'] or ' '}{r['resname']:>3} "
            f"{r['chain'] or ' '}{r['resnum']:>4}{r['icode'] or ' '}   {r['x']:8.3f}{r['y']:8.3f}{r['z']:8.3f}"
            f"{r['occ']:6.2f}{r['bfac']:6.2f}          {(r['element'] or ''):>2}{pdb_charge(r.get('charge'))}")
    assert len(line) == 80, line
    return line


def to_pdb(recs, model_records=None, ter=True):
    """PDB text: MODEL/ENDMDL when several models (or a single model not numbered 1, or on request), TER after chains if `ter`"""
    models = list(dict.fromkeys(r["model"] for r in recs))
    multi = model_records if model_records is not None else (len(models) > 1 or models != [1])
    if models != [1]:
        multi = True
    lines = ["REMARK synthetic table".ljust(80)]
    for m in models:
        if multi:
            lines.append(f"MODEL     {m:>4}".ljust(80))
        rows = [r for r in recs if r["model"] == m]
        for k, r in enumerate(rows):
            lines.append(pdb_line(r))
            last_of_chain = k + 1 == len(rows) or rows[k + 1]["chain"] != r["chain"]
            if ter and last_of_chain and r["record"] == "ATOM":
                lines.append(f"TER   {r['serial'] + 1:>5}      {r['resname']:>3} {r['chain'] or ' '}{r['resnum']:>4}{r['icode'] or ' '}".ljust(80))
        if multi:
            lines.append("ENDMDL".ljust(80))
    lines.append("END".ljust(80))
    return "\n".join(lines) + "\n"


def to_cif(recs, null_icode="?", null_charge="?", charge_column=True, auth_atom=True):
    cols = ["group_PDB", "id", "type_symbol", "label_atom_id", "label_alt_id", "label_comp_id", "label_asym_id", "label_entity_id",
            "label_seq_id", "pdbx_PDB_ins_code", "Cartn_x", "Cartn_y", "Cartn_z", "occupancy", "B_iso_or_equiv"]
    if charge_column:
        cols.append("pdbx_formal_charge")
    cols += ["auth_seq_id", "auth_comp_id", "auth_asym_id"] + (["auth_atom_id"] if auth_atom else []) + ["pdbx_PDB_model_num"]
    out = ["data_synth", "#", "loop_"] + [f"_atom_site.{c}" for c in cols]
    for r in recs:
        row = [r["record"], r["serial"], r["element"] or "?", q(r["name"]), r["altloc"] or ".", r["resname"], r["label_asym"], "1",
               r["label_seq"] if r["label_seq"] is not None else ".", r["icode"] or null_icode,
               f"{r['x']:.3f}", f"{r['y']:.3f}", f"{r['z']:.3f}", f"{r['occ']:.2f}", f"{r['bfac']:.2f}"]
        if charge_column:
            row.append(null_charge if r.get("charge") is None else r["charge"])
        row += [r["resnum"], r["resname"], r["chain"]] + ([q(r["name"])] if auth_atom else []) + [r["model"]]
        out.append(" ".join(str(v) for v in row))
    out.append("#")
    return "\n".join(out) + "\n"


def dist(a, b):
    return math.dist((a["x"], a["y"], a["z"]), (b["x"], b["y"], b["z"]))
