/-
Definitional.lean - the "definitional lemmas" FC_definition and levels30_definition of contracts/common_c.py (used by
properties C01 and C16, and as hypothesis FC_def(R) by the lemmas of C02) introduce the uninterpreted symbols

    FC : int -> int          first-come-first-served level of stem a (with respect to the ghost stem list R)
    taken : int x int -> bool   taken(a, l): some EARLIER stem crossing stem a sits on level l
    levels30 : ref -> bool   "the structure needs at most 30 bracket levels under first-come-first-served"

by CHARACTERISTIC PROPERTIES that the SMT engine assumes without proof (kind "definition").  This file proves in Lean 4
+ Mathlib that functions with exactly those properties EXIST (so the assumed axioms are consistent: everything proved
from them is true of the functions constructed here) and that on the stems 0 .. len(R)-1 they are UNIQUE (so the axioms
are a definition: "the first-come-first-served level" means one thing).

Checked by hand / by setup (see lean/README.md, section "Definitional.lean"):
    LEAN_PATH=<compiled Mathlib and its packages>  lean lean/Definitional.lean      (offline; no lake, no network; ~5 s)

Reading.  The SMT axiom FC_def(R) is, with  cross a b := crossing(R[a][0], R[a][1], R[b][0], R[b][1])  (R is a total SMT
array, so `cross` is a relation on ALL integers) and  n := len(R):

    (D1)  forall a l.  taken(a, l)  ==  exists b. 0 <= b < a  and  cross a b  and  FC(b) == l
    (D2)  forall a.    0 <= a < n  ->  FC(a) >= 0  and  not taken(a, FC(a))
    (D3)  forall a l.  0 <= a < n  and  0 <= l < FC(a)  ->  taken(a, l)

i.e. FC(a) is the LEAST level >= 0 that is not the level of an earlier stem crossing stem a.  levels30_definition(s, R):

    (L)   levels30(s)  ->  forall a. 0 <= a < n -> FC(a) < 30

Contents
  §1  fc, fc_free, fc_least            the function on Nat by strong (well-founded) recursion: least level not used by an
                                       earlier crossing stem; a free level exists because only finitely many are used
  §2  FCdef, FC_definition_consistent  (D1)-(D3) hold of  FC z := fc (toNat z)  - for EVERY relation `cross` and every n
  §3  FC_definition_unique             two solutions of (D1)-(D3) agree on 0 <= a < n (and so do their `taken` there)
  §4  levels30_definition_consistent   (L) holds - together with (D1)-(D3) - of  levels30 s := forall a in range, FC a < 30,
                                       and with this choice the converse holds too (the precondition `levels30(self)` of
                                       BpSeq.fcfs is satisfiable exactly for the structures the property quantifies over)
  §5  FC_definition_one_R_per_context  caveat: FC and taken carry no argument R; (D1) for two DIFFERENT stem lists can
                                       contradict each other, so the axiom may be instantiated for one R per proof context
-/
import Mathlib.Order.Lattice.Nat
import Mathlib.Data.Finset.Lattice.Fold
import Mathlib.Tactic.Linarith

namespace Definitional

/-! ## §1 the function, on natural numbers, by strong recursion -/

/-- first-come-first-served level of stem `a`: the least level that no earlier stem `b < a` crossing `a` sits on
(`sInf` of a set of naturals = its least element when it is not empty).  Well-founded recursion on `a`: the value at `a`
uses the values at `b < a` only. -/
noncomputable def fc (cross : ℕ → ℕ → Prop) (a : ℕ) : ℕ :=
  sInf {l | ¬ ∃ b, ∃ _ : b < a, cross a b ∧ fc cross b = l}
termination_by a

theorem fc_eq (cross : ℕ → ℕ → Prop) (a : ℕ) :
    fc cross a = sInf {l | ¬ ∃ b, b < a ∧ cross a b ∧ fc cross b = l} := by
  rw [fc]
  simp only [exists_prop]

/-- some level is free: one more than the largest level of the stems below `a` -/
theorem free_nonempty (cross : ℕ → ℕ → Prop) (a : ℕ) :
    {l | ¬ ∃ b, b < a ∧ cross a b ∧ fc cross b = l}.Nonempty := by
  refine ⟨(Finset.range a).sup (fc cross) + 1, ?_⟩
  rintro ⟨b, hb, _, hl⟩
  have : fc cross b ≤ (Finset.range a).sup (fc cross) := Finset.le_sup (Finset.mem_range.mpr hb)
  omega

/-- the level of `a` is not the level of an earlier stem crossing `a` -/
theorem fc_free (cross : ℕ → ℕ → Prop) (a : ℕ) : ¬ ∃ b, b < a ∧ cross a b ∧ fc cross b = fc cross a := by
  have h := Nat.sInf_mem (free_nonempty cross a)
  rw [← fc_eq] at h
  exact h

/-- every level below the level of `a` is the level of an earlier stem crossing `a` -/
theorem fc_least (cross : ℕ → ℕ → Prop) (a l : ℕ) (hl : l < fc cross a) :
    ∃ b, b < a ∧ cross a b ∧ fc cross b = l := by
  rw [fc_eq] at hl
  have h := Nat.notMem_of_lt_sInf hl
  simpa using h

/-! ## §2 the SMT axiom FC_def(R) has a model -/

/-- (D1) ∧ (D2) ∧ (D3): the characteristic property `FC_def(R)` of contracts/common_c.py, `cross a b` standing for
`crossing(R[a][0], R[a][1], R[b][0], R[b][1])` and `n` for `len(R)`. -/
def FCdef (cross : ℤ → ℤ → Prop) (n : ℤ) (FC : ℤ → ℤ) (taken : ℤ → ℤ → Prop) : Prop :=
  (∀ a l, taken a l ↔ ∃ b, 0 ≤ b ∧ b < a ∧ cross a b ∧ FC b = l) ∧
  (∀ a, 0 ≤ a → a < n → 0 ≤ FC a ∧ ¬ taken a (FC a)) ∧
  (∀ a l, 0 ≤ a → a < n → 0 ≤ l → l < FC a → taken a l)

/-- the model: `FC z = fc (toNat z)` for the relation `cross` restricted to the naturals -/
noncomputable def FCz (cross : ℤ → ℤ → Prop) (z : ℤ) : ℤ := (fc (fun a b : ℕ => cross a b) z.toNat : ℕ)

def takenz (cross : ℤ → ℤ → Prop) (a l : ℤ) : Prop := ∃ b, 0 ≤ b ∧ b < a ∧ cross a b ∧ FCz cross b = l

/-- FC_definition is consistent: for EVERY stem list (every relation `cross`, every length `n`) there are functions FC,
taken with the characteristic property. -/
theorem FCdef_model (cross : ℤ → ℤ → Prop) (n : ℤ) : FCdef cross n (FCz cross) (takenz cross) := by
  refine ⟨fun a l => Iff.rfl, ?_, ?_⟩
  · intro a ha _
    refine ⟨by unfold FCz; exact Int.natCast_nonneg _, ?_⟩
    rintro ⟨b, hb0, hba, hc, he⟩
    apply fc_free (fun a b : ℕ => cross a b) a.toNat
    refine ⟨b.toNat, by omega, ?_, ?_⟩
    · show cross (a.toNat : ℤ) (b.toNat : ℤ)
      rw [Int.toNat_of_nonneg ha, Int.toNat_of_nonneg hb0]
      exact hc
    · unfold FCz at he
      exact_mod_cast he
  · intro a l ha _ hl0 hl
    have hl' : l.toNat < fc (fun a b : ℕ => cross a b) a.toNat := by
      unfold FCz at hl
      omega
    obtain ⟨b, hb, hc, he⟩ := fc_least _ _ _ hl'
    refine ⟨(b : ℤ), Int.natCast_nonneg _, by omega, ?_, ?_⟩
    · have hc' : cross (a.toNat : ℤ) (b : ℤ) := hc
      rw [Int.toNat_of_nonneg ha] at hc'
      exact hc'
    · unfold FCz
      rw [Int.toNat_natCast, he]
      exact Int.toNat_of_nonneg hl0

theorem FC_definition_consistent (cross : ℤ → ℤ → Prop) (n : ℤ) :
    ∃ (FC : ℤ → ℤ) (taken : ℤ → ℤ → Prop), FCdef cross n FC taken :=
  ⟨FCz cross, takenz cross, FCdef_model cross n⟩

/-! ## §3 ... and on the stems 0 .. n-1 only one -/

/-- the characteristic property determines FC on `0 ≤ a < n` (strong induction on `a`): the axiom is a definition -/
theorem FC_definition_unique (cross : ℤ → ℤ → Prop) (n : ℤ) (FC FC' : ℤ → ℤ) (taken taken' : ℤ → ℤ → Prop)
    (h : FCdef cross n FC taken) (h' : FCdef cross n FC' taken') :
    ∀ a, 0 ≤ a → a < n → FC a = FC' a := by
  obtain ⟨d1, d2, d3⟩ := h
  obtain ⟨d1', d2', d3'⟩ := h'
  have key : ∀ m : ℕ, ∀ a : ℤ, 0 ≤ a → a < m → a < n → FC a = FC' a := by
    intro m
    induction m with
    | zero => intro a h0 h1; omega
    | succ m ih =>
      intro a h0 h1 h2
      by_cases hm : a < m
      · exact ih a h0 hm h2
      · -- a = m: the two `taken a ·` agree because the levels below a agree
        have ht : ∀ l, taken a l ↔ taken' a l := by
          intro l
          rw [d1, d1']
          constructor
          · rintro ⟨b, hb0, hba, hc, he⟩
            exact ⟨b, hb0, hba, hc, by rw [← ih b hb0 (by omega) (by omega)]; exact he⟩
          · rintro ⟨b, hb0, hba, hc, he⟩
            exact ⟨b, hb0, hba, hc, by rw [ih b hb0 (by omega) (by omega)]; exact he⟩
        obtain ⟨p0, pn⟩ := d2 a h0 h2
        obtain ⟨p0', pn'⟩ := d2' a h0 h2
        rcases lt_trichotomy (FC a) (FC' a) with hlt | heq | hgt
        · exact absurd ((ht _).mpr (d3' a (FC a) h0 h2 p0 hlt)) pn
        · exact heq
        · exact absurd ((ht _).mp (d3 a (FC' a) h0 h2 p0' hgt)) pn'
  intro a h0 h2
  exact key (a.toNat + 1) a h0 (by omega) h2

/-- hence FC is, on the stems, the function of §1: least level not used by an earlier stem crossing the stem -/
theorem FC_is_fc (cross : ℤ → ℤ → Prop) (n : ℤ) (FC : ℤ → ℤ) (taken : ℤ → ℤ → Prop) (h : FCdef cross n FC taken) :
    ∀ a, 0 ≤ a → a < n → FC a = FCz cross a :=
  FC_definition_unique cross n FC (FCz cross) taken (takenz cross) h (FCdef_model cross n)

/-! ## §4 levels30 -/

/-- levels30_definition is consistent together with FC_definition, and not vacuously: there are FC, taken and a
predicate levels30 on references with (D1)-(D3), with (L) `levels30 s → all FCFS levels < 30`, and - for this choice -
with the converse, so that the precondition `levels30(self)` of BpSeq.fcfs / all_dot_brackets can be TRUE: it is, of
exactly the structures whose first-come-first-served levels stay below 30. -/
theorem levels30_definition_consistent (cross : ℤ → ℤ → Prop) (n : ℤ) (s : ℤ) :
    ∃ (FC : ℤ → ℤ) (taken : ℤ → ℤ → Prop) (levels30 : ℤ → Prop),
      FCdef cross n FC taken ∧
      (levels30 s → ∀ a, 0 ≤ a → a < n → FC a < 30) ∧
      ((∀ a, 0 ≤ a → a < n → FC a < 30) → levels30 s) :=
  ⟨FCz cross, takenz cross, fun _ => ∀ a, 0 ≤ a → a < n → FCz cross a < 30, FCdef_model cross n, id, id⟩

/-- by uniqueness the meaning of (L) does not depend on which FC the solver picks -/
theorem levels30_bound_independent_of_model (cross : ℤ → ℤ → Prop) (n : ℤ) (FC : ℤ → ℤ) (taken : ℤ → ℤ → Prop)
    (h : FCdef cross n FC taken) :
    (∀ a, 0 ≤ a → a < n → FC a < 30) ↔ (∀ a, 0 ≤ a → a < n → FCz cross a < 30) := by
  constructor
  · intro hb a h0 h1; rw [← FC_is_fc cross n FC taken h a h0 h1]; exact hb a h0 h1
  · intro hb a h0 h1; rw [FC_is_fc cross n FC taken h a h0 h1]; exact hb a h0 h1

/-! ## §5 caveat: one stem list per proof context -/

/-- FC and taken have no argument R.  (D1) instantiated for two different stem lists - here: stem 1 crosses stem 0 in
the first, not in the second - has no common model.  The harness instantiates FC_definition for ONE stem list per
verification condition (BpSeq.fcfs: its own `regions`; all_dot_brackets: `fcfs_R` on the pseudoknot-free path, and the
HYPOTHESIS FC_def(regions) on the pseudoknotted one - disjoint cases). -/
theorem FC_definition_one_R_per_context :
    ¬ ∃ (FC : ℤ → ℤ) (taken : ℤ → ℤ → Prop),
        FCdef (fun a b => a = 1 ∧ b = 0) 2 FC taken ∧ FCdef (fun _ _ => False) 2 FC taken := by
  rintro ⟨FC, taken, ⟨d1, _, _⟩, ⟨d1', _, _⟩⟩
  have h1 : taken 1 (FC 0) := (d1 1 (FC 0)).mpr ⟨0, le_refl 0, by norm_num, ⟨rfl, rfl⟩, rfl⟩
  obtain ⟨b, _, _, hf, _⟩ := (d1' 1 (FC 0)).mp h1
  exact hf

end Definitional

/-! every theorem must depend on the three standard axioms only (no `sorryAx`) -/
#print axioms Definitional.FC_definition_consistent
#print axioms Definitional.FC_definition_unique
#print axioms Definitional.FC_is_fc
#print axioms Definitional.levels30_definition_consistent
#print axioms Definitional.levels30_bound_independent_of_model
#print axioms Definitional.FC_definition_one_R_per_context
