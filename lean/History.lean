/-
History.lean - lemma L-hist of property C12 "secondary-structure objects are pure: queries and derivations never change
them ... any interleaving of calls answers as a fresh copy of the original would" (rnapolis, BpSeq / DotBracket).

The per-method contracts (frame + postcondition) are proved on the real code by the SMT engine (contracts/common_c.py,
contracts/common_elems_c.py, ...).  THIS file proves their COMPOSITION over an arbitrary finite history of calls:
if every call (i) leaves the observable view of every object that exists when it starts unchanged and (ii) returns an
answer that satisfies the method's postcondition over the receiver's view, then in EVERY finite history every answer
satisfies the postcondition over the view the receiver had when it was constructed - and, where the postcondition
determines the answer (functional postcondition), every call returns exactly what it would return as the FIRST call on
a fresh object with an equal view; every object's view stays what it was after construction.

Self-contained: core Lean 4 only (no Mathlib import needed).  Checked by `./check.py C12 --tier thorough` (props/C12.py,
deductive_extra) with plain `lean lean/History.lean` (offline; no lake, no network).
How each notion corresponds to the harness: lean/README.md, section "History.lean".

Contents
  §1  Sys, Frame, Post, Functional, Run          the abstract model: states, objects, views, calls, histories
  §2  view_preserved, run_append                 (i) iterated: a view never changes along a history
  §3  answers_satisfy_post_of_initial_view, history_relational
                                                 (i) + (ii) iterated, relational form: no answer is ever stale
  §4  history_functional, answer_as_first_call_on_fresh_equal_object, repeated_access_same_answer, L_hist
                                                 functional form = the text of L-hist
  §5  Heap, hview, FieldFrame, hview_frame, heap_history
                                                 the bridge from the engine's frame obligations (every FIELD of every
                                                 allocated reference unchanged) to (i) for the view "own scalar data +
                                                 the data of the objects held in the entry list / ghost slots"
-/

namespace History

/-! ## §1 the abstract model -/

/-- A system of objects.  `σ` program states (heaps), `Obj` object identities, `View` observable views (for a BpSeq: the
list of (index_, sequence, pair) of its entries, its pairs dict, the values in its cached_property slots), `Op` the
operations (public queries / derivations), `Val` OBSERVED answers (a string, a dict, or - for a method that returns an
object - the view of the returned object in the state after the call).
`view s o = none`: object `o` does not exist (is not allocated / not yet constructed) in state `s`.
`Step op r s v s'`: the call `r.op()` started in state `s` can return the observed answer `v` and end in state `s'`
(a relation: nothing is assumed about determinism of the code, the solver, the allocator). -/
structure Sys (σ Obj View Op Val : Type) where
  view : σ → Obj → Option View
  Step : Op → Obj → σ → Val → σ → Prop

variable {σ Obj View Op Val : Type}

/-- hypothesis (i), FRAME: a call leaves the view of every object that exists when the call starts unchanged (the
receiver included; objects created by the call are not constrained). -/
def Frame (S : Sys σ Obj View Op Val) : Prop :=
  ∀ op r s v s', S.Step op r s v s' → ∀ o w, S.view s o = some w → S.view s' o = some w

/-- hypothesis (ii), POSTCONDITION over the receiver's view only: the answer of `r.op()` started in a state where the
receiver's view is `w` satisfies `P op w` - whatever else the state contains. -/
def Post (S : Sys σ Obj View Op Val) (P : Op → View → Val → Prop) : Prop :=
  ∀ op r s v s' w, S.Step op r s v s' → S.view s r = some w → P op w v

/-- (ii), functional form: the answer IS a function of the receiver's view. -/
def Functional (S : Sys σ Obj View Op Val) (ans : Op → View → Val) : Prop :=
  Post S (fun op w v => v = ans op w)

/-- a recorded call: operation, receiver, observed answer -/
abbrev Call (Op Obj Val : Type) := Op × Obj × Val

/-- `Run S s h s'`: the finite history `h` (calls in program order, any receivers, any interleaving, receivers may be
objects created by earlier calls of the same history) leads from state `s` to state `s'`. -/
inductive Run (S : Sys σ Obj View Op Val) : σ → List (Call Op Obj Val) → σ → Prop
  | nil (s : σ) : Run S s [] s
  | cons {op : Op} {r : Obj} {v : Val} {s s1 s2 : σ} {h : List (Call Op Obj Val)} :
      S.Step op r s v s1 → Run S s1 h s2 → Run S s ((op, r, v) :: h) s2

/-! ## §2 (i) iterated -/

/-- Along any history the view of an object that exists at its start never changes. -/
theorem view_preserved {S : Sys σ Obj View Op Val} (hF : Frame S) {s s' : σ} {h : List (Call Op Obj Val)}
    (hr : Run S s h s') {o : Obj} {w : View} (hv : S.view s o = some w) : S.view s' o = some w := by
  induction hr with
  | nil s => exact hv
  | cons hstep _ ih => exact ih (hF _ _ _ _ _ hstep o w hv)

/-- A history can be cut at any point. -/
theorem run_append {S : Sys σ Obj View Op Val} {h1 h2 : List (Call Op Obj Val)} {s s' : σ} :
    Run S s (h1 ++ h2) s' ↔ ∃ m, Run S s h1 m ∧ Run S m h2 s' := by
  constructor
  · intro hr
    induction h1 generalizing s with
    | nil => exact ⟨s, Run.nil s, hr⟩
    | cons c t ih =>
      cases hr with
      | cons hstep hrest =>
        obtain ⟨m, h1m, h2m⟩ := ih hrest
        exact ⟨m, Run.cons hstep h1m, h2m⟩
  · rintro ⟨m, h1m, h2m⟩
    induction h1m with
    | nil s => exact h2m
    | cons hstep _ ih => exact Run.cons hstep (ih h2m)

/-! ## §3 (i) + (ii) iterated, relational form -/

/-- Every call of the history whose receiver is an object `o` that existed with view `w` at the START of the history
answers as the postcondition says for `w` - however many calls (on `o` or on anything else) came before it. -/
theorem answers_satisfy_post_of_initial_view {S : Sys σ Obj View Op Val} {P : Op → View → Val → Prop}
    (hF : Frame S) (hP : Post S P) {s s' : σ} {h : List (Call Op Obj Val)} (hr : Run S s h s')
    {o : Obj} {w : View} (hv : S.view s o = some w) :
    ∀ c ∈ h, c.2.1 = o → P c.1 w c.2.2 := by
  induction hr with
  | nil s => intro c hc; cases hc
  | @cons op r v s s1 s2 t hstep _ ih =>
    intro c hc hco
    rcases List.mem_cons.mp hc with rfl | hc
    · subst hco
      exact hP _ _ _ _ _ _ hstep hv
    · exact ih (hF _ _ _ _ _ hstep o w hv) c hc hco

/-- L-hist, relational form.  Cut the history anywhere (`h1` = what happened before, e.g. up to and including the
construction of `o`; `h2` = the rest).  For every object `o` existing at the cut with view `w`: its view at the end is
still `w`, and every later call on it satisfies the postcondition over `w`: no answer is ever stale. -/
theorem history_relational {S : Sys σ Obj View Op Val} {P : Op → View → Val → Prop}
    (hF : Frame S) (hP : Post S P) {s0 sn : σ} {h1 h2 : List (Call Op Obj Val)} (hr : Run S s0 (h1 ++ h2) sn) :
    ∃ m, Run S s0 h1 m ∧ Run S m h2 sn ∧
      ∀ o w, S.view m o = some w →
        S.view sn o = some w ∧ ∀ c ∈ h2, c.2.1 = o → P c.1 w c.2.2 := by
  obtain ⟨m, h1m, h2m⟩ := run_append.mp hr
  exact ⟨m, h1m, h2m, fun o w hv =>
    ⟨view_preserved hF h2m hv, answers_satisfy_post_of_initial_view hF hP h2m hv⟩⟩

/-! ## §4 functional form: the text of L-hist -/

/-- With functional postconditions every later answer on `o` is `ans op w`, `w` = the view of `o` at the cut. -/
theorem history_functional {S : Sys σ Obj View Op Val} {ans : Op → View → Val}
    (hF : Frame S) (hA : Functional S ans) {s0 sn : σ} {h1 h2 : List (Call Op Obj Val)}
    (hr : Run S s0 (h1 ++ h2) sn) :
    ∃ m, Run S s0 h1 m ∧ Run S m h2 sn ∧
      ∀ o w, S.view m o = some w →
        S.view sn o = some w ∧ ∀ c ∈ h2, c.2.1 = o → c.2.2 = ans c.1 w :=
  history_relational hF hA hr

/-- "every call returns what it would return as the first call on a fresh equal object": the answer `v` of a call
`(op, o, v)` anywhere in a history that starts in a state where `o` has view `w` equals the answer `v'` of ANY execution
of `op` on ANY object `o'` with the same view `w` in ANY state `t` (in particular: `o'` a freshly constructed copy,
`op` its first call). -/
theorem answer_as_first_call_on_fresh_equal_object {S : Sys σ Obj View Op Val} {ans : Op → View → Val}
    (hF : Frame S) (hA : Functional S ans) {s s' : σ} {h : List (Call Op Obj Val)} (hr : Run S s h s')
    {o : Obj} {w : View} (hv : S.view s o = some w) {op : Op} {v : Val} (hc : (op, o, v) ∈ h)
    {t t' : σ} {o' : Obj} {v' : Val} (hv' : S.view t o' = some w) (hstep : S.Step op o' t v' t') : v = v' := by
  have h1 : v = ans op w := answers_satisfy_post_of_initial_view hF hA hr hv (op, o, v) hc rfl
  have h2 : v' = ans op w := hA _ _ _ _ _ _ hstep hv'
  rw [h1, h2]

/-- cached_property: the same operation on the same object returns the same value on every access of a history. -/
theorem repeated_access_same_answer {S : Sys σ Obj View Op Val} {ans : Op → View → Val}
    (hF : Frame S) (hA : Functional S ans) {s s' : σ} {h : List (Call Op Obj Val)} (hr : Run S s h s')
    {o : Obj} {w : View} (hv : S.view s o = some w) {op : Op} {v1 v2 : Val}
    (h1 : (op, o, v1) ∈ h) (h2 : (op, o, v2) ∈ h) : v1 = v2 := by
  have e1 : v1 = ans op w := answers_satisfy_post_of_initial_view hF hA hr hv (op, o, v1) h1 rfl
  have e2 : v2 = ans op w := answers_satisfy_post_of_initial_view hF hA hr hv (op, o, v2) h2 rfl
  rw [e1, e2]

/-- L-hist as stated in props/C12.py.  Given (i) and (ii, functional), for EVERY finite history `h1 ++ h2` and every
object `o` that exists with view `w` after `h1` (`h1` ends with the construction of `o`, or is empty):
 (a) the view of `o` at the end of the history is `w` ("every object's view is what it was after construction");
 (b) every call `(op, o, v)` of `h2` returns `v = ans op w`, and
 (c) that is what `op` returns when run on any object `o'` with view `w` in any state - the first call on a fresh
     equal object. -/
theorem L_hist {S : Sys σ Obj View Op Val} {ans : Op → View → Val}
    (hF : Frame S) (hA : Functional S ans) {s0 sn : σ} {h1 h2 : List (Call Op Obj Val)}
    (hr : Run S s0 (h1 ++ h2) sn) :
    ∃ m, Run S s0 h1 m ∧ Run S m h2 sn ∧
      ∀ o w, S.view m o = some w →
        S.view sn o = some w ∧
        ∀ op v, (op, o, v) ∈ h2 →
          v = ans op w ∧
          ∀ t t' o' v', S.view t o' = some w → S.Step op o' t v' t' → v' = v := by
  obtain ⟨m, h1m, h2m, hall⟩ := history_functional hF hA hr
  refine ⟨m, h1m, h2m, fun o w hv => ⟨(hall o w hv).1, fun op v hc => ?_⟩⟩
  have hv1 : v = ans op w := (hall o w hv).2 (op, o, v) hc rfl
  refine ⟨hv1, fun t t' o' v' hv' hstep => ?_⟩
  have hv2 : v' = ans op w := hA _ _ _ _ _ _ hstep hv'
  rw [hv1, hv2]

/-! ## §5 from the engine's frame obligations to hypothesis (i)

The engine's `frame.Cls.f` obligations speak about FIELDS: for every reference allocated at entry and every field the
body writes, the field's value at exit equals its value at entry.  A view is a function of the fields of the object and
of the objects it holds (a BpSeq holds its Entry objects and the objects in its cached_property slots; Entry and
DotBracket hold no references).  `hview_frame`: field-wise frame + "the objects held by an existing object exist"
(heap well-formedness, precondition ENTRIES_ALLOCATED of the contracts) give (i) for that view. -/

/-- A heap: which references exist, the references an object holds (in order: `BpSeq.entries`, then the ghost slots),
and the remaining (scalar / immutable-valued) fields of every reference as one datum `D` (Entry: index_, sequence,
pair; BpSeq: the pairs dict; DotBracket: sequence, structure, pairs). -/
structure Heap (Ref D : Type) where
  alloc : Ref → Prop
  held : Ref → List Ref
  data : Ref → D

variable {Ref D : Type}

/-- the observable view of reference `b`: its own data and the data of the objects it holds, in order -/
def hdata (h : Heap Ref D) (b : Ref) : D × List D := (h.data b, (h.held b).map h.data)

open Classical in
/-- the view as the abstract model wants it: defined for existing objects only -/
noncomputable def hview (h : Heap Ref D) (b : Ref) : Option (D × List D) :=
  if h.alloc b then some (hdata h b) else none

/-- the engine's frame: every field of every reference existing in `h` is the same in `h'` (and it still exists) -/
def FieldFrame (h h' : Heap Ref D) : Prop :=
  ∀ r, h.alloc r → h'.alloc r ∧ h'.held r = h.held r ∧ h'.data r = h.data r

/-- heap well-formedness: the objects held by an existing object exist -/
def HeldAllocated (h : Heap Ref D) : Prop := ∀ b, h.alloc b → ∀ e ∈ h.held b, h.alloc e

/-- field-wise frame + well-formedness ⇒ hypothesis (i) for `hview` -/
theorem hview_frame {h h' : Heap Ref D} (hwf : HeldAllocated h) (hf : FieldFrame h h') {b : Ref} {w : D × List D}
    (hv : hview h b = some w) : hview h' b = some w := by
  unfold hview at hv ⊢
  by_cases hb : h.alloc b
  · obtain ⟨hb', hheld, hdat⟩ := hf b hb
    rw [if_pos hb] at hv
    rw [if_pos hb']
    rw [← hv]
    unfold hdata
    rw [hheld, hdat]
    congr 2
    apply List.map_congr_left
    intro e he
    exact (hf e (hwf b hb e he)).2.2
  · rw [if_neg hb] at hv
    cases hv

/-- The system made of heaps and of ANY step relation whose steps start in a well-formed heap and satisfy the field-wise
frame (what `requires ENTRIES_ALLOCATED` + `modifies = []` + the discharged `frame.*` obligations say of a method). -/
noncomputable def heapSys {Op Val : Type} (step : Op → Ref → Heap Ref D → Val → Heap Ref D → Prop) :
    Sys (Heap Ref D) Ref (D × List D) Op Val where
  view := hview
  Step := step

theorem heapSys_frame {Op Val : Type} {step : Op → Ref → Heap Ref D → Val → Heap Ref D → Prop}
    (hstep : ∀ op r h v h', step op r h v h' → HeldAllocated h ∧ FieldFrame h h') : Frame (heapSys step) := by
  intro op r s v s' hs o w hv
  obtain ⟨hwf, hf⟩ := hstep op r s v s' hs
  exact hview_frame hwf hf hv

/-- L-hist for heaps: field-wise frame + functional postconditions over `hview` ⇒ the conclusion of `L_hist`. -/
theorem heap_history {Op Val : Type} {step : Op → Ref → Heap Ref D → Val → Heap Ref D → Prop}
    {ans : Op → (D × List D) → Val}
    (hstep : ∀ op r h v h', step op r h v h' → HeldAllocated h ∧ FieldFrame h h')
    (hA : Functional (heapSys step) ans) {s0 sn : Heap Ref D} {h1 h2 : List (Call Op Ref Val)}
    (hr : Run (heapSys step) s0 (h1 ++ h2) sn) :
    ∃ m, Run (heapSys step) s0 h1 m ∧ Run (heapSys step) m h2 sn ∧
      ∀ o w, hview m o = some w →
        hview sn o = some w ∧
        ∀ op v, (op, o, v) ∈ h2 →
          v = ans op w ∧
          ∀ t t' o' v', hview t o' = some w → step op o' t v' t' → v' = v :=
  L_hist (heapSys_frame hstep) hA hr

/-! ## §6 the hypotheses are needed and can be met (self-test of the statement)

`flip`: one object whose view is the state (a Bool); the single operation returns the view (functional postcondition
`ans _ w = w` holds) but flips it - a query that mutates its receiver, the defect class C12 is about.  (ii) holds, (i)
does not, and the second call of the history answers differently from a fresh equal object.  `const`: the same
operation without the flip satisfies (i) and (ii), so the theorems above are not vacuous. -/

def flipSys : Sys Bool Unit Bool Unit Bool where
  view := fun s _ => some s
  Step := fun _ _ s v s' => v = s ∧ s' = !s

theorem flip_functional : Functional flipSys (fun _ w => w) := by
  intro op r s v s' w hs hv
  simp only [flipSys, Option.some.injEq] at hs hv
  rw [← hv]
  exact hs.1

theorem frame_is_needed :
    Functional flipSys (fun _ w => w) ∧ ¬ Frame flipSys ∧
    ∃ h, Run flipSys false h false ∧ flipSys.view false () = some false ∧ ((), (), true) ∈ h := by
  refine ⟨flip_functional, ?_, [((), (), false), ((), (), true)], ?_, rfl, by simp⟩
  · intro hF
    have := hF () () false false true ⟨rfl, rfl⟩ () false rfl
    simp [flipSys] at this
  · exact Run.cons (s1 := true) ⟨rfl, rfl⟩ (Run.cons (s1 := false) ⟨rfl, rfl⟩ (Run.nil false))

def constSys : Sys Bool Unit Bool Unit Bool where
  view := fun s _ => some s
  Step := fun _ _ s v s' => v = s ∧ s' = s

theorem hypotheses_can_be_met : Frame constSys ∧ Functional constSys (fun _ w => w) ∧
    Run constSys true [((), (), true), ((), (), true)] true := by
  refine ⟨?_, ?_, Run.cons (s1 := true) ⟨rfl, rfl⟩ (Run.cons (s1 := true) ⟨rfl, rfl⟩ (Run.nil true))⟩
  · intro op r s v s' hs o w hv
    simp only [constSys, Option.some.injEq] at hs hv ⊢
    rw [hs.2]; exact hv
  · intro op r s v s' w hs hv
    simp only [constSys, Option.some.injEq] at hs hv
    rw [← hv]; exact hs.1

end History

/-! the checker (props/C12.py) reads these lines: every theorem must depend on the standard axioms only (no `sorryAx`) -/
#print axioms History.view_preserved
#print axioms History.run_append
#print axioms History.answers_satisfy_post_of_initial_view
#print axioms History.history_relational
#print axioms History.history_functional
#print axioms History.answer_as_first_call_on_fresh_equal_object
#print axioms History.repeated_access_same_answer
#print axioms History.L_hist
#print axioms History.hview_frame
#print axioms History.heapSys_frame
#print axioms History.heap_history
#print axioms History.frame_is_needed
#print axioms History.hypotheses_can_be_met
