/-
Pigeonhole.lean - the counting step (and, with it, the complete mathematical argument) behind the optimality clause of
property C02 "pseudoknot order assignment is a proper and optimal level assignment" (rnapolis, BpSeq.convert_to_dot_bracket).

Self-contained: needs only Lean 4 + Mathlib.  Checked by `./check.py C02 --tier thorough` (props/C02.py, deductive_extra) with
    LEAN_PATH=<compiled Mathlib and its packages>  lean lean/Pigeonhole.lean        (offline; no lake, no network)
How each statement corresponds to the spec-level statement of the harness: lean/README.md.

Contents
  §1  levels_below_attained_le_card(_int)
                                      the combinatorial core (pigeonhole): if every k < l is attained by f on the finite set
                                      N, then l <= card N   (f with values in Nat / in Int)
  §2  level_le_degree, level_lt_bound a greedy-stable level assignment on a finite graph puts stem a on a level <= degree a,
                                      hence every level is < max degree + 1                                  (L-bound, part 1)
  §3  term_strict_anti, exchange      moving a stem to a free lower level keeps the assignment proper and strictly raises
                                      the objective                                                          (L-exch)
  §4  exists_greedy_stable_improvement, restricted_optimum_is_global, optimal_is_greedy_stable, never_worse_than
                                      an assignment that is best among the proper assignments with levels < max degree + 1
                                      is best among ALL proper assignments (L-bound, part 2: the restriction of the MILP to
                                      max degree + 1 levels loses no optimum), is greedy-stable ("no stem could be moved to a
                                      lower level") and is at least as good as any given proper assignment, e.g. the
                                      first-come-first-served one
  §5  one_hot_double_sum, term_list_objective, one_hot_feasible
                                      L-enc: for a 0/1 matrix with exactly one 1 per row the double sum of coef * x - also
                                      when written as one sum over a list of monomials, one per cell, in any order - collapses
                                      to the sum of the coefficients at the chosen columns; the 0/1 matrix of a proper
                                      assignment with levels < M satisfies the constraints of the MILP
-/
import Mathlib

set_option linter.unusedSectionVars false

namespace Pigeonhole

open Finset

/-! ## §1 the combinatorial core -/

/-- Pigeonhole: `f` maps the finite set `N` to levels; if every level `k < l` is attained on `N`, then `N` has at least
`l` elements.  (`range l ⊆ image f N`, and an image is no larger than its source.) -/
theorem levels_below_attained_le_card {α : Type*} [DecidableEq α] (N : Finset α) (f : α → ℕ) (l : ℕ)
    (h : ∀ k, k < l → ∃ b ∈ N, f b = k) : l ≤ N.card := by
  have hsub : range l ⊆ N.image f := by
    intro k hk
    obtain ⟨b, hb, hfb⟩ := h k (mem_range.mp hk)
    exact mem_image.mpr ⟨b, hb, hfb⟩
  calc l = (range l).card := (card_range l).symm
    _ ≤ (N.image f).card := card_le_card hsub
    _ ≤ N.card := card_image_le

/-- the same for integer-valued `f` (the SMT model of the harness does not restrict the levels of the OTHER stems to be
non-negative): only the values `0 .. l-1` matter. -/
theorem levels_below_attained_le_card_int {α : Type*} [DecidableEq α] (N : Finset α) (f : α → ℤ) (l : ℕ)
    (h : ∀ k : ℕ, k < l → ∃ b ∈ N, f b = (k : ℤ)) : l ≤ N.card := by
  apply levels_below_attained_le_card N (fun b => (f b).toNat) l
  intro k hk
  obtain ⟨b, hb, hfb⟩ := h k hk
  exact ⟨b, hb, by simp [hfb]⟩

/-! ## §2 greedy-stable assignments fit under max degree + 1 -/

section Graph

variable {n : ℕ} (adj : Fin n → Fin n → Prop) [DecidableRel adj]

/-- number of stems crossing stem `a` -/
def degree (a : Fin n) : ℕ := (univ.filter (fun b => adj a b)).card

/-- the largest degree (0 for the empty graph) -/
def maxDegree : ℕ := univ.sup (degree adj)

/-- crossing stems never share a level -/
def Proper (O : Fin n → ℕ) : Prop := ∀ a b, adj a b → O a ≠ O b

/-- every level below the level of stem `a` is the level of a stem crossing `a` ("no stem could be moved to a lower level") -/
def GreedyStable (O : Fin n → ℕ) : Prop := ∀ a k, k < O a → ∃ b, adj a b ∧ O b = k

theorem level_le_degree (O : Fin n → ℕ) (h : GreedyStable adj O) (a : Fin n) : O a ≤ degree adj a := by
  unfold degree
  apply levels_below_attained_le_card _ O
  intro k hk
  obtain ⟨b, hab, hb⟩ := h a k hk
  exact ⟨b, by simp [hab], hb⟩

theorem degree_le_maxDegree (a : Fin n) : degree adj a ≤ maxDegree adj :=
  le_sup (f := degree adj) (mem_univ a)

theorem level_lt_bound (O : Fin n → ℕ) (h : GreedyStable adj O) (a : Fin n) : O a < maxDegree adj + 1 := by
  have h1 := level_le_degree adj O h a
  have h2 := degree_le_maxDegree adj a
  omega

/-! ## §3 the exchange step -/

/-- the property's objective, per stem: `+len` on level 0, `-level * len` above -/
def term (L : ℤ) (o : ℕ) : ℤ := if o = 0 then L else -((o : ℤ) * L)

variable (len : Fin n → ℤ)

/-- the property's objective of a level assignment -/
def obj (O : Fin n → ℕ) : ℤ := ∑ a, term (len a) (O a)

theorem term_strict_anti {L : ℤ} (hL : 1 ≤ L) {k l : ℕ} (h : k < l) : term L l < term L k := by
  unfold term
  have hl : l ≠ 0 := by omega
  have hkl : (k : ℤ) < (l : ℤ) := by exact_mod_cast h
  have hk0 : (0 : ℤ) ≤ (k : ℤ) := by exact_mod_cast Nat.zero_le k
  rw [if_neg hl]
  by_cases hk : k = 0
  · rw [if_pos hk]
    subst hk
    nlinarith
  · rw [if_neg hk]
    nlinarith

/-- a sum over all stems of a quantity that depends on the stem and its level, split at stem `a` -/
theorem sum_split {M : Type*} [AddCommMonoid M] (g : Fin n → ℕ → M) (O : Fin n → ℕ) (a : Fin n) :
    ∑ x, g x (O x) = g a (O a) + ∑ x ∈ univ.erase a, g x (O x) :=
  (add_sum_erase univ (fun x => g x (O x)) (mem_univ a)).symm

theorem sum_update_split {M : Type*} [AddCommMonoid M] (g : Fin n → ℕ → M) (O : Fin n → ℕ) (a : Fin n) (k : ℕ) :
    ∑ x, g x (Function.update O a k x) = g a k + ∑ x ∈ univ.erase a, g x (O x) := by
  rw [sum_split g (Function.update O a k) a, Function.update_self]
  congr 1
  apply sum_congr rfl
  intro x hx
  rw [Function.update_of_ne (ne_of_mem_erase hx)]

/-- the objective after moving stem `a` to level `k` -/
theorem obj_update (O : Fin n → ℕ) (a : Fin n) (k : ℕ) :
    obj len (Function.update O a k) = obj len O - term (len a) (O a) + term (len a) k := by
  unfold obj
  rw [sum_update_split (fun x o => term (len x) o) O a k, sum_split (fun x o => term (len x) o) O a]
  ring

/-- L-exch: in a proper assignment, a stem moved to a lower level used by none of its neighbours gives a proper assignment
with a strictly larger objective (and a strictly smaller sum of levels). -/
theorem exchange (hsymm : ∀ a b, adj a b → adj b a) (hirr : ∀ a, ¬ adj a a) (hlen : ∀ a, 1 ≤ len a)
    (O : Fin n → ℕ) (hO : Proper adj O) (a : Fin n) (k : ℕ) (hk : k < O a) (hfree : ∀ b, adj a b → O b ≠ k) :
    Proper adj (Function.update O a k) ∧ obj len O < obj len (Function.update O a k)
      ∧ ∑ x, Function.update O a k x < ∑ x, O x := by
  refine ⟨?_, ?_, ?_⟩
  · intro x y hxy
    by_cases hx : x = a
    · by_cases hy : y = a
      · subst hx; subst hy; exact absurd hxy (hirr _)
      · subst hx
        rw [Function.update_self, Function.update_of_ne hy]
        exact fun e => hfree y hxy e.symm
    · by_cases hy : y = a
      · subst hy
        rw [Function.update_self, Function.update_of_ne hx]
        exact hfree x (hsymm _ _ hxy)
      · rw [Function.update_of_ne hx, Function.update_of_ne hy]
        exact hO x y hxy
  · rw [obj_update]
    have := term_strict_anti (hlen a) hk
    linarith
  · rw [sum_update_split (fun _ o => o) O a k, sum_split (fun _ o => o) O a]
    omega

/-! ## §4 consequences: L-bound, greedy stability of an optimum, comparison with any proper assignment -/

/-- every proper assignment can be improved (weakly) to a proper greedy-stable one: repeat the exchange step; the sum of the
levels decreases every time -/
theorem exists_greedy_stable_improvement (hsymm : ∀ a b, adj a b → adj b a) (hirr : ∀ a, ¬ adj a a)
    (hlen : ∀ a, 1 ≤ len a) :
    ∀ (N : ℕ) (O : Fin n → ℕ), ∑ x, O x = N → Proper adj O →
      ∃ O', Proper adj O' ∧ GreedyStable adj O' ∧ obj len O ≤ obj len O' := by
  intro N
  induction N using Nat.strong_induction_on with
  | _ N ih =>
    intro O hN hO
    by_cases hs : GreedyStable adj O
    · exact ⟨O, hO, hs, le_refl _⟩
    · unfold GreedyStable at hs
      push Not at hs
      obtain ⟨a, k, hk, hfree⟩ := hs
      obtain ⟨hP, hobj, hsum⟩ := exchange adj len hsymm hirr hlen O hO a k hk hfree
      obtain ⟨O', h1, h2, h3⟩ := ih _ (hN ▸ hsum) (Function.update O a k) rfl hP
      exact ⟨O', h1, h2, le_trans (le_of_lt hobj) h3⟩

/-- L-bound: an assignment that is at least as good as every proper assignment with levels below max degree + 1 is at
least as good as EVERY proper assignment (levels unbounded): restricting the levels to max degree + 1 loses no optimum. -/
theorem restricted_optimum_is_global (hsymm : ∀ a b, adj a b → adj b a) (hirr : ∀ a, ¬ adj a a)
    (hlen : ∀ a, 1 ≤ len a) (O : Fin n → ℕ)
    (hopt : ∀ O', Proper adj O' → (∀ a, O' a < maxDegree adj + 1) → obj len O' ≤ obj len O) :
    ∀ O', Proper adj O' → obj len O' ≤ obj len O := by
  intro O' hO'
  obtain ⟨O'', h1, h2, h3⟩ := exists_greedy_stable_improvement adj len hsymm hirr hlen _ O' rfl hO'
  exact le_trans h3 (hopt O'' h1 (level_lt_bound adj O'' h2))

/-- an optimal proper assignment is greedy-stable: no stem could be moved to a lower level -/
theorem optimal_is_greedy_stable (hsymm : ∀ a b, adj a b → adj b a) (hirr : ∀ a, ¬ adj a a)
    (hlen : ∀ a, 1 ≤ len a) (O : Fin n → ℕ) (hO : Proper adj O)
    (hopt : ∀ O', Proper adj O' → obj len O' ≤ obj len O) : GreedyStable adj O := by
  by_contra hs
  unfold GreedyStable at hs
  push Not at hs
  obtain ⟨a, k, hk, hfree⟩ := hs
  obtain ⟨hP, hobj, _⟩ := exchange adj len hsymm hirr hlen O hO a k hk hfree
  have := hopt _ hP
  linarith

/-- the same for an optimum of the restricted problem (levels < max degree + 1): what the MILP delivers -/
theorem restricted_optimum_is_greedy_stable (hsymm : ∀ a b, adj a b → adj b a) (hirr : ∀ a, ¬ adj a a)
    (hlen : ∀ a, 1 ≤ len a) (O : Fin n → ℕ) (hO : Proper adj O)
    (hopt : ∀ O', Proper adj O' → (∀ a, O' a < maxDegree adj + 1) → obj len O' ≤ obj len O) :
    GreedyStable adj O :=
  optimal_is_greedy_stable adj len hsymm hirr hlen O hO
    (restricted_optimum_is_global adj len hsymm hirr hlen O hopt)

/-- ... and it is never worse than any given proper assignment `F` (e.g. the first-come-first-served levels, which are
proper: lemma fcfs_levels_are_proper_and_greedy_stable of the harness), whatever levels `F` uses -/
theorem never_worse_than (hsymm : ∀ a b, adj a b → adj b a) (hirr : ∀ a, ¬ adj a a)
    (hlen : ∀ a, 1 ≤ len a) (O : Fin n → ℕ)
    (hopt : ∀ O', Proper adj O' → (∀ a, O' a < maxDegree adj + 1) → obj len O' ≤ obj len O)
    (F : Fin n → ℕ) (hF : Proper adj F) : obj len F ≤ obj len O :=
  restricted_optimum_is_global adj len hsymm hirr hlen O hopt F hF

end Graph

/-! ## §5 L-enc, matrix form -/

/-- for the 0/1 matrix `x a j = [j = O a]` (exactly one 1 per row, in column `O a`), the objective of the matrix is the
objective of the level assignment it encodes -/
theorem one_hot_double_sum {n M : ℕ} (coef : Fin n → Fin M → ℤ) (O : Fin n → Fin M) (x : Fin n → Fin M → ℤ)
    (hx : ∀ a j, x a j = if j = O a then 1 else 0) :
    ∑ a, ∑ j, coef a j * x a j = ∑ a, coef a (O a) := by
  apply sum_congr rfl
  intro a _
  simp [hx]

/-- ... also when the objective is given as ONE sum over a list of `K` monomials, one per cell of the matrix (`cell` is the
bijection between the positions of the term list and the cells: what obligation model-4-objective states with its ghost
position map, in both directions) - the order of the list does not matter -/
theorem term_list_objective {n M K : ℕ} (cell : Fin K ≃ Fin n × Fin M) (coef : Fin n → Fin M → ℤ) (O : Fin n → Fin M)
    (x : Fin n → Fin M → ℤ) (hx : ∀ a j, x a j = if j = O a then 1 else 0) :
    ∑ q, coef (cell q).1 (cell q).2 * x (cell q).1 (cell q).2 = ∑ a, coef a (O a) := by
  rw [Fintype.sum_equiv cell (fun q => coef (cell q).1 (cell q).2 * x (cell q).1 (cell q).2)
        (fun p => coef p.1 p.2 * x p.1 p.2) (fun q => rfl)]
  rw [Fintype.sum_prod_type]
  exact one_hot_double_sum coef O x hx

/-- the 0/1 matrix of a proper level assignment with levels `< M` is a feasible point of the MILP: 0/1 entries, one level per
stem (row sums 1), crossing stems never together on a level -/
theorem one_hot_feasible {n M : ℕ} (adj : Fin n → Fin n → Prop) (O : Fin n → Fin M) (hO : ∀ a b, adj a b → O a ≠ O b)
    (x : Fin n → Fin M → ℤ) (hx : ∀ a j, x a j = if j = O a then 1 else 0) :
    (∀ a j, x a j = 0 ∨ x a j = 1) ∧ (∀ a, ∑ j, x a j = 1) ∧ (∀ a b j, adj a b → x a j + x b j ≤ 1) := by
  refine ⟨?_, ?_, ?_⟩
  · intro a j
    rw [hx]
    split_ifs <;> simp
  · intro a
    simp [hx]
  · intro a b j hab
    rw [hx a j, hx b j]
    split_ifs with h1 h2
    · exact absurd (h1.symm.trans h2) (hO a b hab)
    · norm_num
    · norm_num
    · norm_num

end Pigeonhole

/-! the checker (props/C02.py) reads these lines: every theorem must depend on the three standard axioms only (no `sorryAx`) -/
#print axioms Pigeonhole.levels_below_attained_le_card
#print axioms Pigeonhole.levels_below_attained_le_card_int
#print axioms Pigeonhole.level_le_degree
#print axioms Pigeonhole.level_lt_bound
#print axioms Pigeonhole.term_strict_anti
#print axioms Pigeonhole.exchange
#print axioms Pigeonhole.restricted_optimum_is_global
#print axioms Pigeonhole.optimal_is_greedy_stable
#print axioms Pigeonhole.restricted_optimum_is_greedy_stable
#print axioms Pigeonhole.never_worse_than
#print axioms Pigeonhole.one_hot_double_sum
#print axioms Pigeonhole.term_list_objective
#print axioms Pigeonhole.one_hot_feasible
