#!/verif/.venv/bin/python
"""Confirm a sub-agent's seeded change in its scratch worktree and keep it under /verif/seeded/<name>/.
usage: seed.py <name> <worktree> <property> [--skip-tests]"""
import json, os, shutil, subprocess, sys
name, wt, pid = sys.argv[1:4]
skip = "--skip-tests" in sys.argv
env = dict(os.environ, PYTHONPATH=f"{wt}/src")
def run(cmd, **kw):
    return subprocess.run(cmd, shell=True, cwd=wt, env=env, capture_output=True, text=True, **kw)
patch = open(f"{wt}/patch.diff").read()
assert patch.strip(), "empty patch"
# demo with the change (worktree has it applied)
st = run("git diff --quiet -- src; echo $?").stdout.strip()
if st == "0":
    assert run("git apply patch.diff").returncode == 0
with_change = run("/venv/bin/python demo.py")
assert run("git apply -R patch.diff").returncode == 0, "cannot revert"
without = run("/venv/bin/python demo.py")
tests = None
assert run("git apply patch.diff").returncode == 0
if not skip:
    t = run("/venv/bin/python -m pytest -q -p no:cacheprovider --timeout=900 tests 2>&1 | tail -3")
    tests = t.stdout.strip().splitlines()[-1]
run("git apply -R patch.diff")
ok_apply = subprocess.run(["git", "-C", "/repo", "apply", "--check", f"{wt}/patch.diff"]).returncode == 0
print("demo with change exit", with_change.returncode, "| without", without.returncode, "| tests:", tests, "| applies to /repo:", ok_apply)
assert with_change.returncode != 0 and without.returncode == 0, (with_change.stdout[-500:], with_change.stderr[-800:], without.stderr[-800:])
if tests is not None:
    assert "45 passed" in tests and "7 failed" in tests, tests
assert ok_apply
dst = f"/verif/seeded/{name}"
os.makedirs(dst, exist_ok=True)
shutil.copy(f"{wt}/patch.diff", dst)
shutil.copy(f"{wt}/demo.py", dst)
meta = {}
try:
    meta = json.load(open(f"{wt}/meta.json"))
except Exception:
    pass
meta.update({"property": pid, "confirmed": {"demo_exit_with_change": with_change.returncode, "demo_exit_without": without.returncode,
             "pytest_with_change": tests, "ran": "tools/seed.py (demo both ways, full pytest with the change, git apply --check on /repo HEAD)"}})
json.dump(meta, open(f"{dst}/meta.json", "w"), indent=1)
print("kept", dst)
