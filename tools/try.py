import sys, importlib, time
sys.path.insert(0, "/verif")
from pyvc.engine import Engine
from pyvc.solve import discharge
mod, side, *quals = [a for a in sys.argv[1:] if a != '-v']
sc = importlib.import_module(side)
for q in quals:
    eng = Engine(mod, sc)
    t = time.time()
    if q.startswith("lemma:"):
        obls = eng.verify_lemma(q[6:])
    else:
        qq, _, var = q.partition("@")
        obls = eng.verify(qq, var or None)
    print(f"{q}: {len(obls)} obligations generated in {time.time()-t:.2f}s (trivial {eng.trivial})")
    res = discharge(obls)
    for o, r in zip(obls, res):
        flag = "ok " if r["result"] == "unsat" else "FAIL"
        if r["result"] != "unsat" or "-v" in sys.argv:
            print(f"  {flag} {o.name}  [{r['result']} {r['backend']} {r['ms']}ms] {r['reason']}")
    print(f"  discharged {sum(r['result']=='unsat' for r in res)}/{len(res)}")
