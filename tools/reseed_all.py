#!/verif/.venv/bin/python
"""Re-run every kept seeded change (scratch copies, never /repo) against the checks recorded for it and refresh
seeded/*/meta.json.  usage: reseed_all.py [-j N] [name-prefix ...]"""
import glob, json, os, subprocess, sys
from concurrent.futures import ThreadPoolExecutor
args = sys.argv[1:]
j = 3
if "-j" in args:
    j = int(args[args.index("-j") + 1]); del args[args.index("-j"):args.index("-j") + 2]
names = [os.path.basename(d) for d in sorted(glob.glob("/verif/seeded/*")) if os.path.exists(d + "/meta.json")]
if args:
    names = [n for n in names if any(n.startswith(a) for a in args)]
def one(n):
    m = json.load(open(f"/verif/seeded/{n}/meta.json"))
    pids = sorted(set((m.get("detected_by") or {}).keys()) | {m["property"]})
    r = subprocess.run(["/verif/tools/seeded_scratch.py", n, *pids, "--record"], capture_output=True, text=True)
    m = json.load(open(f"/verif/seeded/{n}/meta.json"))
    ex = {p: v.get("exit") for p, v in m["detected_by"].items()}
    print(n, ex, "" if any(v == 1 for v in ex.values()) else "<<< NOT REPORTED", flush=True)
    if any(v not in (0, 1) for v in ex.values()):
        print(r.stdout[-2000:], r.stderr[-2000:], flush=True)
with ThreadPoolExecutor(j) as ex:
    list(ex.map(one, names))
