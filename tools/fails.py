import sys, importlib
sys.path.insert(0, "/verif")
from pyvc.engine import Engine
from pyvc.solve import discharge
import z3
mod, side, qual = sys.argv[1:4]
sc = importlib.import_module(side)
eng = Engine(mod, sc)
q, _, var = qual.partition("@")
obls = eng.verify(q, var or None)
res = discharge(obls, opts={"z3_ms": 8000, "cvc5_s": 8})
for o, r in zip(obls, res):
    if r["result"] != "unsat":
        print("====", o.name, r["result"], o.line)
        for h in o.hyps:
            print("   H:", str(z3.simplify(h)).replace("\n", " ")[:300])
        print("   G:", str(z3.simplify(o.goal)).replace("\n", " ")[:600])
