#!/verif/.venv/bin/python
"""Regenerate the two generated tables of DESIGN.md (between the <!-- ...:begin/end --> markers) from the evidence files and
seeded/*/meta.json."""
import subprocess
p = "/verif/DESIGN.md"
s = open(p).read()
for tag, tool in (("STATUS_TABLE", "/verif/tools/status_table.py"), ("SEEDED_TABLE", "/verif/tools/seeded_table.py")):
    body = subprocess.run([tool], capture_output=True, text=True).stdout.strip()
    begin, end = f"<!-- {tag}:begin -->", f"<!-- {tag}:end -->"
    a, b = s.index(begin), s.index(end) + len(end)
    s = s[:a] + f"{begin}\n{body}\n{end}" + s[b:]
open(p, "w").write(s)
print("tables updated")
