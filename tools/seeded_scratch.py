#!/verif/.venv/bin/python
"""Run checks against a kept seeded change WITHOUT touching /repo: the patch is applied to a scratch copy of /repo
(src + tests) under a temp directory, checks run with PYVC_SRC_ROOT / PYTHONPATH pointing at it, copy removed afterwards.
usage: seeded_scratch.py <name> <PID> [<PID>...] [--tier T] [--record]"""
import json, os, shutil, subprocess, sys, tempfile
args = [a for a in sys.argv[1:] if not a.startswith("--")]
name, *pids = args
tier = "quick"
if "--tier" in sys.argv:
    tier = sys.argv[sys.argv.index("--tier") + 1]
    pids = [p for p in pids if p != tier]
patch = f"/verif/seeded/{name}/patch.diff"
tmp = tempfile.mkdtemp(prefix="pyvc-seed-")
res = {}
try:
    shutil.copytree("/repo/src", tmp + "/src")
    r = subprocess.run(["patch", "-p1", "-s", "-d", tmp, "-i", patch], capture_output=True, text=True)
    assert r.returncode == 0, r.stdout + r.stderr
    env = dict(os.environ, PYVC_SRC_ROOT=tmp + "/src", PYTHONPATH=tmp + "/src")
    for pid in pids:
        r = subprocess.run(["/verif/.venv/bin/python", "/verif/check.py", pid, "--tier", tier], env=env, capture_output=True, text=True, cwd="/verif")
        lines = [l for l in r.stdout.splitlines() if l.startswith(("VIOLATION", "NOT-EST", "KNOWN", "property=", "CHECKER"))]
        print(f"--- {name} / {pid}: exit {r.returncode}")
        print("\n".join(l[:300] for l in lines[:8]))
        lines = [l for l in r.stdout.splitlines() if l.startswith(("VIOLATION", "NOT-EST", "KNOWN", "property=", "CHECKER"))]
        if r.returncode not in (0, 1):
            print(r.stderr[-1500:])
        res[pid] = {"exit": r.returncode, "first": lines[0][:300] if lines else "",
                    "obligations": [l.split("obligation=")[1].split()[0][:200] for l in lines if l.startswith("VIOLATION") and "obligation=" in l][:4],
                    "bounded": sorted({l.split("bounded-check=")[1].split()[0] for l in lines if l.startswith("VIOLATION") and "bounded-check=" in l})[:4],
                    "not_established": [l.split(" ", 2)[2][:160] for l in lines if l.startswith("NOT-EST")][:3]}
finally:
    shutil.rmtree(tmp)
    if "--keep-replays" not in sys.argv:
        import re
        shutil.rmtree(os.path.join("/verif/.cache/scratch-runs", re.sub(r"[^A-Za-z0-9_.-]+", "_", tmp + "/src").strip("_")), ignore_errors=True)
if "--record" in sys.argv:
    mp = f"/verif/seeded/{name}/meta.json"
    meta = json.load(open(mp))
    if not isinstance(meta.get("detected_by"), dict):
        meta["detected_by"] = {}
    meta["detected_by"].update(res)
    json.dump(meta, open(mp, "w"), indent=1)
