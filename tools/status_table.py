#!/verif/.venv/bin/python
"""Markdown status table from the evidence files of the last runs: per property, functions under contract (status, obligations),
lemmas, bounded parts."""
import glob, json, os
print("| id | functions / lemmas under contract (status, discharged/obligations) | obligations | bounded stand-in (evaluations, non-trivial) | known findings seen |\n|---|---|---|---|---|")
for p in sorted(glob.glob("/verif/evidence/C*.json")):
    e = json.load(open(p)); c = e["coverage"]
    fs = []
    lem = 0
    for f in c.get("functions_under_contract", []):
        if str(f["target"]).startswith("lemma:"):
            lem += 1 if f["status"] == "proved" else 0
            continue
        fs.append(f"`{f['target']}` {f['status']} {f['discharged']}/{f['obligations']}")
    if lem:
        fs.append(f"{lem} SMT lemmas proved")
    b = "; ".join(f"{x['name']} ({x['evaluations']}, {x['distinct_nontrivial']})" for x in c.get("bounded_parts", []))
    print(f"| {e['property_id']} | {'; '.join(fs) or '—'} | {c.get('discharged')}/{c.get('obligations')} | {b or '—'} | {len(c.get('known_findings_seen', []))} |")
