import sys, importlib
sys.path.insert(0, "/verif")
from pyvc.engine import Engine
from pyvc.solve import discharge
import z3
mod, side, qual, pattern = sys.argv[1:5]
sc = importlib.import_module(side)
eng = Engine(mod, sc)
q, _, var = qual.partition("@")
obls = eng.verify(q, var or None)
n = 0
for o in obls:
    if pattern in o.name:
        s = z3.Solver(); s.set("timeout", 20000)
        for h in o.hyps: s.add(h)
        s.add(z3.Not(o.goal))
        r = s.check()
        if r == z3.sat:
            m = s.model()
            print(o.name, "SAT; model:", {str(d): m[d] for d in m.decls() if not str(d).startswith("k!")})
            print("  pc:", [str(h)[:150] for h in o.hyps[-8:]])
            n += 1
            if n >= 2: break
if len(sys.argv) > 5:
    val = sys.argv[5]
    for o in obls:
        if pattern in o.name:
            s = z3.Solver(); s.set("timeout", 20000)
            for h in o.hyps: s.add(h)
            s.add(z3.Not(o.goal)); s.add(z3.String("fr3d_name") == val)
            r = s.check()
            if r == z3.sat:
                print("with", val, o.name, r)
                # which hyps/goal parts
                m = s.model()
                print(" goal:", str(z3.simplify(m.eval(o.goal, model_completion=True)))[:200])
                break
