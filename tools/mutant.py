#!/verif/.venv/bin/python
"""Development gate: apply a textual mutation to a scratch copy of /repo/src and run checks against it.
usage: mutant.py <file under src/rnapolis> <old> <new> <PID> [<PID>...]   (scratch copy removed afterwards)"""
import os, shutil, subprocess, sys, tempfile
f, old, new, *pids = sys.argv[1:]
tmp = tempfile.mkdtemp(prefix="pyvc-mut-")
try:
    shutil.copytree("/repo/src", tmp + "/src")
    p = f"{tmp}/src/rnapolis/{f}"
    s = open(p).read()
    assert s.count(old) >= 1, "pattern not found"
    open(p, "w").write(s.replace(old, new, 1))
    env = dict(os.environ, PYVC_SRC_ROOT=tmp + "/src", PYTHONPATH=tmp + "/src")
    for pid in pids:
        r = subprocess.run(["/verif/.venv/bin/python", "/verif/check.py", pid], env=env, capture_output=True, text=True, cwd="/verif")
        print(f"--- {pid}: exit {r.returncode}")
        print("\n".join(l for l in r.stdout.splitlines() if l.startswith(("VIOLATION", "NOT-EST", "KNOWN", "property=", "CHECKER")))[:3000])
        if r.returncode not in (0, 1):
            print(r.stderr[-2000:])
finally:
    shutil.rmtree(tmp)
