#!/verif/.venv/bin/python
"""CPython cross-check of the pyvc expression encoder (DESIGN 2.7, guard 3).

For every snippet below the engine evaluates the Python expression over SYMBOLIC variables (exactly as it does inside a
function under contract), giving a z3 term plus the conditions under which it says an exception is raised.  Every concrete
assignment from the small domains is then substituted into that term and compared with what CPython computes for the same
expression: same value, or the same exception kind.  A disagreement means the encoding of Python semantics is wrong for
that construct - the checker is broken (exit 3), whatever the proofs say.

usage: xcheck.py [-v]      exit 0: all agree; exit 3: a disagreement (printed)
"""
import ast
import itertools
import sys
import types
from fractions import Fraction

sys.path.insert(0, "/verif")
import z3  # noqa: E402

from pyvc.engine import Engine  # noqa: E402
from pyvc.state import State  # noqa: E402
from pyvc.values import VList, VOpt, VTuple, VChar, Unsupported, sel, to_z3  # noqa: E402

INTS = [-3, -2, -1, 0, 1, 2, 3, 5]
SMALL = [-2, -1, 0, 1, 2, 3]
STRS = ["", "a", "n", "A", "7", " x ", "cWW", "ncWWa", "-12", "x_1_2", "ab c"]
CHARS = ["a", "Z", "7", " ", "("]
LISTS = [[], [1], [2, 1], [3, 3, 0], [0, -1, 5, 2]]
BOOLS = [False, True]
DICTS = [{}, {1: 5}, {2: 0, -1: 3}, {0: 0, 3: 1, 1: -2}]   # int -> int, insertion order matters
SETS = [set(), {1}, {0, 2}, {-1, 3, 1}]

# (expression, {variable: (kind, domain)})   kinds: int, str, bool, list (of ints), optint
SNIPPETS = [
    ("a + b * 2 - 1", {"a": ("int", INTS), "b": ("int", INTS)}),
    ("a // 3", {"a": ("int", INTS)}),
    ("a % 3", {"a": ("int", INTS)}),
    ("a % b", {"a": ("int", INTS), "b": ("int", SMALL)}),
    ("a ** 2", {"a": ("int", INTS)}),
    ("-a", {"a": ("int", INTS)}),
    ("abs(a)", {"a": ("int", INTS)}),
    ("min(a, b)", {"a": ("int", INTS), "b": ("int", INTS)}),
    ("max(a, b, 1)", {"a": ("int", INTS), "b": ("int", INTS)}),
    ("a < b <= 2", {"a": ("int", INTS), "b": ("int", INTS)}),
    ("a if a > b else b", {"a": ("int", INTS), "b": ("int", INTS)}),
    ("a == b or a > 2", {"a": ("int", INTS), "b": ("int", INTS)}),
    ("not (a and b)", {"a": ("int", SMALL), "b": ("int", SMALL)}),
    ("a or b", {"a": ("int", SMALL), "b": ("int", SMALL)}),
    ("a and b", {"a": ("int", SMALL), "b": ("int", SMALL)}),
    ("(a, b) < (b, a)", {"a": ("int", SMALL), "b": ("int", SMALL)}),
    ("(a, 1) <= (b, 0)", {"a": ("int", SMALL), "b": ("int", SMALL)}),
    ("a / 2", {"a": ("int", INTS)}),
    ("a / b", {"a": ("int", SMALL), "b": ("int", SMALL)}),
    ("bool(a)", {"a": ("int", SMALL)}),
    ("len(s)", {"s": ("str", STRS)}),
    ("s + t", {"s": ("str", STRS[:5]), "t": ("str", STRS[:5])}),
    ("s[i]", {"s": ("str", STRS), "i": ("int", SMALL)}),
    ("s[1:]", {"s": ("str", STRS)}),
    ("s[:-1]", {"s": ("str", STRS)}),
    ("s[:3]", {"s": ("str", STRS)}),
    ("s[1:3]", {"s": ("str", STRS)}),
    ("s[i:j]", {"s": ("str", STRS[:8]), "i": ("int", SMALL), "j": ("int", SMALL)}),
    ("s[i:]", {"s": ("str", STRS[:8]), "i": ("int", SMALL)}),
    ("s.startswith('n')", {"s": ("str", STRS)}),
    ("s.endswith('a')", {"s": ("str", STRS)}),
    ("s.startswith(t)", {"s": ("str", STRS), "t": ("str", STRS[:6])}),
    ("t in s", {"s": ("str", STRS), "t": ("str", STRS[:6])}),
    ("s == t", {"s": ("str", STRS[:6]), "t": ("str", STRS[:6])}),
    ("s < t", {"s": ("str", STRS[:7]), "t": ("str", STRS[:7])}),
    ("s[0].isdigit()", {"s": ("str", STRS)}),
    ("s[0].lower()", {"s": ("str", STRS)}),
    ("s[0].upper()", {"s": ("str", STRS)}),
    ("s[0] in ('c', 't', 'A')", {"s": ("str", STRS)}),
    ("s[0] in 'cnA7'", {"s": ("str", STRS)}),
    ("len(s) >= 3 and s.endswith('a')", {"s": ("str", STRS)}),
    ("int(s)", {"s": ("str", STRS + ["12", "+3", " 4 ", "1_0", "_1", "1__0", "٣"][:6])}),
    ("str(a)", {"a": ("int", INTS + [10, -10, 123])}),
    ("f'x_{a}_{b}'", {"a": ("int", [0, 1, 12]), "b": ("int", [0, 3, 10])}),
    ("'([{<ABC'[a]", {"a": ("int", [-9, -8, -1, 0, 1, 6, 7, 8])}),
    ("len(xs)", {"xs": ("list", LISTS)}),
    ("xs[i]", {"xs": ("list", LISTS), "i": ("int", INTS)}),
    ("xs[-1]", {"xs": ("list", LISTS)}),
    ("xs[1:]", {"xs": ("list", LISTS)}),
    ("xs[:i]", {"xs": ("list", LISTS), "i": ("int", SMALL)}),
    ("xs[i:j]", {"xs": ("list", LISTS), "i": ("int", SMALL), "j": ("int", SMALL)}),
    ("xs + ys", {"xs": ("list", LISTS[:4]), "ys": ("list", LISTS[:4])}),
    ("a in xs", {"xs": ("list", LISTS), "a": ("int", SMALL)}),
    ("a not in xs", {"xs": ("list", LISTS), "a": ("int", SMALL)}),
    ("[x + 1 for x in xs]", {"xs": ("list", LISTS)}),
    ("[x for x in range(a)]", {"a": ("int", SMALL)}),
    ("list(range(a, b))", {"a": ("int", SMALL), "b": ("int", SMALL)}),
    ("len(range(a, b))", {"a": ("int", SMALL), "b": ("int", SMALL)}),
    ("all(x > 0 for x in xs)", {"xs": ("list", LISTS)}),
    ("any([x == a for x in xs])", {"xs": ("list", LISTS), "a": ("int", SMALL)}),
    ("max(xs)", {"xs": ("list", LISTS)}),
    ("min(xs)", {"xs": ("list", LISTS)}),
    ("list(reversed(xs))", {"xs": ("list", LISTS)}),
    ("xs == ys", {"xs": ("list", LISTS[:4]), "ys": ("list", LISTS[:4])}),
    ("bool(xs)", {"xs": ("list", LISTS)}),
    ("not xs", {"xs": ("list", LISTS)}),
    ("next(filter(lambda k: k > a, range(4)))", {"a": ("int", INTS)}),
    ("o is None", {"o": ("optint", [None, 0, 2])}),
    ("o is not None and o > 1", {"o": ("optint", [None, 0, 2])}),
    ("o or 7", {"o": ("optint", [None, 0, 2])}),
    ("(o or 1) + 1", {"o": ("optint", [None, 0, 2])}),
    ("o + 1", {"o": ("optint", [None, 0, 2])}),
    ("o == 2", {"o": ("optint", [None, 0, 2])}),
    ("int(o)", {"o": ("optint", [None, 0, 2, -3])}),
    ("a if b else None", {"a": ("int", SMALL), "b": ("bool", BOOLS)}),
    ("(a, s)[i]", {"a": ("int", [1]), "s": ("int", [7]), "i": ("int", [-3, -2, -1, 0, 1, 2])}),
    ("[a, b, 4][i]", {"a": ("int", [1, 2]), "b": ("int", [0]), "i": ("int", [-4, -3, -1, 0, 2, 3])}),
    ("sum([a, b, 1])", {"a": ("int", SMALL), "b": ("int", SMALL)}),
    ("a if o is None else o", {"a": ("int", [5]), "o": ("optint", [None, 0, 2])}),
    ("d[k]", {"d": ("dict", DICTS), "k": ("int", SMALL)}),
    ("k in d", {"d": ("dict", DICTS), "k": ("int", SMALL)}),
    ("k not in d", {"d": ("dict", DICTS), "k": ("int", SMALL)}),
    ("d.get(k)", {"d": ("dict", DICTS), "k": ("int", SMALL)}),
    ("d.get(k, 7)", {"d": ("dict", DICTS), "k": ("int", SMALL)}),
    ("len(d)", {"d": ("dict", DICTS)}),
    ("list(d.keys())", {"d": ("dict", DICTS)}),
    ("[v for v in d.values()]", {"d": ("dict", DICTS)}),
    ("[k + v for k, v in d.items()]", {"d": ("dict", DICTS)}),
    ("bool(d)", {"d": ("dict", DICTS)}),
    ("k in st", {"st": ("set", SETS), "k": ("int", SMALL)}),
    ("k not in st", {"st": ("set", SETS), "k": ("int", SMALL)}),
    ("s[i] in 'ACGU'", {"s": ("str", ["", "A", "xG", "UUU"]), "i": ("int", SMALL)}),
    ("s.isdigit()", {"s": ("str", STRS + ["12", "1a"])}),
    ("''.join([s, t])", {"s": ("str", STRS[:4]), "t": ("str", STRS[:4])}),
    ("'-'.join([s, t, 'z'])", {"s": ("str", STRS[:4]), "t": ("str", STRS[:4])}),
    ("s.strip()", {"s": ("str", STRS)}),
    ("s.split('_')", {"s": ("str", STRS)}),
    ("s.upper()", {"s": ("str", STRS)}),
    ("int(s[1:3])", {"s": ("str", STRS + ["x12y", "x-1"])}),
    ("float(a) / 2", {"a": ("int", SMALL)}),
    ("a <= b < len(xs)", {"a": ("int", SMALL), "b": ("int", SMALL), "xs": ("list", LISTS)}),
    ("xs[a] if 0 <= a < len(xs) else -1", {"a": ("int", INTS), "xs": ("list", LISTS)}),
    ("[x for x in xs if x > a]", {"a": ("int", SMALL), "xs": ("list", LISTS)}),
    ("list(filter(lambda x: x != a, xs))", {"a": ("int", SMALL), "xs": ("list", LISTS)}),
    ("[(k, x) for k, x in enumerate(xs)]", {"xs": ("list", LISTS)}),
    ("list(map(lambda x: x * 2, xs))", {"xs": ("list", LISTS)}),
    ("xs.index(a)", {"a": ("int", SMALL), "xs": ("list", LISTS)}),
    ("xs.copy()", {"xs": ("list", LISTS)}),
    ("len(set(xs))", {"xs": ("list", LISTS)}),
    ("a in set(xs)", {"a": ("int", SMALL), "xs": ("list", LISTS)}),
    ("tuple([a, b]) == (b, a)", {"a": ("int", SMALL), "b": ("int", SMALL)}),
    ("s[0] == t", {"s": ("str", STRS), "t": ("str", CHARS)}),
    ("(s or 'x')[0]", {"s": ("str", STRS)}),
    ("round(a / 2)", {"a": ("int", SMALL)}),
    ("s.rjust(5)", {"s": ("str", STRS)}),
    ("s.ljust(4)", {"s": ("str", STRS)}),
    ("s.rjust(0) + s.ljust(1)", {"s": ("str", STRS)}),
    ("s[:1].isalpha()", {"s": ("str", STRS + ["Zz", "_a", "{", "@"])}),
    ("f'{s:>4}|{a:<3}|{a:>2}'", {"s": ("str", STRS[:6]), "a": ("int", INTS + [10, -10, 123])}),
    ("f'{abs(a)}{\"+\" if a > 0 else \"-\"}'.rjust(2)", {"a": ("int", INTS)}),
    ("int(a / 2)", {"a": ("int", INTS)}),
    ("int(a / b)", {"a": ("int", INTS), "b": ("int", [-2, 3])}),
]


weak = []


def make_engine():
    side = types.ModuleType("xcheck_sidecar")
    side.__file__ = __file__
    side.CONTRACTS, side.CLASSES, side.INLINE = {}, {}, []
    return Engine("rnapolis.util", side)


def symbolic(eng, name, kind, domain):
    """-> (engine value, function concrete->list of (z3 const, z3 value) substitutions)"""
    if kind == "int":
        c = z3.Int(name)
        return c, lambda v: [(c, z3.IntVal(v))]
    if kind == "bool":
        c = z3.Bool(name)
        return c, lambda v: [(c, z3.BoolVal(v))]
    if kind == "str":
        c = z3.String(name)
        return c, lambda v: [(c, z3.StringVal(v))]
    if kind == "optint":
        n, c = z3.Bool(name + ".none"), z3.Int(name + ".some")
        return VOpt(n, c), lambda v: [(n, z3.BoolVal(v is None)), (c, z3.IntVal(0 if v is None else v))]
    if kind == "dict":
        from pyvc.values import VDict
        dom = z3.Array(name + ".dom", z3.IntSort(), z3.BoolSort())
        vals = z3.Array(name + ".val", z3.IntSort(), z3.IntSort())
        oln = z3.Int(name + ".order.len")
        oarr = z3.Array(name + ".order.el", z3.IntSort(), z3.IntSort())

        def subd(v):
            d_, v_, o_ = z3.K(z3.IntSort(), z3.BoolVal(False)), z3.K(z3.IntSort(), z3.IntVal(0)), z3.K(z3.IntSort(), z3.IntVal(0))
            for pos, (k_, x_) in enumerate(v.items()):
                d_, v_, o_ = z3.Store(d_, k_, True), z3.Store(v_, k_, x_), z3.Store(o_, pos, k_)
            return [(dom, d_), (vals, v_), (oln, z3.IntVal(len(v))), (oarr, o_)]
        return VDict(("int",), ("int",), dom, vals, VList(oln, oarr, ("int",))), subd
    if kind == "set":
        from pyvc.values import VSet
        mem = z3.Array(name + ".mem", z3.IntSort(), z3.BoolSort())

        def subs_(v):
            m_ = z3.K(z3.IntSort(), z3.BoolVal(False))
            for k_ in v:
                m_ = z3.Store(m_, k_, True)
            return [(mem, m_)]
        return VSet(("int",), mem), subs_
    if kind == "list":
        ln = z3.Int(name + ".len")
        arr = z3.Array(name + ".el", z3.IntSort(), z3.IntSort())

        def sub(v):
            a = z3.K(z3.IntSort(), z3.IntVal(0))
            for k, x in enumerate(v):
                a = z3.Store(a, k, x)
            return [(ln, z3.IntVal(len(v))), (arr, a)]
        return VList(ln, arr, ("int",)), sub
    raise ValueError(kind)


def concretise(v, subs, eng, want=None):
    """engine value -> python value after substitution (lists need their concrete length)"""
    def S(t):
        return z3.simplify(z3.substitute(to_z3(t), *subs)) if subs else z3.simplify(to_z3(t))
    if v is None:
        return None
    if isinstance(v, (bool, int, str)):
        return v
    if isinstance(v, Fraction):
        return float(v)
    if isinstance(v, VOpt):
        return None if z3.is_true(S(v.isnone)) else concretise(v.val, subs, eng)
    if isinstance(v, VChar):
        return chr(S(v.code).as_long())
    if isinstance(v, VTuple):
        return tuple(concretise(x, subs, eng) for x in v.items)
    if isinstance(v, VList):
        if v.elems is None:
            return []
        n = S(v.length)
        if not z3.is_int_value(n):
            return ("?symbolic-length", str(n))
        return [concretise(sel(v.elems, z3.IntVal(k)), subs, eng) for k in range(n.as_long())]
    if type(v).__name__ == "VJoined":
        return "".join(concretise(v.lst, subs, eng))
    t = S(v)
    if z3.is_bool(t) and not (z3.is_true(t) or z3.is_false(t)):
        d = decide(t, [])  # closed quantified formula (e.g. membership in a list): let the solver decide it
        if d is not None:
            return d
    if z3.is_int_value(t):
        return t.as_long()
    if z3.is_true(t):
        return True
    if z3.is_false(t):
        return False
    if z3.is_string_value(t):
        return t.as_string()
    if z3.is_rational_value(t):
        return float(Fraction(t.numerator_as_long(), t.denominator_as_long()))
    return ("?not-a-value", str(t)[:80])


def equate(v, py):
    """z3 formula: engine value v denotes the python value py"""
    if isinstance(py, range):
        py = list(py)
    if isinstance(v, VOpt):
        return v.isnone if py is None else z3.And(z3.Not(to_z3(v.isnone)), equate(v.val, py))
    if isinstance(v, VList):
        if not isinstance(py, list):
            raise ValueError("shape")
        return z3.And(to_z3(v.length) == len(py), *[equate(sel(v.elems, z3.IntVal(k)), x) for k, x in enumerate(py)])
    if isinstance(v, VTuple):
        if not isinstance(py, tuple) or len(py) != len(v.items):
            raise ValueError("shape")
        return z3.And(*[equate(x, y) for x, y in zip(v.items, py)])
    if isinstance(v, VChar):
        return to_z3(v.code) == ord(py)
    t = to_z3(v)
    if isinstance(py, float):
        w = z3.RealVal(str(Fraction(py).limit_denominator(10 ** 9)))
        return (z3.ToReal(t) if t.sort() == z3.IntSort() else t) == w
    w = to_z3(py)
    if t.sort() == z3.RealSort() and w.sort() == z3.IntSort():
        w = z3.ToReal(w)
    return t == w


def decide(cond, subs):
    t = z3.simplify(z3.substitute(to_z3(cond), *subs)) if subs else z3.simplify(to_z3(cond))
    if z3.is_true(t):
        return True
    if z3.is_false(t):
        return False
    s = z3.Solver()
    s.add(t)
    r = s.check()
    if r == z3.unsat:
        return False
    s2 = z3.Solver()
    s2.add(z3.Not(t))
    if s2.check() == z3.unsat:
        return True
    return None


def native(expr, env):
    try:
        return ("value", eval(expr, dict(env, __builtins__=__builtins__)))  # (as globals: lambdas inside must see the variables)
    except Exception as e:
        return ("raise", type(e).__name__)


def same(a, b):
    if isinstance(a, float) or isinstance(b, float):
        try:
            return abs(float(a) - float(b)) < 1e-12 and isinstance(a, bool) == isinstance(b, bool)
        except Exception:
            return False
    if isinstance(a, range):
        a = list(a)
    if isinstance(a, (list, tuple)) and isinstance(b, (list, tuple)):
        return type(a) == type(b) and len(a) == len(b) and all(same(x, y) for x, y in zip(a, b))
    return type(a) == type(b) and a == b


def run(verbose=False):
    eng = make_engine()
    bad, total, skipped = [], 0, []
    global weak
    weak = []
    for expr, vars_ in SNIPPETS:
        node = ast.parse(expr, mode="eval").body
        st = State()
        subfns = {}
        for name, (kind, dom) in vars_.items():
            st.env[name], subfns[name] = symbolic(eng, name, kind, dom)
        eng.spec, eng.guard, eng.mayraise = False, [], []
        eng.cur_name, eng.cur_locals = "xcheck", {}
        try:
            val = eng.ev(node, st)
        except Unsupported as e:
            skipped.append((expr, str(e)))
            continue
        raises = list(eng.mayraise)
        assumed = list(st.pc)
        names = list(vars_)
        for combo in itertools.product(*[vars_[n][1] for n in names]):
            total += 1
            env = dict(zip(names, combo))
            subs = [p for n, v in env.items() for p in subfns[n](v)]
            kind, res = native(expr, env)
            # what the engine says
            fired = []
            undecided = False
            for c, exc, _ in raises:
                d = decide(c, subs)
                if d is None:
                    undecided = True
                elif d:
                    fired.append(exc)
            if undecided:
                bad.append((expr, env, "engine raise-condition undecided", None))
                continue
            if kind == "raise":
                if res not in fired:
                    bad.append((expr, env, f"CPython raises {res}", f"engine raises {fired or 'nothing'}"))
                continue
            if fired:
                bad.append((expr, env, f"CPython value {res!r}", f"engine raises {fired}"))
                continue
            # facts the engine assumed while evaluating (e.g. characterisations of fresh results) must be satisfiable
            # together with the substitution; the value is then read off a model of them
            got = concretise(val, subs, eng)
            if isinstance(got, tuple) and got and isinstance(got[0], str) and got[0].startswith("?"):
                # the value is characterised by facts the engine assumed (fresh results of next()/max()/int(str)/x/y ...):
                # CPython's value must be CONSISTENT with them (soundness); if other values are consistent too the
                # encoding is merely weak there (counted, not an error - a proof that needs the value simply fails)
                try:
                    eqc = equate(val, res)
                except Exception as e:
                    bad.append((expr, env, f"CPython value {res!r}", f"engine value not comparable: {got} ({e})"))
                    continue
                s = z3.Solver()
                s.set("timeout", 20000)
                for f in assumed + list(eng.global_facts):
                    s.add(z3.substitute(f, *subs))
                eqs = z3.substitute(eqc, *subs)
                s.push()
                s.add(eqs)
                if s.check() != z3.sat:
                    bad.append((expr, env, f"CPython value {res!r}", "inconsistent with the facts the engine assumes about its result"))
                    continue
                s.pop()
                s.add(z3.Not(eqs))
                if s.check() != z3.unsat:
                    weak.append((expr, env))
                continue
            if not same(res, got):
                bad.append((expr, env, f"CPython value {res!r}", f"engine value {got!r}"))
        if verbose:
            print(f"  {expr:45s} ok" if not [b for b in bad if b[0] == expr] else f"  {expr:45s} MISMATCH")
    return total, bad, skipped


# ---------------------------------------------------------------------------------------------------------------------
# part 2: statement-level semantics - small function bodies executed by the engine's statement layer (branches, early
# returns, try/except, loops over concrete ranges which the engine unrolls, container mutation, tuple unpacking, break /
# continue / for-else): for every concrete assignment exactly one symbolic outcome must be feasible and it must be
# CPython's outcome (returned value or exception kind).
FUNCS = [
    ("""
def f(a, b):
    if a > b:
        return a - b
    elif a == b:
        return 0
    return b
""", {"a": ("int", SMALL), "b": ("int", SMALL)}),
    ("""
def f(a, xs):
    try:
        x = xs[a]
    except IndexError:
        return -100
    return x + 1
""", {"a": ("int", INTS), "xs": ("list", LISTS)}),
    ("""
def f(s):
    try:
        v = int(s)
        return v * 2
    except (ValueError, KeyError):
        return None
""", {"s": ("str", STRS + ["12", "-7"])}),
    ("""
def f(a):
    total = 0
    for i in range(4):
        if i == a:
            continue
        if i > a + 1:
            break
        total += i
    else:
        total += 100
    return total
""", {"a": ("int", INTS)}),
    ("""
def f(a, b):
    xs = [a, b]
    xs.append(a + b)
    xs[0] = 9
    y = xs.pop()
    return (len(xs), y, xs[-1])
""", {"a": ("int", SMALL), "b": ("int", SMALL)}),
    ("""
def f(a, b):
    x, y = (b, a)
    x += 1
    y -= x
    return x * y
""", {"a": ("int", SMALL), "b": ("int", SMALL)}),
    ("""
def f(o, a):
    if o is None:
        return a
    if o > a:
        return o
    return a + o
""", {"o": ("optint", [None, 0, 2]), "a": ("int", SMALL)}),
    ("""
def f(s):
    if s.startswith("n"):
        s = s[1:]
    if len(s) >= 3 and s.endswith("a"):
        s = s[:-1]
    if len(s) == 3 and s[0].lower() in ("c", "t"):
        return s[0].lower() + s[1].upper() + s[2].upper()
    return "other"
""", {"s": ("str", STRS + ["cww", "tHSa", "nCwwa", "na", "a"])}),
    ("""
def f(a, b):
    if b == 0:
        raise ValueError("zero")
    return a % b
""", {"a": ("int", SMALL), "b": ("int", SMALL)}),
    ("""
def f(a, xs):
    found = None
    for x in [3, 1, 2]:
        if x == a:
            found = x
            break
    if found is None:
        return len(xs)
    return found + len(xs)
""", {"a": ("int", SMALL), "xs": ("list", LISTS)}),
    ("""
def f(a):
    assert a != 1
    t = (a, a + 1, a + 2)
    return t[a]
""", {"a": ("int", INTS)}),
    ("""
def f(a, b):
    m = a if a > b else b
    flag = a < b <= 3 or not b
    return (m, flag)
""", {"a": ("int", SMALL), "b": ("int", SMALL)}),
]


def run_functions(verbose=False):
    eng = make_engine()
    bad, total, skipped = [], 0, []
    for src, vars_ in FUNCS:
        fdef = ast.parse(src.strip()).body[0]
        glob = {}
        exec(compile(ast.parse(src.strip()), "<xcheck>", "exec"), glob)
        fn = glob["f"]
        st = State()
        subfns = {}
        for name, (kind, dom) in vars_.items():
            st.env[name], subfns[name] = symbolic(eng, name, kind, dom)
        eng.spec, eng.guard, eng.mayraise = False, [], []
        eng.cur_name, eng.cur_locals, eng.cur_loops, eng.cur_ghost = "xcheck", {}, {}, []
        eng.number_loops(fdef)
        try:
            outs = eng.exec_block(fdef.body, st)
        except Unsupported as e:
            skipped.append((src.strip().splitlines()[1].strip(), str(e)))
            continue
        names = list(vars_)
        for combo in itertools.product(*[vars_[n][1] for n in names]):
            total += 1
            env = dict(zip(names, combo))
            subs = [p for n, v in env.items() for p in subfns[n](v)]
            try:
                want = ("value", fn(**{k: (list(v) if isinstance(v, list) else v) for k, v in env.items()}))
            except Exception as e:
                want = ("raise", type(e).__name__)
            feasible = []
            for o in outs:
                d = decide(z3.And(*[to_z3(c) for c in o.st.pc]) if o.st.pc else z3.BoolVal(True), subs)
                if d is None:
                    sv = z3.Solver()
                    sv.add(z3.substitute(z3.And(*[to_z3(c) for c in o.st.pc]), *subs))
                    d = sv.check() == z3.sat
                if d:
                    feasible.append(o)
            if len(feasible) != 1:
                bad.append((src.strip().splitlines()[1].strip(), env, f"CPython {want}", f"{len(feasible)} feasible symbolic outcomes"))
                continue
            o = feasible[0]
            if want[0] == "raise":
                if o.kind != "raise" or o.exc != want[1]:
                    bad.append((src.strip().splitlines()[1].strip(), env, f"CPython raises {want[1]}", f"engine outcome {o.kind} {o.exc or ''}"))
                continue
            if o.kind == "raise":
                bad.append((src.strip().splitlines()[1].strip(), env, f"CPython value {want[1]!r}", f"engine raises {o.exc}"))
                continue
            val = o.value if o.kind == "return" else None
            got = concretise(val, subs, eng)
            if isinstance(got, tuple) and got and isinstance(got[0], str) and got[0].startswith("?") or not same(want[1], got):
                # value characterised by assumed facts: consistency + determinacy
                try:
                    eqc = z3.BoolVal(val is None) if want[1] is None and not isinstance(val, VOpt) else equate(val, want[1])
                except Exception as e:
                    bad.append((src.strip().splitlines()[1].strip(), env, f"CPython value {want[1]!r}", f"engine value {got!r}"))
                    continue
                sv = z3.Solver()
                for f_ in list(o.st.pc) + list(eng.global_facts):
                    sv.add(z3.substitute(to_z3(f_), *subs))
                sv.add(z3.Not(z3.substitute(eqc, *subs)))
                if sv.check() != z3.unsat:
                    bad.append((src.strip().splitlines()[1].strip(), env, f"CPython value {want[1]!r}", f"engine value {got!r}"))
    return total, bad, skipped


if __name__ == "__main__":
    total, bad, skipped = run("-v" in sys.argv)
    t2, b2, s2 = run_functions("-v" in sys.argv)
    total, bad, skipped = total + t2, bad + b2, skipped + s2
    for expr, why in skipped:
        print(f"skipped (engine rejects it as Unsupported, which is allowed): {expr}: {why}")
    for expr, env, a, b in bad[:40]:
        print(f"MISMATCH {expr!r} at {env}: {a} / {b}")
    wk = sorted({e for e, _ in weak})
    if wk:
        print(f"weak (sound but underdetermined) on {len(weak)} evaluations of: {wk}")
    print(f"xcheck: {len(SNIPPETS) + len(FUNCS) - len(skipped)} expressions / function bodies, {total} concrete evaluations, {len(bad)} disagreements")
    sys.exit(3 if bad else 0)
