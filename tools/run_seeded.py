#!/verif/.venv/bin/python
"""Apply a kept seeded change to /repo, run the given checks, undo it straight afterwards.
usage: run_seeded.py <name> <PID> [<PID>...]"""
import json, subprocess, sys
name, *pids = sys.argv[1:]
patch = f"/verif/seeded/{name}/patch.diff"
assert subprocess.run(["git", "-C", "/repo", "status", "--porcelain", "--untracked-files=no"], capture_output=True, text=True).stdout.strip() == "", "/repo not clean"
assert subprocess.run(["git", "-C", "/repo", "apply", patch]).returncode == 0
res = {}
try:
    for pid in pids:
        r = subprocess.run(["/verif/.venv/bin/python", "/verif/check.py", pid], capture_output=True, text=True, cwd="/verif")
        lines = [l for l in r.stdout.splitlines() if l.startswith(("VIOLATION", "NOT-EST", "property=", "CHECKER"))]
        print(f"--- {name} / {pid}: exit {r.returncode}")
        print("\n".join(l[:260] for l in lines[:6]))
        res[pid] = {"exit": r.returncode, "first": lines[0][:300] if lines else ""}
finally:
    subprocess.run(["git", "-C", "/repo", "checkout", "--", "."])
mp = f"/verif/seeded/{name}/meta.json"
meta = json.load(open(mp))
meta.setdefault("detected_by", {}).update(res)
json.dump(meta, open(mp, "w"), indent=1)
