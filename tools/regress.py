#!/verif/.venv/bin/python
"""Deductive regression: regenerate + discharge every DEDUCTIVE target of every property module (no bounded part).
usage: regress.py [PID ...]     exit 0 iff every target has the status it is expected to have
(expected = proved, except targets listed in a property's EXPECT_FAIL set, e.g. the C18 clause that is a known finding)."""
import glob, importlib, os, sys, time
sys.path.insert(0, "/verif")
os.environ.setdefault("LOGLEVEL", "CRITICAL")
from pyvc.report import _engine_targets
pids = sys.argv[1:] or sorted(os.path.basename(p)[:-3] for p in glob.glob("/verif/props/C*.py"))
bad = 0
for pid in pids:
    prop = importlib.import_module(f"props.{pid}")
    expect_fail = set(getattr(prop, "EXPECT_FAIL", ()))
    for ded in getattr(prop, "DEDUCTIVE", []):
        t = time.time()
        recs = _engine_targets(ded, [], "quick")
        for r in recs:
            n = len(r["obligations"]); d = sum(o["result"] == "unsat" for o in r["obligations"])
            ok = (r["status"] == "proved") != (r["target"] in expect_fail)
            bad += not ok
            slow = max([o["ms"] for o in r["obligations"]] or [0])
            print(f"{'ok  ' if ok else 'BAD '} {pid} {r['target']:55s} {r['status']:16s} {d}/{n}  slowest {slow} ms  {r.get('reason') or ''}"[:220])
            if not ok:
                for o in r["obligations"]:
                    if o["result"] != "unsat":
                        print(f"       {o['name']} -> {o['result']} ({o['backend']}, {o['ms']} ms)")
print("REGRESS", "FAILED" if bad else "OK")
sys.exit(1 if bad else 0)
