#!/verif/.venv/bin/python
"""C14 worker: run in a FRESH interpreter (the caller sets PYTHONHASHSEED).  Reads a JSON job list from the file named in argv[1]
(or stdin), computes every output the property names for every input TWICE in this process (re-reading the input each time) and prints
one JSON object:  {"hashseed": ..., "results": {input id: {"outputs": {name: sha256}, "repeat_differs": [names], "sizes": {name: bytes}}}}

job = {"id": str, "kind": "structure" | "external" | "fr3d" | "secondary", ...}
  structure: path [, find_gaps, cli]        library annotator + parser_v2 writers (+ the annotator command line tool)
  external:  path                           interactions of an 'external tool' with conflicting canonical pairs through rnapolis.adapter
  fr3d:      path, external                 an FR3D report through rnapolis.adapter
  secondary: sequence, structure | bpseq    BpSeq / DotBracket route
An exception inside one output is itself recorded as that output's content ("raised <Type>: <message>"), so it is compared as well.
"""
import contextlib
import hashlib
import io
import json
import os
import sys
import tempfile

os.environ.setdefault("LOGLEVEL", "CRITICAL")
import warnings  # noqa: E402

warnings.filterwarnings("ignore")


def guarded(out, name, fn):
    try:
        v = fn()
    except Exception as e:  # noqa: BLE001
        v = f"raised {type(e).__name__}: {e}"
    if isinstance(v, str):
        v = v.encode()
    out[name] = v


def elements_text(stems, single_strands, hairpins, loops):
    return "\n".join(["# stems"] + [str(x) for x in stems] + ["# single strands"] + [str(x) for x in single_strands] + ["# hairpins"] + [str(x) for x in hairpins]
                     + ["# loops"] + [str(x) for x in loops])


def read_bytes(path):
    with open(path, "rb") as f:
        return f.read()


def structure2d_outputs(out, prefix, structure2d, dot_brackets, tmp):
    from rnapolis.annotator import write_bpseq, write_csv, write_json
    from rnapolis.common import BpSeq
    bi = structure2d.baseInteractions
    out[prefix + "interactions.basePairs"] = "\n".join(repr(x) for x in bi.basePairs).encode()
    out[prefix + "interactions.stackings"] = "\n".join(repr(x) for x in bi.stackings).encode()
    out[prefix + "interactions.baseRibose"] = "\n".join(repr(x) for x in bi.baseRiboseInteractions).encode()
    out[prefix + "interactions.basePhosphate"] = "\n".join(repr(x) for x in bi.basePhosphateInteractions).encode()
    out[prefix + "bpseq"] = structure2d.bpseq.encode()
    out[prefix + "dot_bracket(solver)"] = structure2d.dotBracket.encode()
    out[prefix + "extended_dot_bracket(solver)"] = structure2d.extendedDotBracket.encode()
    out[prefix + "all_dot_brackets[Mapping2D3D,in order]"] = "\n//\n".join(dot_brackets).encode()
    out[prefix + "elements"] = elements_text(structure2d.stems, structure2d.singleStrands, structure2d.hairpins, structure2d.loops).encode()
    out[prefix + "inter_stem_parameters"] = "\n".join(repr(x) for x in structure2d.interStemParameters).encode()

    def wj():
        p = os.path.join(tmp, "o.json")
        write_json(p, structure2d)
        return read_bytes(p)

    def wc():
        p = os.path.join(tmp, "o.csv")
        write_csv(p, structure2d)
        return read_bytes(p)

    def wb():
        p = os.path.join(tmp, "o.bpseq")
        write_bpseq(p, structure2d.bpseq)
        return read_bytes(p)
    guarded(out, prefix + "write_json(orjson)", wj)
    guarded(out, prefix + "write_csv", wc)
    guarded(out, prefix + "write_bpseq", wb)
    guarded(out, prefix + "all_dot_brackets[BpSeq,in order]", lambda: "\n//\n".join(str(d) for d in BpSeq.from_string(structure2d.bpseq).all_dot_brackets))


def read_structure(path, model=None):
    from rnapolis.parser import read_3d_structure
    with open(path) as f:
        return read_3d_structure(f, model)


def do_structure(job, tmp):
    from rnapolis.annotator import extract_base_interactions, extract_secondary_structure
    out = {}
    path = job["path"]
    s = read_structure(path)
    bi = extract_base_interactions(s)
    out["extract_base_interactions"] = "\n".join(repr(x) for lst in (bi.basePairs, bi.stackings, bi.baseRiboseInteractions, bi.basePhosphateInteractions) for x in lst).encode()
    for fg in ([False, True] if job.get("find_gaps") else [False]):
        s = read_structure(path)
        structure2d, dbs = extract_secondary_structure(s, None, fg, True)
        structure2d_outputs(out, "gaps:" if fg else "", structure2d, dbs, tmp)
    # atom-table readers / writers
    from rnapolis import parser_v2

    def table():
        with open(path) as f:
            return parser_v2.parse_pdb_atoms(f) if path.endswith((".pdb", ".ent")) else parser_v2.parse_cif_atoms(f)
    guarded(out, "parser_v2.write_pdb", lambda: parser_v2.write_pdb(table()))
    guarded(out, "parser_v2.write_cif(mmcif writer)", lambda: parser_v2.write_cif(table()))
    guarded(out, "parser_v2.fit_to_pdb+write_pdb", lambda: parser_v2.write_pdb(parser_v2.fit_to_pdb(table())))
    if job.get("cli"):
        from rnapolis import annotator
        files = {k: os.path.join(tmp, "cli." + k) for k in ("bpseq", "csv", "json", "pml", "stems.csv", "interstem.csv")}
        argv = ["annotator", path, "-a", "-b", files["bpseq"], "-c", files["csv"], "-j", files["json"], "-p", files["pml"], "--stems-csv", files["stems.csv"],
                "--inter-stem-csv", files["interstem.csv"]]
        old = sys.argv
        buf = io.StringIO()
        try:
            sys.argv = argv
            with contextlib.redirect_stdout(buf):
                try:
                    annotator.main()
                except SystemExit as e:
                    buf.write(f"\nSystemExit {e.code}")
                except Exception as e:  # noqa: BLE001
                    buf.write(f"\nraised {type(e).__name__}: {e}")
        finally:
            sys.argv = old
        out["cli annotator stdout (-a: all dot-brackets)"] = buf.getvalue().encode()
        for k, p in files.items():
            out[f"cli annotator file {k}" + ("(pandas)" if k.endswith(".csv") and k != "csv" else "")] = read_bytes(p) if os.path.exists(p) else b"<not written>"
            if os.path.exists(p):
                os.unlink(p)
    return out


def conflicting_interactions(structure3d):
    """what an external annotator may report: residues cWW-paired with two partners of the same rank (G with two C, A with two U, G with two U)"""
    from rnapolis.common import BaseInteractions, BasePair, LeontisWesthof, Residue, Saenger, Stacking, StackingTopology
    nts = [r for r in structure3d.residues if r.is_nucleotide]
    by = {}
    for r in nts:
        by.setdefault(r.one_letter_name.upper(), []).append(r)
    pairs = []

    def res(r):
        return Residue(r.label, r.auth)
    for a, b in (("G", "C"), ("A", "U"), ("A", "T"), ("G", "U")):
        xs, ys = by.get(a, []), by.get(b, [])
        for i in range(min(len(xs), len(ys) // 2, 4)):
            x, y1, y2 = xs[i], ys[-1 - 2 * i], ys[-2 - 2 * i]
            # every second tie carries a Saenger class (as FR3D / DSSR-derived lists do): the scoring key has one branch for
            # pairs with a class and one for pairs without
            sa = {"C": Saenger.XIX, "U": Saenger.XX if a == "A" else Saenger.XXVIII, "T": Saenger.XX}[b] if i % 2 == 1 else None
            for y in (y1, y2):
                pairs.append(BasePair(res(x), res(y), LeontisWesthof.cWW, sa))
    # ties that only the FULL residue identity can break: one residue claimed by two equal-rank partners that carry the same
    # residue number (and name) in different chains
    comp = {"G": "C", "C": "G", "A": "UT", "U": "A", "T": "A"}
    by_num = {}
    for r in nts:
        by_num.setdefault((r.number, r.one_letter_name.upper()), []).append(r)
    done = 0
    for (num, letter), group in sorted(by_num.items(), key=lambda kv: (kv[0][0], kv[0][1])):
        chains = {}
        for r in group:
            chains.setdefault(r.chain, r)
        if len(chains) < 2 or done >= 3:
            continue
        y1, y2 = [chains[c] for c in sorted(chains)][:2]
        xs = [r for r in nts if r.one_letter_name.upper() in comp.get(letter, "") and r is not y1 and r is not y2]
        if not xs:
            continue
        x = xs[len(xs) // 2]
        for y in (y2, y1):
            pairs.append(BasePair(res(x), res(y), LeontisWesthof.cWW, None))
        done += 1
    stackings = [Stacking(res(nts[i]), res(nts[i + 1]), StackingTopology.upward) for i in range(0, max(0, len(nts) - 1), 3)]
    return BaseInteractions(pairs, stackings, [], [], [])


def do_external(job, tmp):
    from rnapolis.adapter import ExternalTool, extract_secondary_structure_from_external, process_external_tool_output
    out = {}
    s = read_structure(job["path"])
    if job["kind"] == "fr3d":
        structure2d, dbs, _ = process_external_tool_output(s, job["external"], ExternalTool.FR3D, None, False, True)
    else:
        structure2d, dbs, _ = extract_secondary_structure_from_external(s, conflicting_interactions(s), None, False, True)
    structure2d_outputs(out, "", structure2d, dbs, tmp)
    return out


def do_secondary(job, tmp):
    from rnapolis.common import BpSeq, DotBracket
    out = {}

    def make():
        if "bpseq" in job:
            return BpSeq.from_string(job["bpseq"])
        return BpSeq.from_dotbracket(DotBracket.from_string(job["sequence"], job["structure"]))
    guarded(out, "bpseq", lambda: str(make()))
    guarded(out, "dot_bracket(solver)", lambda: str(make().dot_bracket))
    guarded(out, "fcfs", lambda: str(make().fcfs))
    if job.get("all", True):
        guarded(out, "all_dot_brackets[BpSeq,in order]", lambda: "\n//\n".join(str(d) for d in make().all_dot_brackets))
    guarded(out, "elements", lambda: elements_text(*make().elements))
    guarded(out, "without_pseudoknots", lambda: str(make().without_pseudoknots()))
    return out


def compute(job, tmp):
    if job["kind"] == "structure":
        return do_structure(job, tmp)
    if job["kind"] in ("external", "fr3d"):
        return do_external(job, tmp)
    if job["kind"] == "secondary":
        return do_secondary(job, tmp)
    raise KeyError(job["kind"])


def main():
    jobs = json.load(open(sys.argv[1])) if len(sys.argv) > 1 else json.load(sys.stdin)
    results = {}
    with tempfile.TemporaryDirectory(prefix="c14-") as tmp:
        for job in jobs:
            runs = []
            for _ in range(2):
                try:
                    runs.append(compute(job, tmp))
                except Exception as e:  # noqa: BLE001
                    runs.append({"<whole input>": f"raised {type(e).__name__}: {e}".encode()})
            a, b = runs
            results[job["id"]] = {"outputs": {k: hashlib.sha256(v).hexdigest() for k, v in a.items()},
                                  "sizes": {k: len(v) for k, v in a.items()},
                                  "errors": {k: v.decode(errors="replace")[:200] for k, v in a.items() if v.startswith(b"raised ")},
                                  "repeat_differs": sorted(k for k in set(a) | set(b) if a.get(k) != b.get(k))}
    json.dump({"hashseed": os.environ.get("PYTHONHASHSEED"), "results": results}, sys.stdout)


if __name__ == "__main__":
    main()
