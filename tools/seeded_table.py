#!/verif/.venv/bin/python
"""Markdown table of the kept seeded changes and which checks report them (from seeded/*/meta.json)."""
import glob, json, os
rows = []
for d in sorted(glob.glob("/verif/seeded/*")):
    try:
        m = json.load(open(d + "/meta.json"))
    except Exception:
        continue
    det = m.get("detected_by") or {}
    hits = []
    for pid, r in sorted(det.items()):
        if r.get("exit") == 1:
            first = r.get("first", "")
            if "obligations" in r:
                parts = (["obligation " + o for o in r["obligations"][:1]] + ["bounded " + ", ".join(r["bounded"])] * bool(r["bounded"])
                         + ["(contract not established: restructured)"] * bool(r["not_established"]))
                how = "; ".join(parts) or "?"
            else:
                how = "obligation " + first.split("obligation=")[1].split()[0] if "obligation=" in first else ("bounded " + first.split("bounded-check=")[1].split()[0] if "bounded-check=" in first else "?")
            hits.append(f"{pid}: {how}")
    miss = [pid for pid, r in sorted(det.items()) if r.get("exit") == 0]
    rows.append((os.path.basename(d), m.get("property"), (m.get("needs") or "")[:140].replace("|", "/").replace("\n", " "), "; ".join(hits) or "NOT DETECTED", ", ".join(miss)))
print("| seeded change | property | needs, to manifest | reported by | ran, silent (other properties) |\n|---|---|---|---|---|")
for r in rows:
    print("| " + " | ".join(str(x) for x in r) + " |")
