#!/verif/.venv/bin/python
"""Regenerate MANIFEST.json from the property modules (props/Cxx.py) - keeps it valid at all times."""
import importlib, json, os, sys
sys.path.insert(0, "/verif")
ids = [json.loads(l)["id"] for l in open("/verif/properties.jsonl")]
checks, na = [], []
for pid in ids:
    if not os.path.exists(f"/verif/props/{pid}.py"):
        na.append({"property_id": pid, "reason": "check not built yet (see DESIGN.md section 4)"})
        continue
    m = importlib.import_module(f"props.{pid}")
    if getattr(m, "NOT_APPLICABLE", None):
        na.append({"property_id": pid, "reason": m.NOT_APPLICABLE})
        continue
    checks.append({
        "property_id": pid,
        "quick_cmd": f"./check.py {pid} --tier quick",
        "thorough_cmd": f"./check.py {pid} --tier thorough",
        "evidence_file": f"/verif/evidence/{pid}.json",
        "replay_cmd_template": f"./check.py {pid} --replay {{path}}",
        "engine": "pyvc",
        "level_claimed": {"category": getattr(m, "LEVEL", "other"),
                          "text": getattr(m, "LEVEL_TEXT", "contract obligations on the real functions discharged by SMT where the engine reaches them; the rest of the property is covered by a bounded stand-in (independent oracle run on enumerated inputs), labelled bounded in the evidence and not counted as proved"),
                          "design_ref": f"DESIGN.md section 4 / {pid}"},
        "level_note": getattr(m, "LEVEL_NOTE", "trusted: z3/cvc5, the pyvc encoding of Python semantics (DESIGN 2.3), CPython; " + "; ".join(getattr(m, "ASSUMPTIONS", []))),
        "technique": getattr(m, "TECHNIQUE", "contract-based deductive verification (self-generated VCs from the AST of the real source, z3/cvc5) + bounded run-time oracle as stand-in"),
    })
man = {
    "version": 1,
    "setup_cmd": "./setup.sh",
    "hooks": {"guard": "RNAPOLIS_VERIF", "enable": "no hooks: contracts live in /verif sidecars and are bound to /repo's source by AST on every run",
              "baseline_off_cmd": "cd /repo && /venv/bin/python -m pytest -ra -q -p no:cacheprovider --timeout=900 --continue-on-collection-errors",
              "source_commits": [], "add_only": True},
    "engines": [{"name": "pyvc", "path": "/verif/pyvc", "serves_properties": [c["property_id"] for c in checks],
                 "kind_free_text": "AST -> z3/cvc5 verification-condition generator with sidecar contracts (requires/ensures/invariants/frames/ghost), plus bounded oracle runner"}],
    "checks": checks,
    "not_applicable": na,
    "notes": "fix: commits in /repo and known findings are listed in /verif/known_findings.json; see DESIGN.md section 5",
}
json.dump(man, open("/verif/MANIFEST.json", "w"), indent=1)
print(len(checks), "checks;", len(na), "not claimed")
