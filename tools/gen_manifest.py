#!/verif/.venv/bin/python
"""Regenerate MANIFEST.json from the property modules (props/Cxx.py) - keeps it valid at all times."""
import importlib, json, os, sys
sys.path.insert(0, "/verif")
ids = [json.loads(l)["id"] for l in open("/verif/properties.jsonl")]
checks, na = [], []
for pid in ids:
    if not os.path.exists(f"/verif/props/{pid}.py"):
        na.append({"property_id": pid, "reason": "check not built yet (see DESIGN.md section 4)"})
        continue
    m = importlib.import_module(f"props.{pid}")
    if getattr(m, "NOT_APPLICABLE", None):
        na.append({"property_id": pid, "reason": m.NOT_APPLICABLE})
        continue
    targets = [t for d in getattr(m, "DEDUCTIVE", []) for t in d.get("targets", [])]
    funcs = sorted({t.split("@")[0] for t in targets if not t.startswith("lemma:")})
    nlem = sum(t.startswith("lemma:") for t in targets)
    if getattr(m, "deductive_extra", None):
        funcs.append(getattr(m, "EXTRA_KIND", "finite-domain obligations (deductive_extra)"))
    if funcs or nlem:
        tech = ("contract-based deductive verification of the real source (pyvc: verification conditions generated from the AST of /repo on every run, "
                "sidecar contracts, discharged by z3/cvc5) - under contract: " + ", ".join(funcs) + (f"; {nlem} SMT lemmas" if nlem else "") +
                "; remaining sub-claims by a bounded stand-in (independent run-time oracle), labelled bounded and not counted as proved")
    else:
        tech = ("bounded stand-in only (independent run-time oracle on enumerated / generated inputs): no function of this property is under contract yet - "
                "see DESIGN.md I.7 for why; not counted as proved")
    checks.append({
        "property_id": pid,
        "quick_cmd": f"./check.py {pid} --tier quick",
        "thorough_cmd": f"./check.py {pid} --tier thorough",
        "evidence_file": f"/verif/evidence/{pid}.json",
        "replay_cmd_template": f"./check.py {pid} --replay {{path}}",
        "engine": "pyvc",
        "level_claimed": {"category": getattr(m, "LEVEL", "other"),
                          "text": getattr(m, "LEVEL_TEXT", "contract obligations on the real functions discharged by SMT where the engine reaches them; the rest of the property is covered by a bounded stand-in (independent oracle run on enumerated inputs), labelled bounded in the evidence and not counted as proved"),
                          "design_ref": f"DESIGN.md section 4 / {pid}"},
        "level_note": getattr(m, "LEVEL_NOTE", "trusted: z3/cvc5, the pyvc encoding of Python semantics (DESIGN 2.3), CPython; " + "; ".join(getattr(m, "ASSUMPTIONS", []))),
        "technique": getattr(m, "TECHNIQUE", tech),
    })
man = {
    "version": 1,
    "setup_cmd": "./setup.sh",
    "hooks": {"guard": "RNAPOLIS_VERIF", "enable": "no hooks: contracts live in /verif sidecars and are bound to /repo's source by AST on every run",
              "baseline_off_cmd": "cd /repo && /venv/bin/python -m pytest -ra -q -p no:cacheprovider --timeout=900 --continue-on-collection-errors",
              "source_commits": [], "add_only": True},
    "engines": [{"name": "pyvc", "path": "/verif/pyvc", "serves_properties": [c["property_id"] for c in checks],
                 "kind_free_text": "AST -> z3/cvc5 verification-condition generator with sidecar contracts (requires/ensures/invariants/frames/ghost), plus bounded oracle runner"}],
    "checks": checks,
    "not_applicable": na,
    "notes": "fix: commits in /repo and known findings are listed in /verif/known_findings.json; see DESIGN.md section 5",
}
json.dump(man, open("/verif/MANIFEST.json", "w"), indent=1)
print(len(checks), "checks;", len(na), "not claimed")
