"""Reference tables pinned for the properties (provenance: Leontis & Westhof 2001 edge definitions as used by RNApolis;
Zirbel et al. 2009 for base-phosphate classes; Saenger 1984 numbering).  The obligation "code table == pinned table"
is a finite, complete check: an edited entry in /repo is a named violation."""

BASE_ATOMS = {
    "A": ["N1", "C2", "N3", "C4", "C5", "C6", "N6", "N7", "C8", "N9"],
    "G": ["N1", "C2", "N2", "N3", "C4", "C5", "C6", "O6", "N7", "C8", "N9"],
    "C": ["N1", "C2", "O2", "N3", "C4", "N4", "C5", "C6"],
    "U": ["N1", "C2", "O2", "N3", "C4", "O4", "C5", "C6"],
    "T": ["N1", "C2", "O2", "N3", "C4", "O4", "C5", "C6", "C7"],
}
BASE_DONORS = {"A": ["C2", "N6", "C8", "O2'"], "G": ["N1", "N2", "C8", "O2'"], "C": ["N4", "C5", "C6", "O2'"],
               "U": ["N3", "C5", "C6", "O2'"], "T": ["N3", "C6", "C7"]}
BASE_ACCEPTORS = {"A": ["N1", "N3", "N7"], "G": ["N3", "O6", "N7"], "C": ["O2", "N3"], "U": ["O2", "O4"], "T": ["O2", "O4"]}
PHOSPHATE_ACCEPTORS = ["OP1", "OP2", "O5'", "O3'"]
RIBOSE_ACCEPTORS = ["O4'", "O2'"]
BASE_EDGES = {
    "A": {"N1": "W", "C2": "WS", "N3": "S", "N6": "WH", "N7": "H", "C8": "H", "O2'": "S"},
    "G": {"N1": "W", "N2": "WS", "N3": "S", "O6": "WH", "N7": "H", "C8": "H", "O2'": "S"},
    "C": {"O2": "WS", "N3": "W", "N4": "WH", "C5": "H", "C6": "H", "O2'": "S"},
    "U": {"O2": "WS", "N3": "W", "O4": "WH", "C5": "H", "C6": "H", "O2'": "S"},
    "T": {"O2": "WS", "N3": "W", "O4": "WH", "C6": "H", "C7": "H"},
}
HBOND_MAX = 4.0
HBOND_ANGLE = (50.0, 130.0)
STACK_MAX_DIST = 6.0
STACK_MAX_NN = 35.0
STACK_MAX_VN = 45.0

# donor atom -> class (BPh and BR share the table); N6/N4: 6 if the acceptor is cis to N1/N3 else 7; N2: 1 / 3
BPH_FIXED = {("A", "C2"): 2, ("A", "C8"): 0, ("G", "N1"): 5, ("G", "C8"): 0, ("C", "C5"): 9, ("C", "C6"): 0,
             ("U", "N3"): 5, ("U", "C5"): 9, ("U", "C6"): 0, ("T", "N3"): 5, ("T", "C6"): 0, ("T", "C7"): 9}
BPH_TORSION = {("A", "N6"): (("N1", "C6"), 6, 7), ("G", "N2"): (("N3", "C2"), 1, 3), ("C", "N4"): (("N3", "C4"), 6, 7)}

VDW = {"C": 1.7, "N": 1.55, "O": 1.52, "P": 1.8}

SAENGER = {
    ("AA", "tWW"): "I", ("AA", "tHH"): "II", ("GG", "tWW"): "III", ("GG", "tSS"): "IV", ("AA", "tWH"): "V", ("AA", "tHW"): "V",
    ("GG", "cWH"): "VI", ("GG", "cHW"): "VI", ("GG", "tWH"): "VII", ("GG", "tHW"): "VII", ("AG", "cWW"): "VIII", ("GA", "cWW"): "VIII",
    ("AG", "cHW"): "IX", ("GA", "cWH"): "IX", ("AG", "tWS"): "X", ("GA", "tSW"): "X", ("AG", "tHS"): "XI", ("GA", "tSH"): "XI",
    ("UU", "tWW"): "XII", ("TT", "tWW"): "XII", ("UU", "cWW"): "XVI", ("TT", "cWW"): "XVI", ("CU", "tWW"): "XVII", ("UC", "tWW"): "XVII",
    ("CU", "cWW"): "XVIII", ("UC", "cWW"): "XVIII", ("CG", "cWW"): "XIX", ("GC", "cWW"): "XIX", ("AU", "cWW"): "XX", ("UA", "cWW"): "XX",
    ("AT", "cWW"): "XX", ("TA", "cWW"): "XX", ("AU", "tWW"): "XXI", ("UA", "tWW"): "XXI", ("AT", "tWW"): "XXI", ("TA", "tWW"): "XXI",
    ("CG", "tWW"): "XXII", ("GC", "tWW"): "XXII", ("AU", "cHW"): "XXIII", ("UA", "cWH"): "XXIII", ("AT", "cHW"): "XXIII", ("TA", "cWH"): "XXIII",
    ("AU", "tHW"): "XXIV", ("UA", "tWH"): "XXIV", ("AT", "tHW"): "XXIV", ("TA", "tWH"): "XXIV", ("AC", "tHW"): "XXV", ("CA", "tWH"): "XXV",
    ("AC", "tWW"): "XXVI", ("CA", "tWW"): "XXVI", ("GU", "tWW"): "XXVII", ("UG", "tWW"): "XXVII", ("GT", "tWW"): "XXVII", ("TG", "tWW"): "XXVII",
    ("GU", "cWW"): "XXVIII", ("UG", "cWW"): "XXVIII", ("GT", "cWW"): "XXVIII", ("TG", "cWW"): "XXVIII",
}
