#!/bin/sh
# Builds /verif/.venv: Python 3.12 overlay venv = repo deps from /venv (via .pth) + solver wheels
# from the offline wheelhouse. Idempotent; offline.
set -e
cd "$(dirname "$0")"
PY=/root/.pyenv/versions/3.12.1/bin/python3.12
[ -x "$PY" ] || PY=/venv/bin/python
if [ ! -x .venv/bin/python ] || ! .venv/bin/python -c "import z3, cvc5, jsonschema" 2>/dev/null; then
  rm -rf .venv
  "$PY" -m venv .venv
  SP=$(.venv/bin/python -c "import sysconfig; print(sysconfig.get_paths()['purelib'])")
  echo "import site; site.addsitedir('/venv/lib/python3.12/site-packages')" > "$SP/_repo_overlay.pth"
  PIP_NO_INDEX=1 .venv/bin/python -m pip install --quiet --no-index --find-links /opt/veriftools/wheels z3-solver cvc5 jsonschema
fi
.venv/bin/python -c "import z3, cvc5, numpy, scipy, pulp, rnapolis.common; print('setup ok: z3', z3.get_version_string())"
# Lean 4 + Mathlib lemmas of C02 (lean/Pigeonhole.lean): checked once here (offline, ~2 min cold) and cached by file hash under
# .cache/lean, so that the quick tier can report the result; the thorough tier re-runs Lean itself. Never fatal for the setup.
timeout 1200 .venv/bin/python -c "import os, sys; os.environ.setdefault('LOGLEVEL', 'CRITICAL'); sys.path.insert(0, '.'); import props.C02 as p; r = p.deductive_extra('thorough', 0); print('lean lemmas:', [x.get('status') for x in r])" 2>/dev/null || echo "lean lemmas: not checked (lean unavailable); the thorough tier will try again"
# Lean lemmas of C12 (lean/History.lean, core Lean) and C01/C16 (lean/Definitional.lean, Mathlib): same caching
timeout 600 .venv/bin/python -c "import os, sys; os.environ.setdefault('LOGLEVEL','CRITICAL'); sys.path.insert(0,'.'); import props.C12 as p, props.C01 as q; print('lean History:', [x.get('status') for x in p.deductive_extra('thorough',0)]); print('lean Definitional:', [x.get('status') for x in q.deductive_extra('thorough',0)])" 2>/dev/null || echo "lean History/Definitional: not checked (lean unavailable)"
