"""Independent oracles for the secondary-structure properties (C01, C02, C07, C12, C13, C16).
They restate the property sentences directly; nothing here is shared with the code under test."""
from __future__ import annotations

import itertools

from gen.pairings import CLOSE, OPEN, bpseq_text, crossing, decode, level_of, pairs_of, stems_of


def make_bpseq(pairing, seq=None):
    from rnapolis.common import BpSeq
    return BpSeq.from_string(bpseq_text(pairing, seq))


def seq_of(pairing, seq=None):
    # mixed-case letters; the phase depends on the pairing so that two structures of equal length carry different sequences
    # (state leaking from one structure to the next would otherwise be invisible in the sequence texts)
    off = sum(pairing) % 10
    return seq or "".join("ACGUacguNn"[(i * 7 + off) % 10] for i in range(len(pairing)))


# ------------------------------------------------------------------------------------------- C01
def lossless(db, pairing, seq, what):
    """property C01 sentence 1 for one produced dot-bracket"""
    errs = []
    n = len(pairing)
    if db.sequence != seq:
        errs.append(f"{what}: sequence differs")
    if len(db.structure) != n:
        errs.append(f"{what}: length {len(db.structure)} != {n}")
        return errs
    if any(c != "." and c not in OPEN and c not in CLOSE for c in db.structure):
        errs.append(f"{what}: character outside the bracket alphabet")
        return errs
    dec = decode(db.structure)
    if dec is None:
        errs.append(f"{what}: unbalanced")
        return errs
    want = pairs_of(pairing)
    if dec != want:
        errs.append(f"{what}: decodes to {sorted(dec)} instead of {sorted(want)}")
    # no two crossing stems (pairs) on the same bracket type
    ps = sorted(want)
    for a, b in itertools.combinations(ps, 2):
        if crossing(a, b) and level_of(db.structure, a[0]) == level_of(db.structure, b[0]):
            errs.append(f"{what}: crossing pairs {a} {b} share a bracket type")
            break
    # the library's own decoder agrees
    got = {(i + 1, j + 1) for i, j in db.pairs}
    if got != want:
        errs.append(f"{what}: DotBracket.pairs = {sorted(got)}")
    return errs


def c01_forward(pairing, seq=None, with_all=True, with_milp=True):
    seq = seq_of(pairing, seq)
    b = make_bpseq(pairing, seq)
    errs = lossless(b.fcfs, pairing, seq, "fcfs")
    if with_milp:
        errs += lossless(b.dot_bracket, pairing, seq, "dot_bracket")
    if with_all:
        for k, db in enumerate(b.all_dot_brackets):
            errs += lossless(db, pairing, seq, f"all_dot_brackets[{k}]")
    return errs


def c01_converse(structure, seq=None):
    """balanced dot-bracket -> BPSEQ -> dot-bracket preserves the set of pairs"""
    from rnapolis.common import BpSeq, DotBracket
    seq = seq or "".join("ACGUacguNn"[(i * 7) % 10] for i in range(len(structure)))
    want = decode(structure)
    errs = []
    d = DotBracket.from_string(seq, structure)
    b = BpSeq.from_dotbracket(d)
    got = {(e.index_, e.pair) for e in b.entries if e.pair > e.index_}
    if got != want:
        errs.append(f"from_dotbracket pairs {sorted(got)} != {sorted(want)}")
    for e in b.entries:
        if e.pair and b.entries[e.pair - 1].pair != e.index_:
            errs.append("from_dotbracket result not symmetric")
            break
    if [e.index_ for e in b.entries] != list(range(1, len(structure) + 1)) or "".join(e.sequence for e in b.entries) != seq:
        errs.append("from_dotbracket numbering/sequence wrong")
    back = b.fcfs
    if decode(back.structure) != want:
        errs.append(f"round trip via fcfs loses pairs: {back.structure}")
    # the same for a balanced dot-bracket the library itself derives from this one (after its pairs have been used above)
    d2 = d.without_pseudoknots()
    want2 = decode(d2.structure)
    b2 = BpSeq.from_dotbracket(d2)
    got2 = {(e.index_, e.pair) for e in b2.entries if e.pair > e.index_}
    if got2 != want2:
        errs.append(f"from_dotbracket of the derived notation {d2.structure}: pairs {sorted(got2)} != {sorted(want2 or [])}")
    elif decode(b2.fcfs.structure) != want2:
        errs.append(f"round trip of the derived notation {d2.structure} loses pairs")
    return errs


def paint(pairing, levels_by_stem):
    st = ["."] * len(pairing)
    for stem, lv in zip(stems_of(pairing), levels_by_stem):
        for (i, j) in stem:
            st[i - 1], st[j - 1] = OPEN[lv], CLOSE[lv]
    return "".join(st)


# ------------------------------------------------------------------------------------------- C02 / C16
def stem_graph(pairing):
    stems = stems_of(pairing)
    adj = {a: set() for a in range(len(stems))}
    for a, b in itertools.combinations(range(len(stems)), 2):
        if crossing(stems[a][0], stems[b][0]):
            adj[a].add(b)
            adj[b].add(a)
    return stems, adj


def objective(stems, levels):
    return sum(len(s) if lv == 0 else -lv * len(s) for s, lv in zip(stems, levels))


def proper_assignments(stems, adj, maxlevel):
    n = len(stems)
    cur = [0] * n

    def rec(a):
        if a == n:
            yield tuple(cur)
            return
        for lv in range(maxlevel):
            if all(cur[b] != lv for b in adj[a] if b < a):
                cur[a] = lv
                yield from rec(a + 1)
    yield from rec(0)


def levels_from_structure(structure, stems):
    return tuple(level_of(structure, s[0][0]) for s in stems)


def greedy_stable(levels, adj):
    """every stem sits on the lowest level not taken by a crossing stem of a lower level"""
    for a, lv in enumerate(levels):
        for k in range(lv):
            if not any(levels[b] == k for b in adj[a]):
                return False
    return True


def c02_check(pairing, seq=None, db=None):
    seq = seq_of(pairing, seq)
    stems, adj = stem_graph(pairing)
    if db is None:
        db = make_bpseq(pairing, seq).dot_bracket
    errs = lossless(db, pairing, seq, "dot_bracket")
    if errs:
        return errs
    lv = levels_from_structure(db.structure, stems)
    for a in adj:
        for b in adj[a]:
            if lv[a] == lv[b]:
                errs.append(f"crossing stems {a},{b} share level {lv[a]}")
    nmax = max((len(v) for v in adj.values()), default=0) + 1
    best = max((objective(stems, asg) for asg in proper_assignments(stems, adj, min(nmax, len(stems)) or 1)), default=0)
    got = objective(stems, lv)
    if got != best:
        errs.append(f"objective {got} != optimum {best} (levels {lv})")
    if not any(adj.values()) and any(lv):
        errs.append("pseudoknot-free structure uses a non-round bracket")
    if not greedy_stable(lv, adj):
        errs.append(f"a stem could be moved to a lower level: {lv}")
    f = make_bpseq(pairing, seq).fcfs
    if got < objective(stems, levels_from_structure(f.structure, stems)):
        errs.append("optimal worse than FCFS")
    return errs


def c02_check_clique(pairing, seq=None):
    """mutually crossing stems (a clique): every proper assignment puts the k stems on k different levels, so the optimum is
    known in closed form - longest stem on level 0, next on level 1, ... (rearrangement inequality) - no enumeration needed"""
    seq = seq_of(pairing, seq)
    stems, adj = stem_graph(pairing)
    k = len(stems)
    if any(len(adj[a]) != k - 1 for a in range(k)):
        return ["generator error: not a clique"]
    db = make_bpseq(pairing, seq).dot_bracket
    errs = lossless(db, pairing, seq, "dot_bracket")
    if errs:
        return errs
    lv = levels_from_structure(db.structure, stems)
    if len(set(lv)) != k:
        return [f"crossing stems share a level: {lv}"]
    lens = sorted((len(st) for st in stems), reverse=True)
    best = lens[0] - sum(j * ln for j, ln in enumerate(lens) if j >= 1)
    got = objective(stems, lv)
    if got != best:
        errs.append(f"objective {got} != optimum {best} of the clique (levels {lv})")
    f = make_bpseq(pairing, seq).fcfs
    if got < objective(stems, levels_from_structure(f.structure, stems)):
        errs.append("optimal worse than FCFS")
    return errs


def greedy_stable_assignments(stems, adj):
    """all proper assignments in which every stem sits on the lowest level not taken by a crossing stem - enumerated with the
    bound level(a) <= degree(a) (a stem on level l has l crossing stems on the l levels below it), which keeps groups of 8-10
    stems tractable; the definition itself (greedy_stable) is applied to every complete candidate"""
    n = len(stems)
    cur = [0] * n

    def rec(a):
        if a == n:
            if greedy_stable(cur, adj):
                yield tuple(cur)
            return
        for lv in range(len(adj[a]) + 1):
            if all(cur[b] != lv for b in adj[a] if b < a):
                cur[a] = lv
                yield from rec(a + 1)
    yield from rec(0)


def c16_expected(pairing):
    """set of structures of all greedy-stable proper assignments"""
    stems, adj = stem_graph(pairing)
    return {paint(pairing, asg) for asg in greedy_stable_assignments(stems, adj)}


def c16_check(pairing, seq=None):
    seq = seq_of(pairing, seq)
    b = make_bpseq(pairing, seq)
    lst = b.all_dot_brackets
    got = [d.structure for d in lst]
    errs = []
    if len(set(got)) != len(got):
        errs.append("all_dot_brackets repeats a member")
    want = c16_expected(pairing)
    if set(got) != want:
        errs.append(f"all_dot_brackets {sorted(set(got))} != greedy-stable set {sorted(want)}")
    if b.fcfs.structure not in got:
        errs.append("FCFS notation missing from all_dot_brackets")
    if b.dot_bracket.structure not in got:
        errs.append("optimal notation missing from all_dot_brackets")
    stems, adj = stem_graph(pairing)
    if not any(adj.values()) and (len(got) != 1 or any(c not in "()." for c in got[0])):
        errs.append("pseudoknot-free structure must give one round-bracket string")
    if any(d.sequence != seq for d in lst):
        errs.append("member with wrong sequence")
    return errs


# ------------------------------------------------------------------------------------------- C07
def c07_check(pairing, seq=None):
    seq = seq_of(pairing, seq)
    n = len(pairing)
    b = make_bpseq(pairing, seq)
    stems, single, hairpins, loops = b.elements
    structure = b.dot_bracket.structure
    errs = []
    want_stems = stems_of(pairing)
    got_stems = []

    def strand_ok(s, what):
        lo, hi = min(s.first, s.last), max(s.first, s.last)
        if not (1 <= lo <= hi <= n):
            errs.append(f"{what}: bounds {s.first}-{s.last}")
            return
        if s.first <= s.last:
            if s.sequence != seq[s.first - 1:s.last] or s.structure != structure[s.first - 1:s.last]:
                errs.append(f"{what}: text is not the slice {s.first}-{s.last}")

    for st in stems:
        s5, s3 = st.strand5p, st.strand3p
        strand_ok(s5, "stem 5'")
        strand_ok(s3, "stem 3'")
        ln = s5.last - s5.first + 1
        if s3.last - s3.first + 1 != ln:
            errs.append("stem strands differ in length")
            continue
        got_stems.append([(s5.first + t, s3.last - t) for t in range(ln)])
    if sorted(map(tuple, got_stems)) != sorted(map(tuple, want_stems)):
        errs.append(f"stems {got_stems} != maximal stacked runs {want_stems}")
    # hairpins: exactly the pairs enclosing only unpaired nucleotides
    want_hp = {(i, j) for (i, j) in pairs_of(pairing) if all(pairing[p - 1] == 0 for p in range(i + 1, j))}
    got_hp = set()
    for h in hairpins:
        strand_ok(h.strand, "hairpin")
        got_hp.add((h.strand.first, h.strand.last))
    if got_hp != want_hp:
        errs.append(f"hairpins {sorted(got_hp)} != {sorted(want_hp)}")
    # loops: closed cycles of >= 2 strands, consecutive ends paired, interiors unpaired
    interior_cover = {}

    def cover(s, what):
        for p in range(s.first + 1, s.last):
            if pairing[p - 1] != 0:
                errs.append(f"{what}: interior position {p} is paired")
            interior_cover.setdefault(p, []).append(what)

    for lp in loops:
        if len(lp.strands) < 2:
            errs.append("loop with fewer than 2 strands")
        for s in lp.strands:
            strand_ok(s, "loop strand")
            cover(s, "loop")
        k = len(lp.strands)
        for t in range(k):
            a, bnext = lp.strands[t], lp.strands[(t + 1) % k]
            if pairing[a.last - 1] != bnext.first:
                errs.append(f"loop not closed: {a.last} is not paired with {bnext.first}")
    for h in hairpins:
        cover(h.strand, "hairpin")
    for ss in single:
        s = ss.strand
        strand_ok(s, "single strand")
        if ss.is5p:
            if s.first != 1:
                errs.append("5' single strand does not start at 1")
            for p in range(s.first, s.last):
                interior_cover.setdefault(p, []).append("5p")
                if pairing[p - 1]:
                    errs.append("5' tail contains a paired nucleotide")
        elif ss.is3p:
            if s.last != n:
                errs.append("3' single strand does not end at N")
            for p in range(s.first + 1, s.last + 1):
                interior_cover.setdefault(p, []).append("3p")
                if pairing[p - 1]:
                    errs.append("3' tail contains a paired nucleotide")
        else:
            cover(s, "single")
    if pairs_of(pairing):
        for p in range(1, n + 1):
            if pairing[p - 1] == 0:
                c = interior_cover.get(p, [])
                if len(c) != 1:
                    errs.append(f"unpaired nucleotide {p} lies in {len(c)} element interiors {c}")
                    break
    return errs


# ------------------------------------------------------------------------------------------- C12
QUERIES = ["str", "pairs", "sequence", "dot_bracket", "fcfs", "all_dot_brackets", "elements", "without_pseudoknots",
           "without_isolated"]


def observe(b, q):
    if q == "str":
        return str(b)
    if q == "pairs":
        return tuple(sorted(b.pairs.items()))
    if q == "sequence":
        return b.sequence
    if q == "dot_bracket":
        return str(b.dot_bracket)
    if q == "fcfs":
        return str(b.fcfs)
    if q == "all_dot_brackets":
        return tuple(sorted(str(d) for d in b.all_dot_brackets))
    if q == "elements":
        st, ss, hp, lp = b.elements
        return (tuple(map(str, st)), tuple(sorted(map(str, ss))), tuple(map(str, hp)), tuple(sorted(map(str, lp))))
    if q == "without_pseudoknots":
        r = b.without_pseudoknots()
        return (str(r), tuple(sorted(r.pairs.items())))
    if q == "without_isolated":
        r = b.without_isolated()
        return (str(r), tuple(sorted(r.pairs.items())))
    raise KeyError(q)


def c12_history(pairing, calls, seq=None):
    seq = seq_of(pairing, seq)
    text = bpseq_text(pairing, seq)
    subject = make_bpseq(pairing, seq)
    errs = []
    for step, q in enumerate(calls):
        fresh = make_bpseq(pairing, seq)
        want = observe(fresh, q)
        got = observe(subject, q)
        if got != want:
            errs.append(f"step {step} {q}: answer differs from a fresh copy after {calls[:step]}")
            break
        if str(subject) != text:
            errs.append(f"step {step} {q}: BPSEQ text of the receiver changed")
            break
        if tuple(sorted(subject.pairs.items())) != tuple(sorted(make_bpseq(pairing, seq).pairs.items())):
            errs.append(f"step {step} {q}: pairs of the receiver changed")
            break
    return errs


def c12_removals(pairing, seq=None):
    seq = seq_of(pairing, seq)
    b = make_bpseq(pairing, seq)
    errs = []
    structure = b.dot_bracket.structure
    want_pk = {(i, j) for (i, j) in pairs_of(pairing) if structure[i - 1] == "("}
    r = make_bpseq(pairing, seq).without_pseudoknots()
    got = {(e.index_, e.pair) for e in r.entries if e.pair > e.index_}
    if got != want_pk or "".join(e.sequence for e in r.entries) != seq:
        errs.append(f"without_pseudoknots pairs {sorted(got)} != round-bracket pairs {sorted(want_pk)}")
    want_iso = {p for s in stems_of(pairing) if len(s) >= 2 for p in s}
    r = make_bpseq(pairing, seq).without_isolated()
    got = {(e.index_, e.pair) for e in r.entries if e.pair > e.index_}
    if got != want_iso or "".join(e.sequence for e in r.entries) != seq:
        errs.append(f"without_isolated pairs {sorted(got)} != pairs in stems of length >= 2 {sorted(want_iso)}")
    for e in r.entries:
        if e.pair and r.entries[e.pair - 1].pair != e.index_:
            errs.append("without_isolated result not symmetric")
            break
    if tuple(sorted(r.pairs.items())) != tuple(sorted([(i, j) for i, j in got] + [(j, i) for i, j in got])):
        errs.append("without_isolated result has a stale pairs dict")
    return errs
