"""C20 oracle: mmCIF item editing changes only its target; CLI output equals the library result."""
import os
import subprocess
import sys
import tempfile

from gen.emit import q


def make_doc(rng):
    """generated multi-category document -> (text, {category: (attrs, rows)})"""
    cats = {}
    words = ["A", "B", "A-2", "x y", "it's", "?", ".", "1", "HOH", "long value", "C", "AA", "b", "7", "O5'", 'say "hi"']
    names = ["atom_site", "entity", "struct_asym", "pdbx_x", "cell"]
    rng.shuffle(names)
    for cn in names[: rng.randint(2, 4)]:
        attrs = rng.sample(["id", "label_asym_id", "auth_asym_id", "type", "details", "value", "name"], rng.randint(2, 5))
        rows = [[rng.choice(words) for _ in attrs] for _ in range(rng.randint(1, 9))]
        cats[cn] = (attrs, rows)
    out = ["data_gen", "#"]
    for cn, (attrs, rows) in cats.items():
        if len(rows) == 1 and rng.random() < .5:
            for a, v in zip(attrs, rows[0]):
                out.append(f"_{cn}.{a}   {q(v)}")
        else:
            out.append("loop_")
            out += [f"_{cn}.{a}" for a in attrs]
            for r in rows:
                out.append(" ".join(q(v) for v in r))
        out.append("#")
    return "\n".join(out) + "\n", cats


def read_doc(text):
    """trusted reader (mmcif library): text -> {category: (attrs, rows)} in file order"""
    from mmcif.io.IoAdapterPy import IoAdapterPy
    with tempfile.NamedTemporaryFile("w", suffix=".cif", delete=False) as f:
        f.write(text)
        p = f.name
    try:
        data = IoAdapterPy().readFile(p)
    finally:
        os.unlink(p)
    if not data:
        return {}
    out = {}
    for name in data[0].getObjNameList():
        o = data[0].getObj(name)
        out[name] = (list(o.getAttributeList()), [list(r) for r in o.getRowList()])
    return out


def check_copy(text, category, src, dst):
    from rnapolis.transformer import copy_from_to
    before = read_doc(text)
    try:
        res = copy_from_to(text, category, src, dst)
    except Exception as e:
        return [f"copy_from_to raised {type(e).__name__}: {e}"]
    if category not in before or src not in before[category][0]:
        return [] if res == text else ["missing category/source item: the file must be returned untouched"]
    after = read_doc(res)
    errs = []
    if sorted(after) != sorted(before):  # the order of categories in the file is not part of the property
        errs.append(f"category set changed: {sorted(before)} -> {sorted(after)}")
    for cn in before:
        if cn != category and after.get(cn) != before[cn]:
            errs.append(f"category {cn} changed although {category} was edited")
    if category in after:
        a0, r0 = before[category]
        a1, r1 = after[category]
        want_attrs = a0 if dst in a0 else a0 + [dst]
        if a1 != want_attrs:
            errs.append(f"items of {category}: {a1} != {want_attrs}")
        elif len(r1) != len(r0):
            errs.append("row count changed")
        else:
            i, j = a1.index(src), a1.index(dst)
            for k, (x, y) in enumerate(zip(r0, r1)):
                if y[j] != x[a0.index(src)]:
                    errs.append(f"row {k}: target {y[j]!r} != source {x[a0.index(src)]!r}")
                    break
                rest0 = [v for c, v in zip(a0, x) if c != dst]
                rest1 = [v for c, v in zip(a1, y) if c != dst]
                if rest0 != rest1:
                    errs.append(f"row {k}: other cells changed {rest0} -> {rest1}")
                    break
    return errs


def check_replace(text, category, column, values):
    from rnapolis.transformer import replace_value
    before = read_doc(text)
    try:
        res, mapping = replace_value(text, category, column, values)
    except Exception as e:
        if category in before and column in before[category][0]:
            distinct = len(set(r[before[category][0].index(column)] for r in before[category][1]))
            if distinct > len(values):
                return []  # alphabet too short: outside the property's quantifier
        return [f"replace_value raised {type(e).__name__}: {e}"]
    if category not in before or column not in before[category][0]:
        return [] if (res == text and mapping == {}) else ["missing category/item: file must be untouched and mapping empty"]
    after = read_doc(res)
    errs = []
    if sorted(after) != sorted(before):
        errs.append("category set changed")
    for cn in before:
        if cn != category and after.get(cn) != before[cn]:
            errs.append(f"category {cn} changed")
    a0, r0 = before[category]
    a1, r1 = after.get(category, ([], []))
    if a1 != a0 or len(r1) != len(r0):
        errs.append("items or row count changed")
        return errs
    i = a0.index(column)
    distinct = len(set(x[i] for x in r0))
    if distinct > len(values):
        # alphabet exhausted yet the call returned normally: the returned mapping can only be injective by luck
        if len(set(mapping.values())) != len(mapping) or len(mapping) != distinct:
            return [f"returned normally with {distinct} distinct values for {len(values)} alphabet characters; mapping {mapping} is not injective"]
        return errs
    want = {}
    for x in r0:
        if x[i] not in want:
            want[x[i]] = values[len(want)]
    if mapping != want:
        errs.append(f"returned mapping {mapping} != first-seen mapping {want}")
    if len(set(values[:len(want)])) == len(want) and len(set(want.values())) != len(want):
        errs.append("mapping not injective")
    for k, (x, y) in enumerate(zip(r0, r1)):
        if y[i] != want[x[i]] or x[:i] + x[i + 1:] != y[:i] + y[i + 1:]:
            errs.append(f"row {k}: {x} -> {y}")
            break
    return errs


def check_cli(text, mode, category, a, b):
    """the command-line tool writes exactly what the library function returns for the input file's content"""
    from rnapolis.transformer import copy_from_to, replace_value
    src_root = os.environ.get("PYVC_SRC_ROOT", "/repo/src")
    with tempfile.TemporaryDirectory() as d:
        inp, outp = os.path.join(d, "in.cif"), os.path.join(d, "out.cif")
        open(inp, "w").write(text)
        args = ["--category", category] + (["--copy-from", a, "--copy-to", b] if mode == "copy" else ["--replace", a, "--values=" + b])  # (= form: an alphabet may start with '-')
        env = dict(os.environ, PYTHONPATH=src_root)
        r = subprocess.run([sys.executable, "-m", "rnapolis.transformer", inp, outp] + args, capture_output=True, text=True, env=env)
        try:
            want = copy_from_to(text, category, a, b) if mode == "copy" else replace_value(text, category, a, b)[0]
        except Exception as e:
            # the library refuses this input (e.g. alphabet exhausted): the tool then has no library result to write
            return [] if r.returncode != 0 else [f"library raised {type(e).__name__} but the CLI exited 0"]
        if r.returncode != 0:
            return [f"CLI exited {r.returncode}: {r.stderr.strip().splitlines()[-1] if r.stderr.strip() else ''}"]
        got = open(outp).read() if os.path.exists(outp) else None
    if got is None:
        return ["CLI wrote no output file"]
    # the library writes through a temp file whose name appears nowhere in the text, so outputs must be identical
    if got != want:
        return [f"CLI output ({len(got)} bytes) differs from the library result ({len(want)} bytes)"]
    return []
