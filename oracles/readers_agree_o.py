"""C15 oracle: one atom table (ours) -> PDB text and mmCIF text (independent emitters) -> four views
   v1/pdb, v1/cif : rnapolis.parser.read_3d_structure
   v2/pdb, v2/cif : rnapolis.parser_v2.parse_pdb_atoms / parse_cif_atoms + rnapolis.tertiary_v2.Structure
which must report the same residues, atoms, coordinates, O3'-P connectivity and |chi|.  The table itself is the reference:
a view that departs from the table while another view does not is a disagreement between readers / formats."""
import functools
import math
import os
import random
import tempfile

import numpy as np

from gen import atomtables_c09 as T, emit, structures as G

VIEWS = ["v1/pdb", "v1/cif", "v2/pdb", "v2/cif"]
ASPECTS = ["residues", "atoms", "connectivity", "chi"]
TEMPLATES = ["1DFU_1_M-N.cif", "1HMH_1_E.cif", "6INQ.cif", "4WTI_1_T-P.cif", "1E7K_1_C.cif", "1ATO.pdb", "184D.cif"]
PURINES = ("A", "G", "DA", "DG")
PYRIMIDINES = ("C", "U", "DC", "DT")
CONNECT = 2.4


# ------------------------------------------------------------------ generated tables
@functools.lru_cache(maxsize=None)
def templates():
    """[[(resname, [(atom, x, y, z)])] per chain]: runs of nucleotides of small corpus files, used only as a supply of realistic geometry"""
    out = []
    for name in TEMPLATES:
        path = os.path.join(G.TESTS, name)
        if not os.path.exists(path):
            continue
        s = G.load(path)
        chains = {}
        for r in s.residues:
            names = {a.name for a in r.atoms}
            if "C1'" in names and len(r.name) <= 3:
                chains.setdefault(r.chain, []).append((r.name, [(a.name, a.x, a.y, a.z) for a in r.atoms if len(a.name) <= 4]))
        out += [c for c in chains.values() if len(c) >= 2]
    assert out, "no template chains"
    return out


def element_of(name):
    return T.element_of(name)


def generated(seed, multi):
    """table without alternate locations and without atoms closer than 0.6 A (the residue-level reader removes <0.5 A clashes: C08)"""
    for attempt in range(20):
        recs, notes = _generated(random.Random(f"{seed}-{multi}-{attempt}"), multi)
        if recs is None:
            continue
        first = recs[0]["model"]
        pts = np.array([(r["x"], r["y"], r["z"]) for r in recs if r["model"] == first])
        from scipy.spatial import cKDTree
        if not cKDTree(pts).query_pairs(0.6):
            return recs, notes
    return None, dict(notes, skipped="no clash-free table in 20 attempts")


def _generated(rng, multi):
    tpl = templates()
    nchains = rng.choice([1, 1, 2, 3])
    chain_ids = rng.sample(T.CHAIN_POOL, nchains)
    far = rng.random() < 0.35
    R = G.random_rotation(rng)
    if far:
        t = np.array([rng.choice([-400.0, -150.0, -95.0, 1050.0, 3000.0]) if rng.random() < 0.7 else rng.uniform(-30, 30) for _ in range(3)])
    else:
        t = np.array([rng.uniform(-60, 60) for _ in range(3)])
    nmodels = rng.choice([2, 2, 3]) if multi else 1
    model_ids = list(range(1, nmodels + 1)) if multi and rng.random() < 0.6 else sorted(rng.sample([1, 2, 3, 5, 8], nmodels))
    if multi and rng.random() < 0.5:
        rng.shuffle(model_ids)  # file order need not be numeric order: "the first model" is the first one LISTED
    if not multi:
        model_ids = [rng.choice([1, 1, 1, 1, 4])]
    skeleton = []  # (record, chain, num, icode, resname, [(atom, xyz)])
    notes = {"breaks": 0, "near": 0, "dropped": 0, "icodes": 0, "far": far, "models": model_ids, "chains": nchains, "het": 0}
    for ci, ch in enumerate(chain_ids):
        src = rng.choice(tpl)
        k = rng.randint(2, min(6, len(src)))
        start = rng.randrange(0, len(src) - k + 1)
        seg = src[start:start + k]
        num = rng.choice([-998, -12, -2, 0, 1, 1, 1, 97, 9990])
        shift = np.zeros(3) + np.array([ci * 40.0, 0.0, 0.0])
        prev_o3 = None
        icode = None
        for j, (resname, atoms) in enumerate(seg):
            if j > 0 and rng.random() < 0.2:
                icode = {None: "A", "A": "B", "B": "C", "C": "D", "D": "E", "E": "F"}[icode]
                notes["icodes"] += 1
            else:
                icode = None
                num += 1 if j else 0
                num += rng.choice([0, 0, 0, 1, 5]) if j else 0
            pts = {a: R @ np.array([x, y, z]) + t + shift for a, x, y, z in atoms}
            # junction surgery: move the rest of the chain so that O3'(prev)-P(this) has a chosen length
            if j > 0 and prev_o3 is not None and "P" in pts and rng.random() < 0.3:
                d = rng.choice([2.39, 2.41, 2.395, 2.405, 2.6, 3.5, 12.0, 1.9])
                v = pts["P"] - prev_o3
                n = np.linalg.norm(v)
                if n > 1e-6:
                    delta = v / n * d - v
                    shift = shift + delta
                    pts = {a: p + delta for a, p in pts.items()}
                    notes["breaks" if d >= 2.4 else "near"] += 1
            keep = list(pts)
            if rng.random() < 0.25:
                victims = rng.sample(keep, rng.randint(1, 3)) if rng.random() < 0.5 else [rng.choice(["P", "O3'", "N9", "N1", "C4", "C2", "O4'", "C1'"])]
                keep = [a for a in keep if a not in victims] or keep
                notes["dropped"] += 1
            if rng.random() < 0.15:
                rng.shuffle(keep)
            prev_o3 = pts.get("O3'") if "O3'" in keep else None
            skeleton.append(("ATOM", ch, num, icode, resname, [(a, pts[a]) for a in keep]))
        over = max(0, num - 9999)  # keep the chain's numbers inside the 4-column field
        if over:
            skeleton = [(rec, c, (n - over if c == ch else n), ic, rn, at) for rec, c, n, ic, rn, at in skeleton]
    for _ in range(rng.choice([0, 0, 1, 2])):
        ch = rng.choice(chain_ids)
        nm, el, _c = rng.choice(T.IONS + [("O", "O", None)])
        notes["het"] += 1
        skeleton.append(("HETATM", ch, rng.randint(200, 9999), None, "HOH" if nm == "O" else nm, [(nm, t + np.array([rng.uniform(-30, 30) for _ in range(3)]))]))
    recs = []
    serial = 0
    for mi, m in enumerate(model_ids):
        label_seq = {}
        wobble = np.array([0.0, 0.0, 0.0]) if mi == 0 else np.array([rng.uniform(-3, 3) for _ in range(3)])
        for record, ch, num, icode, resname, atoms in skeleton:
            key = (ch, num, icode)
            if key not in label_seq:
                label_seq[key] = len([1 for kk in label_seq if kk[0] == ch]) + 1
            for a, p in atoms:
                serial += 1
                x, y, z = (round(float(c), 3) for c in p + wobble)
                el = element_of(a) if record == "ATOM" else (a if a != "O" else "O")
                recs.append(dict(record=record, serial=serial, name=a, altloc=None, resname=resname, chain=ch, resnum=num, icode=icode, x=x, y=y, z=z,
                                 occ=1.0, bfac=round(rng.uniform(0, 90), 2), element=el, charge=None, model=m, label_asym=ch,
                                 label_seq=(None if record == "HETATM" else label_seq[key])))
    ok = all(-999.999 <= v <= 9999.999 for r in recs for v in (r["x"], r["y"], r["z"]))
    notes["wide"] = any(v <= -100 or v >= 1000 for r in recs for v in (r["x"], r["y"], r["z"]))
    return (recs if ok else None), notes


@functools.lru_cache(maxsize=64)
def corpus_table(name):
    """first-model, single-conformer atoms of a corpus file as our own records; chains renamed to one character when needed"""
    s = G.load(os.path.join(G.TESTS, name))
    base = emit.from_structure(s)
    chains = list(dict.fromkeys(r["chain"] for r in base))
    if len(chains) > len(T.CHAIN_POOL):
        return None, {"skipped": "more than 62 chains"}
    cmap = {c: (c if all(len(x) == 1 and x.strip() for x in chains) else T.CHAIN_POOL[i]) for i, c in enumerate(chains)}
    recs = []
    label_seq = {}
    for k, r in enumerate(base, 1):
        if len(r["name"]) > 4 or " " in r["name"]:
            continue
        if len(r["resname"]) > 3 or not (-999 <= r["resnum"] <= 9999) or k > 99999 or not all(-999.999 <= r[c] <= 9999.999 for c in "xyz"):
            return None, {"skipped": "outside PDB limits"}
        ch = cmap[r["chain"]]
        key = (ch, r["resnum"], r["icode"])
        if key not in label_seq:
            label_seq[key] = len([1 for kk in label_seq if kk[0] == ch]) + 1
        recs.append(dict(record="ATOM", serial=k, name=r["name"], altloc=None, resname=r["resname"], chain=ch, resnum=r["resnum"], icode=r["icode"],
                         x=round(r["x"], 3), y=round(r["y"], 3), z=round(r["z"], 3), occ=1.0, bfac=0.0, element=element_of(r["name"]), charge=None, model=1,
                         label_asym=ch, label_seq=label_seq[key]))
    return recs, {"corpus": True, "models": [1]}


def table_of(case):
    kind, _, arg = case.partition(":")
    if kind == "g":
        return generated(int(arg), False)
    if kind == "m":
        return generated(int(arg), True)
    return corpus_table(arg)


# ------------------------------------------------------------------ reference computed from the table
def dihedral(p0, p1, p2, p3):
    b0, b1, b2 = p0 - p1, p2 - p1, p3 - p2
    n = np.linalg.norm(b1)
    if n < 1e-9:
        return math.nan
    b1 = b1 / n
    v = b0 - np.dot(b0, b1) * b1
    w = b2 - np.dot(b2, b1) * b1
    if np.linalg.norm(v) < 1e-9 or np.linalg.norm(w) < 1e-9:
        return math.nan
    return math.atan2(np.dot(np.cross(b1, v), w), np.dot(v, w))


def reference(recs, model):
    """residues of `model` in table order: [(key, {atom: [xyz, ...]})], chain-consecutive pairs with their O3'-P verdict, |chi|"""
    residues = []
    for r in recs:
        if r["model"] != model:
            continue
        key = (r["chain"], r["resnum"], r["icode"], r["resname"])
        if not residues or residues[-1][0] != key:
            residues.append((key, {}))
        residues[-1][1].setdefault(r["name"], []).append((r["x"], r["y"], r["z"]))
    pairs = {}
    for (ka, aa), (kb, ab) in zip(residues, residues[1:]):
        if ka[0] != kb[0]:
            continue
        if "O3'" in aa and "P" in ab:
            d = math.dist(aa["O3'"][0], ab["P"][0])
            pairs[(ka, kb)] = (d < CONNECT, d)
        else:
            pairs[(ka, kb)] = (False, None)
    chi = {}
    for key, atoms in residues:
        quad = ("O4'", "C1'", "N9", "C4") if key[3] in PURINES else ("O4'", "C1'", "N1", "C2") if key[3] in PYRIMIDINES else None
        if quad and all(a in atoms for a in quad):
            v = dihedral(*(np.array(atoms[a][0]) for a in quad))
            if not math.isnan(v):
                chi[key] = abs(v)
    return residues, pairs, chi


def seg_key(seg):
    return [(k[0], k[1], k[2] or "", k[3]) for k in seg]


def segments_from(order, connected):
    """maximal runs (length >= 2) of connected residues per chain, residues sorted by (number, insertion code or '')"""
    by_chain = {}
    for key in order:
        by_chain.setdefault(key[0], []).append(key)
    segs = []
    for keys in by_chain.values():
        keys = sorted(keys, key=lambda k: (k[1], k[2] or ""))
        cur = []
        for k in keys:
            if cur and connected(cur[-1], k):
                cur.append(k)
            else:
                if len(cur) > 1:
                    segs.append(tuple(cur))
                cur = [k]
        if len(cur) > 1:
            segs.append(tuple(cur))
    return sorted(segs, key=seg_key)


# ------------------------------------------------------------------ the four views
def _key(chain, num, icode, name):
    icode = None if icode is None or (isinstance(icode, float) and math.isnan(icode)) else str(icode)
    return (str(chain), int(num), icode, str(name))


def view_v1(path):
    from rnapolis.parser import read_3d_structure
    with open(path) as f:
        s = read_3d_structure(f)
    res = {}
    order = []
    objs = {}
    for r in s.residues:
        key = _key(r.auth.chain, r.auth.number, r.auth.icode, r.auth.name) if r.auth is not None else _key(r.label.chain, r.label.number, None, r.label.name)
        order.append(key)
        atoms = {}
        for a in r.atoms:
            atoms.setdefault(a.name, []).append((float(a.x), float(a.y), float(a.z)))
        res.setdefault(key, []).append(atoms)
        objs[key] = r
    chi = {}
    for key, r in objs.items():
        try:
            c = float(r.chi)
        except Exception:
            c = math.nan
        if not math.isnan(c):
            chi[key] = abs(c)
    return {"order": order, "residues": res, "connected": lambda a, b: bool(objs[a].is_connected(objs[b])), "chi": chi, "segments": None, "has": lambda k: k in objs,
            "models": {key: sorted({a.model for a in r.atoms}) for key, r in objs.items()}}


def view_v2(path, fmt):
    from rnapolis.parser_v2 import parse_cif_atoms, parse_pdb_atoms
    from rnapolis.tertiary_v2 import Structure
    with open(path) as f:
        df = parse_pdb_atoms(f) if fmt == "pdb" else parse_cif_atoms(f)
    s = Structure(df)
    res = {}
    order = []
    objs = {}
    models = {}
    mcol = "model" if fmt == "pdb" else "pdbx_PDB_model_num"
    for r in s.residues:
        key = _key(r.chain_id, r.residue_number, r.insertion_code, r.residue_name)
        order.append(key)
        atoms = {}
        for a in r.atoms_list:
            atoms.setdefault(str(a.name), []).append(tuple(float(c) for c in a.coordinates))
        res.setdefault(key, []).append(atoms)
        objs[key] = r
        models[key] = sorted({int(m) for m in r.atoms[mcol]}) if mcol in r.atoms.columns else []
    segs = sorted((tuple(_key(r.chain_id, r.residue_number, r.insertion_code, r.residue_name) for r in seg) for seg in s.connected_residues), key=seg_key)
    chi = {}
    ta = s.torsion_angles
    for row in ta.to_dict("records"):
        key = _key(row["chain_id"], row["residue_number"], row["insertion_code"], row["residue_name"])
        c = row.get("chi")
        if c is not None and not (isinstance(c, float) and math.isnan(c)):
            chi[key] = abs(float(c))
    return {"order": order, "residues": res, "connected": lambda a, b: bool(objs[a].is_connected(objs[b])), "chi": chi, "segments": segs, "has": lambda k: k in objs,
            "models": models, "chi_rows": {_key(r["chain_id"], r["residue_number"], r["insertion_code"], r["residue_name"]) for r in ta.to_dict("records")}}


def compare_view(tag, view, ref, nmodels_in_table, res):
    """append '<kind>:<view>: ...' errors to res[aspect]"""
    residues, pairs, chi = ref
    want = dict(residues)
    want_keys = [k for k, _ in residues]
    got = view["residues"]
    merged = [k for k, ms in view["models"].items() if len(ms) > 1]
    pre = "multi-model-merge" if merged else None

    def err(aspect, kind, msg):
        if len(res[aspect]) < 6:
            merge = pre if kind == "atom-names" else None  # only the doubled atom lists are the merge itself; other departures keep their own tag
            res[aspect].append(f"{merge or kind}:{tag}: {msg}" + (f" [residue objects hold atoms of models {view['models'][merged[0]]} at once]" if pre else ""))
    # residues
    dup = [k for k, v in got.items() if len(v) > 1]
    missing = [k for k in want_keys if k not in got]
    extra = [k for k in got if k not in want]
    if missing or extra or dup:
        hint = ""
        if missing and extra and len(missing) == len(extra):
            hint = f"; e.g. table has {missing[0]}, view has {extra[0]}"
        err("residues", "residue-ids", f"{len(missing)} residues of the table not reported, {len(extra)} reported that are not in the table, {len(dup)} reported twice{hint}"
            + (f"; missing {missing[:2]}" if missing and not hint else "") + (f"; extra {extra[:2]}" if extra and not hint else ""))
    # atoms and coordinates
    for k in want_keys:
        if k not in got:
            continue
        a_got, a_want = got[k][0], want[k]
        names_got = sorted(n for n, v in a_got.items() for _ in v)
        names_want = sorted(n for n, v in a_want.items() for _ in v)
        if names_got != names_want:
            only_t = [n for n in names_want if n not in a_got]
            only_v = [n for n in names_got if n not in a_want]
            rep = [n for n, v in a_got.items() if len(v) != len(a_want.get(n, v))]
            err("atoms", "atom-names", f"residue {k}: table has {len(names_want)} atoms, view {len(names_got)}; only in table {only_t[:3]}, only in view {only_v[:3]}, different multiplicity {rep[:3]}")
            continue
        for n, pts in a_want.items():
            if any(max(abs(g - w) for g, w in zip(pg, pw)) > 1e-9 for pg, pw in zip(sorted(a_got[n]), sorted(pts))):
                err("atoms", "coordinates", f"residue {k} atom {n}: table {pts[0]}, view {a_got[n][0]}")
                break
    # connectivity of chain-consecutive residues + segments
    for (ka, kb), (verdict, d) in pairs.items():
        if view["has"](ka) and view["has"](kb):
            c = view["connected"](ka, kb)
            if c != verdict:
                err("connectivity", "is-connected", f"{ka} -> {kb}: O3'-P distance in the table is {None if d is None else round(d, 4)} ({'connected' if verdict else 'not connected'}), view says {c}")
    if view["segments"] is not None:
        ref_segs = segments_from(want_keys, lambda a, b: pairs.get((a, b), (None,))[0] if (a, b) in pairs else ref_connected(want, a, b))
        if view["segments"] != ref_segs:
            only_r = [s_ for s_ in ref_segs if s_ not in view["segments"]]
            only_v = [s_ for s_ in view["segments"] if s_ not in ref_segs]
            err("connectivity", "segments", f"connected_residues: {len(view['segments'])} segments, table gives {len(ref_segs)}; only table {[[x[:3] for x in s_] for s_ in only_r[:1]]}, only view {[[x[:3] for x in s_] for s_ in only_v[:1]]}")
    # |chi|
    rows = view.get("chi_rows")
    for k, c in chi.items():
        if not view["has"](k) or (rows is not None and k not in rows):
            continue  # the table-level reader lists torsions of residues inside connected segments only
        if k not in view["chi"]:
            err("chi", "chi-undefined", f"residue {k}: |chi| from the table is {c:.6f}, view gives no value")
        elif abs(view["chi"][k] - c) > 1e-6:
            err("chi", "chi-value", f"residue {k}: |chi| from the table is {c:.6f}, view gives {view['chi'][k]:.6f}")
    for k, c in view["chi"].items():
        if k in want and k not in chi and want[k] and k[3] in PURINES + PYRIMIDINES:
            err("chi", "chi-spurious", f"residue {k}: view gives |chi| = {c:.6f} but the table lacks one of the four atoms")


def ref_connected(want, a, b):
    if "O3'" in want[a] and "P" in want[b]:
        return math.dist(want[a]["O3'"][0], want[b]["P"][0]) < CONNECT
    return False


def cross_check(views, res):
    """literal reading of the property: the views against each other (chi and connectivity on residues both report)"""
    names = [v for v in VIEWS if v in views]
    for i, a in enumerate(names):
        for b in names[i + 1:]:
            va, vb = views[a], views[b]
            for k in set(va["chi"]) & set(vb["chi"]):
                if abs(va["chi"][k] - vb["chi"][k]) > 1e-6 and len(res["chi"]) < 6:
                    res["chi"].append(f"chi-disagree:{a}~{b}: residue {k}: |chi| {va['chi'][k]:.6f} vs {vb['chi'][k]:.6f}")
                    break


@functools.lru_cache(maxsize=8192)
def evaluate(case):
    recs, notes = table_of(case)
    res = {a: [] for a in ASPECTS}
    if recs is None:
        return res
    models = list(dict.fromkeys(r["model"] for r in recs))
    ref = reference(recs, models[0])
    rng = random.Random(case)
    # half of the generated mmCIF texts number label_seq_id like auth_seq_id (files converted from PDB data, the library's own write_cif among
    # them): residues 10 and 10A then share the label identifier and differ in the author identifier only
    cif_recs = [dict(r, label_seq=r["resnum"]) if r["label_seq"] is not None else r for r in recs] if not case.startswith("corpus:") and random.Random(case + "/label").random() < 0.5 else recs
    texts = {"pdb": T.to_pdb(recs, ter=rng.random() < 0.7), "cif": T.to_cif(cif_recs, null_icode=rng.choice(["?", "."]), charge_column=rng.random() < 0.3, auth_atom=True)}
    views = {}
    with tempfile.TemporaryDirectory(prefix="c15-") as tmp:
        for fmt, text in texts.items():
            path = os.path.join(tmp, f"t.{fmt}")
            with open(path, "w") as f:
                f.write(text)
            for gen, fn in (("v1", lambda: view_v1(path)), ("v2", lambda: view_v2(path, fmt))):
                tag = f"{gen}/{fmt}"
                try:
                    views[tag] = fn()
                except Exception as e:
                    res["residues"].append(f"raised:{tag}: {type(e).__name__}: {str(e)[:200]}")
                    continue
                try:
                    compare_view(tag, views[tag], ref, len(models), res)
                except Exception as e:
                    res["residues"].append(f"raised-in-accessors:{tag}: {type(e).__name__}: {str(e)[:200]}")
        cross_check(views, res)
    # a departure shared by all four views is no disagreement between them, but it leaves nothing to compare: say so
    def split(e):
        head, _, rest = e.partition(": ")
        kind, _, tag = head.partition(":")
        return (kind, rest), tag
    for a in ASPECTS:
        who = {}
        for e in res[a]:
            k, tag = split(e)
            who.setdefault(k, set()).add(tag)
        res[a] = [("unanimous-" + e) if who[split(e)[0]] >= set(VIEWS) else e for e in res[a]]
    return res


def aspect_oracle(aspect):
    return lambda case: evaluate(case)[aspect]


def notes_of(case):
    return table_of(case)[1]


def replay_case(aspect, case):
    evaluate.cache_clear()
    return evaluate(case)[aspect]
