"""C08 oracle: what reading a PDB / mmCIF atom table must yield, computed from the generated table itself."""
import math
import os
import random
import tempfile

from gen import emit

NT_ATOMS = ["P", "OP1", "OP2", "O5'", "C5'", "C4'", "O4'", "C3'", "O3'", "C2'", "O2'", "C1'", "N9", "C8", "N7", "C5", "C6", "O6", "N1", "C2", "N2", "N3", "C4"]


def make_table(rng, nmodels=None):
    """random well-formed atom table (list of records, file order)"""
    nmodels = nmodels or rng.choice([1, 1, 2, 3])
    model_ids = rng.sample([1, 2, 3, 4, 5, 7], nmodels)  # file order; half of the tables list their models out of numeric order
    if rng.random() < 0.5:
        model_ids.sort()
    chains = rng.sample(["A", "B", "C"], rng.randint(1, 2))
    # a third of the tables have every atom fully occupied (no alternate locations; injected clashes are between full atoms)
    all_full = rng.random() < 0.34
    skeleton = []
    for ch in chains:
        num = rng.choice([-3, 1, 1, 98, 996])
        for _ in range(rng.randint(2, 5)):
            icode = rng.choice([None, None, None, "A", "B"])
            if icode is None:
                num += rng.choice([1, 1, 2])
            while any(k[:3] == (ch, num, icode) for k in skeleton):
                num += 1  # residue identities are unique within a chain (a file that repeats one is outside the property)
            het = rng.random() < .12
            resname = "HOH" if het else rng.choice(["G", "A", "C", "U", "DG", "PSU"])
            if icode is not None and skeleton and skeleton[-1][0] == ch and not het and not skeleton[-1][4] and rng.random() < 0.5:
                resname = skeleton[-1][3]  # an inserted residue of the same kind as the one it follows (G10, G10A)
            names = ["O"] if het else rng.sample(NT_ATOMS, rng.randint(3, 9))
            skeleton.append((ch, num, icode, resname, het, names))
    recs = []
    for m in model_ids:
        base = [rng.uniform(-20, 20) for _ in range(3)]
        for ch, num, icode, resname, het, names in skeleton:
            cx, cy, cz = (b + rng.uniform(-60, 60) for b in base)
            placed = []
            for nm in names:
                x, y, z = (round(c + rng.uniform(-4, 4), 3) for c in (cx, cy, cz))
                # keep generated atoms >= 0.8 A apart unless a clash is injected on purpose
                while any(math.dist((x, y, z), p) < 0.8 for p in placed):
                    x, y, z = (round(c + rng.uniform(-4, 4), 3) for c in (cx, cy, cz))
                placed.append((x, y, z))
                r = dict(model=m, chain=ch, resnum=num, icode=icode, resname=resname, name=nm, x=x, y=y, z=z, occ=1.0, altloc=None,
                         element=nm[0], het=het, bfac=round(rng.uniform(0, 80), 2), kind="plain")
                u = rng.random()
                if u < 0.10 and not all_full:  # alternate location: second copy of the same name, different occupancy
                    o1 = rng.choice([0.6, 0.7, 0.35, 0.5])
                    r.update(occ=o1, altloc="A", kind="alt")
                    r2 = dict(r, x=round(x + 0.9, 3), occ=round(1 - o1, 2), altloc="B")
                    while any(math.dist((r2["x"], y, z), p) < 0.8 for p in placed):
                        r2["x"] = round(r2["x"] + 0.5, 3)
                    placed.append((r2["x"], y, z))
                    recs += [r, r2]
                    continue
                recs.append(r)
                if u > (0.85 if all_full else 0.93) and not het:  # a different atom closer than 0.5 A
                    o2 = 1.0 if all_full else rng.choice([0.3, 0.5, 1.0, 0.0])
                    nm2 = rng.choice([n for n in NT_ATOMS if n not in names] or ["C7"])
                    if all(q["name"] != nm2 for q in recs if (q["model"], q["chain"], q["resnum"], q["icode"]) == (m, ch, num, icode)):
                        recs.append(dict(r, name=nm2, element=nm2[0], x=round(x + 0.2, 3), y=round(y + 0.1, 3), occ=o2, kind="clash"))
    return recs, model_ids


def expected(recs, model):
    """residues in file order for `model`: [(chain, num, icode, resname, {name: [(x,y,z,occ) candidates]})] with the
    duplicate rule (highest occupancy; ties leave the choice open) and the 0.5 A rule applied"""
    rs = [r for r in recs if r["model"] == model]
    # duplicates
    groups = {}
    order = []
    for r in rs:
        key = (r["chain"], r["resnum"], r["icode"], r["resname"], r["name"])
        if key not in groups:
            order.append(key)
        groups.setdefault(key, []).append(r)
    kept = []
    for key in order:
        g = groups[key]
        best = max(x["occ"] for x in g)
        kept.append((key, [x for x in g if x["occ"] == best]))
    # clashes: among kept atoms closer than 0.5 A only one of highest occupancy survives
    dropped, open_choice = set(), set()
    flat = [(k, c[0]) for k, c in kept]
    for i in range(len(flat)):
        for j in range(i + 1, len(flat)):
            a, b = flat[i][1], flat[j][1]
            d = math.dist((a["x"], a["y"], a["z"]), (b["x"], b["y"], b["z"]))
            if d < 0.5 - 1e-6:
                if a["occ"] > b["occ"]:
                    dropped.add(flat[j][0])
                elif b["occ"] > a["occ"]:
                    dropped.add(flat[i][0])
                else:
                    open_choice.add(frozenset((flat[i][0], flat[j][0])))
    residues = []
    for key, cands in kept:
        rid = key[:4]
        if not residues or residues[-1][0] != rid:
            residues.append((rid, {}))
        residues[-1][1][key[4]] = (cands, key in dropped, [oc for oc in open_choice if key in oc])
    return residues


def read(text, suffix, model):
    from rnapolis.parser import read_3d_structure
    with tempfile.NamedTemporaryFile("w", suffix=suffix, delete=False) as f:
        f.write(text)
        p = f.name
    try:
        with open(p) as fh:
            return read_3d_structure(fh, model)
    finally:
        os.unlink(p)


def compare(structure, want, what):
    errs = []
    got = [((r.auth.chain, r.auth.number, r.auth.icode, r.auth.name), r) for r in structure.residues]
    want_ids = [rid for rid, atoms in want if any(not dropped or oc for (_, dropped, oc) in atoms.values())]
    got_ids = [g[0] for g in got]
    if got_ids != [w for w in want_ids]:
        # residues whose every atom was dropped may legitimately vanish; compare after removing possibly-empty ones
        errs.append(f"{what}: residues {got_ids[:6]}.. != expected {want_ids[:6]}.. ({len(got_ids)} vs {len(want_ids)})")
        return errs
    wd = dict(want)
    for rid, r in got:
        atoms = wd[rid]
        seen = {}
        for a in r.atoms:
            seen.setdefault(a.name, []).append(a)
        for name, lst in seen.items():
            if len(lst) > 1:
                errs.append(f"{what}: atom {name} of {rid} returned {len(lst)} times")
            if name not in atoms:
                errs.append(f"{what}: unexpected atom {name} in {rid}")
                continue
            cands, dropped, oc = atoms[name]
            a = lst[0]
            if dropped and not oc:
                errs.append(f"{what}: atom {name} of {rid} should have been removed (closer than 0.5 A to an atom of higher occupancy)")
            if not any(abs(a.x - c["x"]) < 1e-9 and abs(a.y - c["y"]) < 1e-9 and abs(a.z - c["z"]) < 1e-9 for c in cands):
                errs.append(f"{what}: atom {name} of {rid} has coordinates {(a.x, a.y, a.z)}, not the highest-occupancy copy {[(c['x'], c['y'], c['z'], c['occ']) for c in cands]}")
        for name, (cands, dropped, oc) in atoms.items():
            if name not in seen and not dropped and not oc:
                errs.append(f"{what}: atom {name} of {rid} is missing")
    # open choices: of each tied clashing pair (equal occupancy, closer than 0.5 A) never both survive; exactly one does when the
    # pair is isolated (neither atom clashes with a third one)
    present = {(rid, a.name) for rid, r in got for a in r.atoms}
    ties = {}
    for rid, atoms in want:
        for name, (cands, dropped, oc) in atoms.items():
            for pair in oc:
                ties.setdefault(pair, {})[(rid, name)] = (dropped, len(oc))
    for pair, members in ties.items():
        if len(members) != 2:
            continue
        alive = [k for k in members if k in present]
        if len(alive) == 2:
            errs.append(f"{what}: atoms {alive[0][1]} of {alive[0][0]} and {alive[1][1]} of {alive[1][0]} are closer than 0.5 A (equal occupancy) and both were kept")
        elif not alive and all(not d and n == 1 for d, n in members.values()):
            errs.append(f"{what}: both atoms of an isolated tied clash ({sorted(k[1] for k in members)}) were removed")
    return errs


def check_case(seed):
    rng = random.Random(seed)
    recs, model_ids = make_table(rng)
    errs = []
    null_icode = rng.choice(["?", "."])
    variants = [("pdb", emit.to_pdb(recs), ".pdb"), (f"cif[{null_icode}]", emit.to_cif(recs, null_icode=null_icode), ".cif")]
    if seed % 3 == 0:
        # label_seq_id numbered like auth_seq_id (files converted from PDB data): residues 10 and 10A share the label identifier
        variants.append(("cif[label=auth]", emit.to_cif([dict(r, label_seq=r["resnum"]) for r in recs], null_icode=null_icode), ".cif"))
    for tag, text, suffix in variants:
        for m in [None] + model_ids:
            try:
                s = read(text, suffix, m)
            except Exception as e:
                errs.append(f"{tag} model={m}: read_3d_structure raised {type(e).__name__}: {e}")
                continue
            want = expected(recs, model_ids[0] if m is None else m)
            errs += compare(s, want, f"{tag} model={m}")
            for r in s.residues:
                if any(a.model != (model_ids[0] if m is None else m) for a in r.atoms):
                    errs.append(f"{tag} model={m}: returned an atom of another model")
                    break
    return errs


def check_occupancy_markers(seed):
    """mmCIF with absent occupancies ('?' or '.') incl. on a repeated atom"""
    rng = random.Random(seed)
    recs, model_ids = make_table(rng, nmodels=1)
    marker = rng.choice(["?", "."])
    for r in recs:
        if r["kind"] == "plain" and rng.random() < .3:
            r["occ_text"] = marker
    text = emit.to_cif([dict(r, occ=r.get("occ_text", r["occ"])) for r in recs], null_icode=rng.choice(["?", "."]))
    try:
        s = read(text, ".cif", None)
    except Exception as e:
        return [f"absent occupancy marker {marker!r}: read_3d_structure raised {type(e).__name__}: {e}"]
    n_expected = len({(r["chain"], r["resnum"], r["icode"], r["resname"], r["name"]) for r in recs if r["kind"] != "clash"})
    n_got = sum(len(r.atoms) for r in s.residues)
    if n_got < n_expected - sum(r["kind"] == "clash" for r in recs) - 2:
        return [f"absent occupancy marker {marker!r}: {n_got} atoms read, about {n_expected} expected"]
    return []
