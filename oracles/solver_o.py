"""C13: solver configurations x fault behaviours, driven through the real dot_bracket / convert_to_dot_bracket."""
import contextlib

import pulp

from gen.pairings import decode, pairs_of
from oracles.common_o import lossless, make_bpseq, seq_of

FAULTS = ["ok", "raises", "not-solved", "infeasible", "unbounded", "undefined"]
CONFIGS = ["highs", "cbc", "none"]
STATUS = {"not-solved": pulp.LpStatusNotSolved, "infeasible": pulp.LpStatusInfeasible, "unbounded": pulp.LpStatusUnbounded,
          "undefined": pulp.LpStatusUndefined}


class FakeSolver(pulp.LpSolver):
    name = "FAKE"

    def __init__(self, fault, **kw):
        super().__init__(**kw)
        self.fault = fault
        self.calls = 0

    def available(self):
        return True

    def actualSolve(self, lp, **kw):
        self.calls += 1
        if self.fault == "raises":
            raise pulp.PulpSolverError("injected solver failure")
        if self.fault == "ok":
            return pulp.PULP_CBC_CMD(msg=False).actualSolve(lp)
        lp.assignStatus(STATUS[self.fault])
        return STATUS[self.fault]


@contextlib.contextmanager
def configuration(config, fault):
    """patch pulp the way each deployment looks to the library"""
    saved = (pulp.HiGHS_CMD, pulp.LpSolverDefault)
    fake = FakeSolver(fault)
    try:
        if config == "highs":
            pulp.HiGHS_CMD = lambda *a, **k: fake
        else:
            class _NoHighs:
                def __init__(self, *a, **k):
                    pass

                def available(self):
                    return False
            pulp.HiGHS_CMD = _NoHighs
            pulp.LpSolverDefault = fake if config == "cbc" else None
        yield fake
    finally:
        pulp.HiGHS_CMD, pulp.LpSolverDefault = saved


def c13_check(case):
    pairing, config, fault = case
    seq = seq_of(pairing)
    errs = []
    with configuration(config, fault) as fake:
        b = make_bpseq(pairing, seq)
        try:
            db = b.dot_bracket
        except Exception as e:
            return [f"dot_bracket raised {type(e).__name__}: {e} under config={config} fault={fault}"]
        errs += lossless(db, pairing, seq, f"dot_bracket[{config},{fault}]")
        fcfs = make_bpseq(pairing, seq).fcfs
        if (config == "none" or fault != "ok") and db.structure != fcfs.structure:
            errs.append(f"solver cannot deliver an optimum ({config},{fault}) but result {db.structure} is not FCFS {fcfs.structure}")
        # direct API with an explicit solver object / None
        b2 = make_bpseq(pairing, seq)
        try:
            db2 = b2.convert_to_dot_bracket(None if config == "none" else FakeSolver(fault))
            errs += lossless(db2, pairing, seq, f"convert_to_dot_bracket[{config},{fault}]")
            if (config == "none" or fault != "ok") and db2.structure != fcfs.structure:
                errs.append("convert_to_dot_bracket fallback is not FCFS")
        except Exception as e:
            errs.append(f"convert_to_dot_bracket raised {type(e).__name__}: {e} under config={config} fault={fault}")
    return errs
