"""Independent O(n^2) oracles for the 3D annotation properties (C03, C04, C11, C17).
Written from the property statements and the pinned tables in spec/tables.py; reads only public fields of the
residue/atom objects (names, coordinates, identifiers) - no function of the annotator is reused."""
from __future__ import annotations

import itertools
import math

import numpy as np

from spec import tables as T

EPS = 1e-6


# ------------------------------------------------------------------ helpers
def atom_of(res, name):
    for a in res.atoms:
        if a.name == name:
            return a
    return None


def xyz(a):
    return np.array([a.x, a.y, a.z], dtype=float)


def rkey(res):
    return (res.chain, res.number, res.icode or " ")


def rid(res):
    return f"{res.chain}.{res.one_letter_name}{res.number}{res.icode or ''}"


def normal(res):
    if res.one_letter_name in "AG":
        names = ("N9", "N7", "N3")
    else:
        names = ("N1", "C4", "O2")
    ats = [atom_of(res, n) for n in names]
    if any(a is None for a in ats):
        return None
    o, p, q = map(xyz, ats)
    n = np.cross(p - o, q - o)
    ln = np.linalg.norm(n)
    return n / ln


def angle_deg(u, v):
    c = float(np.dot(u, v) / (np.linalg.norm(u) * np.linalg.norm(v)))
    return math.degrees(math.acos(max(-1.0, min(1.0, c))))


def centroid(res):
    pts = [xyz(a) for a in (atom_of(res, n) for n in T.BASE_ATOMS.get(res.one_letter_name, [])) if a is not None]
    if not pts:
        return None
    return sum(pts) / len(pts)


def torsion(p1, p2, p3, p4):
    b1, b2, b3 = p2 - p1, p3 - p2, p4 - p3
    n1, n2 = np.cross(b1, b2), np.cross(b2, b3)
    return math.degrees(math.atan2(np.linalg.norm(b2) * np.dot(b1, n2), np.dot(n1, n2)))


def same_residue(a, b):
    return (a.label is not None and a.label == b.label) or (a.auth is not None and a.auth == b.auth)


def tri(value, lo=None, hi=None):
    """three-valued threshold test with the property's 1e-6 undecided band: True / False / None"""
    res = True
    if lo is not None:
        if value < lo - EPS:
            return False
        if value <= lo + EPS:
            res = None
    if hi is not None:
        if value > hi + EPS:
            return False
        if value >= hi - EPS:
            res = None
    return res


# ------------------------------------------------------------------ C04 stacking
def stacking_expected(residues):
    """-> (definitely, possibly): dicts {(key_i, key_j): topology} by the geometric definition"""
    items = []
    for k, r in enumerate(residues):
        c = centroid(r)
        if c is not None:
            items.append((k, r, c, normal(r)))
    definite, possible = {}, {}
    for (ka, ra, ca, na), (kb, rb, cb, nb) in itertools.combinations(items, 2):
        d = float(np.linalg.norm(ca - cb))
        t1 = tri(d, hi=T.STACK_MAX_DIST)
        if t1 is False or na is None or nb is None:
            continue
        ang_nn = min(angle_deg(na, nb), angle_deg(-na, nb))
        t2 = tri(ang_nn, hi=T.STACK_MAX_NN)
        v = ca - cb  # from the later to the earlier residue in file order
        ang_vn = min(angle_deg(v, na), angle_deg(v, nb))
        t3 = tri(ang_vn, hi=T.STACK_MAX_VN)
        if t2 is False or t3 is False:
            continue
        dot = float(np.dot(na, nb))
        same = dot > 0
        lo_first = rkey(ra) < rkey(rb) if ra.model == rb.model else ra.model < rb.model
        if lo_first:
            key, topo = (ra, rb), ("upward" if same else "inward")
        else:
            key, topo = (rb, ra), ("downward" if same else "outward")
        k2 = (id(key[0]), id(key[1]))
        possible[k2] = (key, topo)
        if t1 and t2 and t3 and abs(dot) > EPS:
            definite[k2] = (key, topo)
    return definite, possible


def c04_check(residues, stackings, find):
    """stackings: reported list; find(nt) -> Residue3D"""
    errs = []
    definite, possible = stacking_expected(residues)
    seen = {}
    prev = None
    for s in stackings:
        a, b = find(s.nt1), find(s.nt2)
        if a is None or b is None:
            errs.append(f"stacking participant not in structure: {s.nt1} {s.nt2}")
            continue
        k2 = (id(a), id(b))
        if k2 in seen or (k2[1], k2[0]) in seen:
            errs.append(f"stacking {rid(a)}-{rid(b)} reported more than once")
        seen[k2] = s
        if k2 not in possible:
            errs.append(f"stacking {rid(a)}-{rid(b)} {s.topology.value} reported but the geometric definition rejects it")
        elif k2 in definite and definite[k2][1] != s.topology.value:
            errs.append(f"stacking {rid(a)}-{rid(b)} labelled {s.topology.value}, definition says {definite[k2][1]}")
        cur = (a.model, rkey(a), rkey(b))
        if prev is not None and cur < prev:
            errs.append("stackings not ordered by chain and number")
        prev = cur
        if not (rkey(a) < rkey(b)):
            errs.append(f"stacking {rid(a)}-{rid(b)} does not list the lower residue first")
    for k2, (key, topo) in definite.items():
        if k2 not in seen:
            errs.append(f"stacking {rid(key[0])}-{rid(key[1])} ({topo}) satisfies the definition but is not reported")
    return errs


# ------------------------------------------------------------------ C03 base pairs
def contacts(residues):
    """all donor-acceptor contacts between different nucleotides within 4.0 A lying 50-130 deg off both normals.
    -> list of (res_a, atom_a, res_b, atom_b, decided: True|None, through_sugar_or_phosphate: bool)"""
    atoms = []
    for r in residues:
        acc = T.BASE_ACCEPTORS.get(r.one_letter_name, []) + T.RIBOSE_ACCEPTORS + T.PHOSPHATE_ACCEPTORS
        don = [d for d in T.BASE_DONORS.get(r.one_letter_name, []) if d not in acc]
        for name in dict.fromkeys(acc + don):
            a = atom_of(r, name)
            if a is not None:
                atoms.append((r, a, "acceptor" if name in acc else "donor", xyz(a)))
    out = []
    if not atoms:
        return out
    P = np.array([p for _, _, _, p in atoms])
    normals = {}
    for i in range(len(atoms)):
        d = np.linalg.norm(P[i + 1:] - P[i], axis=1)
        for off in np.nonzero(d <= T.HBOND_MAX + EPS)[0]:
            j = i + 1 + int(off)
            ri, ai, ti, pi = atoms[i]
            rj, aj, tj, pj = atoms[j]
            if ti == tj or ri is rj or same_residue(ai, aj):
                continue
            ok = tri(float(d[off]), hi=T.HBOND_MAX)
            for r in (ri, rj):
                if id(r) not in normals:
                    normals[id(r)] = normal(r)
            ni, nj = normals[id(ri)], normals[id(rj)]
            if ni is None or nj is None:
                continue
            v = pi - pj
            if np.linalg.norm(v) == 0:
                continue
            for ang in (angle_deg(ni, v), angle_deg(nj, v)):
                t = tri(ang, lo=T.HBOND_ANGLE[0], hi=T.HBOND_ANGLE[1])
                # open interval: exactly at the bound is outside; the band makes it undecided
                if t is False:
                    ok = False
                    break
                if t is None and ok:
                    ok = None
            if ok is False:
                continue
            backbone = any(a.name in T.PHOSPHATE_ACCEPTORS + T.RIBOSE_ACCEPTORS for a in (ai, aj))
            out.append((ri, ai, rj, aj, ok, backbone))
    return out


def cis_trans(ra, rb):
    def gly(r):
        return atom_of(r, "C1'"), atom_of(r, "N9" if r.one_letter_name in "AG" else "N1")
    c1a, na = gly(ra)
    c1b, nb = gly(rb)
    if None in (c1a, na, c1b, nb):
        return None, None
    t = torsion(xyz(c1a), xyz(na), xyz(nb), xyz(c1b))
    near = min(abs(abs(t) - 90.0), 1e9) <= 1e-4
    return ("c" if -90.0 < t < 90.0 else "t"), near


def c03_check(residues, base_pairs, find):
    errs = []
    cs = contacts(residues)
    # support[(id_a, id_b, ea, eb)] = [definite count, possible count, definite base-to-base count]
    support = {}
    pairs_objs = {}
    for ra, aa, rb, ab, ok, backbone in cs:
        ea = T.BASE_EDGES.get(ra.one_letter_name, {}).get(aa.name)
        eb = T.BASE_EDGES.get(rb.one_letter_name, {}).get(ab.name)
        if ea is None or eb is None:
            continue
        if (ra.model, rkey(ra)) > (rb.model, rkey(rb)):
            ra, rb, ea, eb = rb, ra, eb, ea
        pairs_objs[(id(ra), id(rb))] = (ra, rb)
        for x in ea:
            for y in eb:
                s = support.setdefault((id(ra), id(rb), x, y), [0, 0, 0])
                s[1] += 1
                if ok:
                    s[0] += 1
                    if not backbone:
                        s[2] += 1
    occupied = {}
    reported = set()
    for bp in base_pairs:
        a, b = find(bp.nt1), find(bp.nt2)
        if a is None or b is None:
            errs.append(f"base pair participant not in structure: {bp.nt1} {bp.nt2}")
            continue
        if a is b:
            errs.append(f"base pair joins {rid(a)} with itself")
            continue
        lw = bp.lw.value
        ct, e1, e2 = lw[0], lw[1], lw[2]
        s = support.get((id(a), id(b), e1, e2), [0, 0, 0])
        if s[1] < 2:
            errs.append(f"base pair {rid(a)}-{rid(b)} {lw} has only {s[1]} distinct donor-acceptor contact(s) on edges {e1}/{e2}")
        want, near = cis_trans(a, b)
        if want is not None and not near and want != ct:
            errs.append(f"base pair {rid(a)}-{rid(b)} {lw}: cis/trans letter does not match the glycosidic torsion ({want})")
        for key in ((id(a), e1), (id(b), e2)):
            if key in occupied:
                errs.append(f"edge {key[1]} of {rid(a) if key[0] == id(a) else rid(b)} is used by two reported pairs")
            occupied[key] = bp
        reported.add((id(a), id(b), lw))
    for (ia, ib, e1, e2), s in support.items():
        if s[2] >= 2:
            ra, rb = pairs_objs[(ia, ib)]
            want, near = cis_trans(ra, rb)
            if want is None or near:
                continue
            if (ia, ib, f"{want}{e1}{e2}") in reported or (ia, e1) in occupied or (ib, e2) in occupied:
                continue
            errs.append(f"{rid(ra)}-{rid(rb)} has {s[2]} base-to-base contacts on {e1}/{e2} but is neither reported as {want}{e1}{e2} nor blocked by an occupied edge")
    return errs


# ------------------------------------------------------------------ C11 list well-formedness
def c11_check(residues, interactions, find):
    """interactions: BaseInteractions-like with basePairs, stackings, baseRiboseInteractions, basePhosphateInteractions"""
    errs = []
    model_res = {id(r) for r in residues}

    def common(lst, what, ordered):
        seen = set()
        prev = None
        for it in lst:
            a, b = find(it.nt1), find(it.nt2)
            if a is None or b is None or id(a) not in model_res or id(b) not in model_res:
                errs.append(f"{what}: participant is not a residue of the analysed model")
                continue
            if a is b:
                errs.append(f"{what}: {rid(a)} interacts with itself")
            key = (id(a), id(b), str(getattr(it, "lw", getattr(it, "topology", getattr(it, "bph", getattr(it, "br", None))))))
            if key in seen:
                errs.append(f"{what}: {rid(a)}-{rid(b)} repeats")
            seen.add(key)
            if ordered:
                if not rkey(a) < rkey(b):
                    errs.append(f"{what}: {rid(a)}-{rid(b)} does not list the lower residue first")
                cur = (rkey(a), rkey(b))
                if prev is not None and cur < prev:
                    errs.append(f"{what}: list not sorted")
                prev = cur

    common(interactions.basePairs, "base pair", True)
    common(interactions.stackings, "stacking", True)
    common(interactions.basePhosphateInteractions, "base-phosphate", False)
    common(interactions.baseRiboseInteractions, "base-ribose", False)
    for bp in interactions.basePairs:
        a, b = find(bp.nt1), find(bp.nt2)
        if a is None or b is None:
            continue
        want = T.SAENGER.get((a.one_letter_name + b.one_letter_name, bp.lw.value))
        got = bp.saenger.value if bp.saenger is not None else None
        if want != got:
            errs.append(f"base pair {rid(a)}-{rid(b)} {bp.lw.value}: Saenger {got}, table says {want}")
        rev = T.SAENGER.get((b.one_letter_name + a.one_letter_name, bp.lw.value[0] + bp.lw.value[2] + bp.lw.value[1]))
        if rev != want:
            errs.append(f"Saenger class of {a.one_letter_name}{b.one_letter_name} {bp.lw.value} differs from its reverse")
    for lst, kind, accs in ((interactions.basePhosphateInteractions, "bph", T.PHOSPHATE_ACCEPTORS),
                            (interactions.baseRiboseInteractions, "br", T.RIBOSE_ACCEPTORS)):
        per_pair = {}
        for it in lst:
            a, b = find(it.nt1), find(it.nt2)
            if a is None or b is None:
                continue
            cls = int(getattr(it, kind).value[0])
            per_pair.setdefault((id(a), id(b)), []).append(cls)
            # some base donor of a within 4.0 A of a phosphate/ribose oxygen of b whose class (or merge) gives cls
            implied = set()
            for d in [x for x in T.BASE_DONORS.get(a.one_letter_name, []) if x not in T.RIBOSE_ACCEPTORS]:
                da = atom_of(a, d)
                if da is None:
                    continue
                for an in accs:
                    aa = atom_of(b, an)
                    if aa is None or np.linalg.norm(xyz(da) - xyz(aa)) > T.HBOND_MAX + EPS:
                        continue
                    k = (a.one_letter_name, d)
                    if k in T.BPH_FIXED:
                        implied.add(T.BPH_FIXED[k])
                    elif k in T.BPH_TORSION:
                        (n1, n2), cis, trans = T.BPH_TORSION[k]
                        implied.update((cis, trans))
            if 3 in implied and 5 in implied:
                implied.add(4)
            if 7 in implied and 9 in implied:
                implied.add(8)
            if cls not in implied:
                errs.append(f"{kind} {rid(a)}-{rid(b)} class {cls} is not implied by any donor-oxygen contact within 4.0 A (implied: {sorted(implied)})")
        for k, v in per_pair.items():
            if len(v) > 1:
                errs.append(f"{kind}: residue pair carries {len(v)} classes {v}")
    return errs


# ------------------------------------------------------------------ C17 clashes
RADII = {"C": 0.6, "N": 0.54, "O": 0.53, "P": 0.94}


def clashes_expected(residues, ignore_occupancy, ignore_autoclashes, nucleic_acid_only, same_name, molprobity):
    atoms = []
    for r in residues:
        if nucleic_acid_only and not r.is_nucleotide:
            continue
        for a in r.atoms:
            if a.name.strip()[:1] in RADII:
                atoms.append((r, a, xyz(a)))
    definite, possible = set(), set()
    m = 0.5 if molprobity else 0.0
    if len(atoms) < 2:
        return definite, possible
    P = np.array([p for _, _, p in atoms])
    for i in range(len(atoms)):
        d = np.linalg.norm(P[i + 1:] - P[i], axis=1)
        for off in np.nonzero(d <= 2 * 0.94 + m + EPS)[0]:
            j = i + 1 + int(off)
            ri, ai, _ = atoms[i]
            rj, aj, _ = atoms[j]
            if ignore_autoclashes and ri is rj:
                continue
            if same_name and ai.name != aj.name:
                continue
            lim = RADII[ai.name.strip()[0]] + RADII[aj.name.strip()[0]] + m
            t = tri(float(d[off]), hi=lim)
            if t is False:
                continue
            occ = (ai.occupancy or 1.0) + (aj.occupancy or 1.0)
            if not ignore_occupancy and not math.isclose(occ, 1.0):
                continue
            key = frozenset((id(ai), id(aj)))
            possible.add(key)
            if t:
                definite.add(key)
    return definite, possible


def c17_check(residues, opts, result):
    errs = []
    definite, possible = clashes_expected(residues, *opts)
    seen = set()
    for (ri, ai), (rj, aj), occ in result:
        key = frozenset((id(ai), id(aj)))
        if key in seen:
            errs.append(f"clash {ai.name}-{aj.name} listed twice")
        seen.add(key)
        if key not in possible:
            errs.append(f"clash {rid(ri)} {ai.name} - {rid(rj)} {aj.name} listed but not a clash by the pairwise definition (options {opts})")
        want = (ai.occupancy or 1.0) + (aj.occupancy or 1.0)
        if abs(occ - want) > 1e-9:
            errs.append("occupancy sum wrong")
    missing = definite - seen
    if missing:
        errs.append(f"{len(missing)} clash(es) satisfying the pairwise definition are not listed (options {opts})")
    return errs
