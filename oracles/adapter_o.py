"""C19 oracle: independent reading of FR3D labels / unit ids / listings and of DSSR documents."""
import itertools
import json
import os
import re
import tempfile

LW_RE = re.compile(r"n?([cCtT])([wWhHsS])([wWhHsS])a?")
ST_RE = re.compile(r"n?s(33|35|53|55)a?")
BPH_RE = re.compile(r"n?([0-9])BPha?")
BR_RE = re.compile(r"n?([0-9])BRa?")
STACK = {"33": "downward", "55": "upward", "35": "outward", "53": "inward"}
ALPHABET = "nctCTwhsWHSa35BRPh09x"


def expected_label(label):
    m = LW_RE.fullmatch(label)
    if m:
        return ("base-pair", m.group(1).lower() + m.group(2).upper() + m.group(3).upper())
    m = ST_RE.fullmatch(label)
    if m:
        return ("stacking", STACK[m.group(1)])
    m = BPH_RE.fullmatch(label)
    if m:
        return ("base-phosphate", m.group(1) + "BPh")
    m = BR_RE.fullmatch(label)
    if m:
        return ("base-ribose", m.group(1) + "BR")
    return ("other", None)


def check_label(label):
    from rnapolis.adapter import unify_classification
    try:
        cat, cls = unify_classification(label)
    except Exception as e:
        return [f"unify_classification({label!r}) raised {type(e).__name__}"]
    got = (cat, cls.value if cls is not None else None)
    want = expected_label(label)
    if got != want:
        return [f"label {label!r}: filed as {got}, denotes {want}"]
    return []


def all_labels(maxlen):
    for n in range(0, maxlen + 1):
        for t in itertools.product(ALPHABET, repeat=n):
            yield "".join(t)


def unit_id(rng, ok=True):
    chain = rng.choice(["A", "B", "A-2", "AA", "x"])
    name = rng.choice(["A", "C", "G", "U", "DG", "DC", "PSU", "5MC"])
    num = rng.choice([1, 7, 42, -3, 1203])
    icode = rng.choice(["", "", "", "A", "B"])
    if ok:
        fields = ["XXXX", "1", chain, name, str(num)]
        if icode or rng.random() < .3:
            fields += ["", "", icode]
        return "|".join(fields), (chain, num, icode or None, name)
    bad = rng.choice(["", "XXXX|1|A", "XXXX|1|A|G|x7", "XXXX|1|A|G|", "garbage", "XXXX|1|A|G|1.5"])
    return bad, None


def make_listing(rng, n):
    """lines mixing valid, near and malformed entries -> (text, expected list of (category, class, id1, id2))"""
    labels = ["cWW", "tHS", "cww", "TSH", "ncWW", "cWWa", "ncsSa", "s35", "s53", "ns55", "s33", "0BPh", "7BPh", "n9BPh", "3BR", "0BR", "9BRa",
              "cWB", "s34", "perp", "", "xBPh", "10BR", "cW", "aBR", "tHX", "nn", "bif", "cSs", "Tww", "s3", "BPh"]
    lines, exp = [], []
    for _ in range(n):
        u = rng.random()
        if u < 0.08:
            lines.append(rng.choice(["", "# comment", "   ", "#XXXX|1|A|G|1\tcWW\tXXXX|1|A|C|2"]))
            continue
        a, ida = unit_id(rng, rng.random() > 0.12)
        b, idb = unit_id(rng, rng.random() > 0.12)
        lab = rng.choice(labels)
        v = rng.random()
        if v < 0.07:
            line = f"{a}\t{lab}"  # too few fields
            ok = False
        else:
            line = f"{a}\t{lab}\t{b}" + ("\t0" if rng.random() < .7 else "")
            ok = ida is not None and idb is not None
        lines.append(line)
        if ok and line.strip() and not line.strip().startswith("#"):
            # strip() of the whole line can eat a trailing empty label/field: mirror what a reader of the stripped line sees
            parts = line.strip().split("\t")
            if len(parts) >= 3:
                cat, cls = expected_label(parts[1])
                exp.append((cat, cls, ida, idb))
    return "\n".join(lines) + "\n", exp


def check_listing(case):
    import random
    from rnapolis.adapter import parse_fr3d_output
    seed, n = case
    rng = random.Random(seed)
    text, exp = make_listing(rng, n)
    with tempfile.NamedTemporaryFile("w", suffix=".txt", delete=False) as f:
        f.write(text)
        path = f.name
    try:
        try:
            res = parse_fr3d_output(path)
        except Exception as e:
            return [f"parse_fr3d_output raised {type(e).__name__}: {e}"]
    finally:
        os.unlink(path)

    def ident(r):
        return (r.auth.chain, r.auth.number, r.auth.icode, r.auth.name)
    got = {"base-pair": [(i.lw.value, ident(i.nt1), ident(i.nt2)) for i in res.basePairs],
           "stacking": [(i.topology.value, ident(i.nt1), ident(i.nt2)) for i in res.stackings],
           "base-ribose": [(i.br.value, ident(i.nt1), ident(i.nt2)) for i in res.baseRiboseInteractions],
           "base-phosphate": [(i.bph.value, ident(i.nt1), ident(i.nt2)) for i in res.basePhosphateInteractions],
           "other": [(None, ident(i.nt1), ident(i.nt2)) for i in res.otherInteractions]}
    want = {k: [] for k in got}
    for cat, cls, a, b in exp:
        want[cat].append((cls, a, b))
    errs = []
    for k in got:
        if got[k] != want[k]:
            errs.append(f"category {k}: imported {len(got[k])} interactions, listing denotes {len(want[k])}; first difference: "
                        f"{next(((g, w) for g, w in itertools.zip_longest(got[k], want[k]) if g != w), None)}")
    return errs


def check_dssr(case):
    """DSSR documents generated from a structure's residue names"""
    import random
    from rnapolis.adapter import parse_dssr_output
    from gen import structures as G
    path, seed = case
    rng = random.Random(seed)
    s = G.load(path)
    names = [r.full_name for r in s.residues]
    if len(names) < 4:
        return []
    lws = ["cWW", "tHS", "cSW", "tWW", "cww", "", "__doc__", "__class__", "name", "value", "reverse", "cWX", None, "mro", "_member_map_", "cWW "]
    valid = {"cWW", "cWH", "cWS", "cHW", "cHH", "cHS", "cSW", "cSH", "cSS", "tWW", "tWH", "tWS", "tHW", "tHH", "tHS", "tSW", "tSH", "tSS"}

    def nt(ok=True):
        if ok:
            n = rng.choice(names)
            return (rng.choice(["", "1:", "2:"]) + n), n
        return rng.choice(["A.XYZ99", "Z.G1", "nope", None]), None
    pairs, want_pairs = [], []
    for _ in range(rng.randint(3, 12)):
        a, na = nt(rng.random() > .2)
        b, nb = nt(rng.random() > .2)
        lw = rng.choice(lws)
        d = {"nt1": a, "nt2": b, "LW": lw}
        if rng.random() < .1:
            d.pop(rng.choice(list(d)))
            na = na if "nt1" in d else None
            nb = nb if "nt2" in d else None
            lw = d.get("LW")
        pairs.append(d)
        if na is not None and nb is not None and lw in valid:
            want_pairs.append((na, nb, lw))
    stacks, want_st = [], []
    for _ in range(rng.randint(1, 6)):
        members = [nt(rng.random() > .25) for _ in range(rng.randint(1, 6))]
        stacks.append({"nts_long": ",".join(str(m[0]) if m[0] is not None else "?" for m in members)})
        for (x, nx), (y, ny) in zip(members, members[1:]):
            if nx is not None and ny is not None:
                want_st.append((nx, ny))
    doc = {"pairs": pairs, "stacks": stacks}
    if rng.random() < .3:
        doc = {"models": [{"model": 1, "parameters": doc}]}
    with tempfile.NamedTemporaryFile("w", suffix=".json", delete=False) as f:
        json.dump(doc, f)
        p = f.name
    try:
        try:
            res = parse_dssr_output(p, s)
        except Exception as e:
            return [f"parse_dssr_output raised {type(e).__name__}: {e}"]
    finally:
        os.unlink(p)
    byres = {}
    for r in s.residues:
        byres.setdefault((r.label, r.auth), r.full_name)
    got_pairs = [(byres.get((i.nt1.label, i.nt1.auth)), byres.get((i.nt2.label, i.nt2.auth)), i.lw.value) for i in res.basePairs]
    got_st = [(byres.get((i.nt1.label, i.nt1.auth)), byres.get((i.nt2.label, i.nt2.auth))) for i in res.stackings]
    errs = []
    if got_pairs != want_pairs:
        errs.append(f"DSSR pairs kept {got_pairs[:4]}.. != expected {want_pairs[:4]}.. ({len(got_pairs)} vs {len(want_pairs)})")
    if got_st != want_st:
        errs.append(f"DSSR stackings kept {len(got_st)} != expected {len(want_st)} consecutive resolvable members; first diff "
                    f"{next(((g, w) for g, w in itertools.zip_longest(got_st, want_st) if g != w), None)}")
    return errs


def check_tool(case):
    """the command line tool (observe_at: adapter.main): a generated FR3D listing imported next to a corpus structure, written as JSON -
    the interaction lists of the JSON are what the listing denotes, category by category, in order"""
    import contextlib, io, json, random, sys
    from rnapolis import adapter
    path, seed, n = case
    rng = random.Random(seed)
    text, exp = make_listing(rng, n)
    with tempfile.TemporaryDirectory(prefix="c19-tool-") as d:
        with open(os.path.join(d, "listing.txt"), "w") as f:
            f.write(text)
        argv, buf = sys.argv, io.StringIO()
        try:
            sys.argv = ["adapter", path, "--external", os.path.join(d, "listing.txt"), "--tool", "fr3d", "-j", os.path.join(d, "out.json")]
            with contextlib.redirect_stdout(buf):
                try:
                    adapter.main()
                except SystemExit as e:
                    if e.code not in (0, None):
                        return [f"adapter.main exited with status {e.code}"]
                except Exception as e:
                    return [f"adapter.main raised {type(e).__name__}: {e}"]
        finally:
            sys.argv = argv
        if not os.path.exists(os.path.join(d, "out.json")):
            return ["adapter.main wrote no JSON file"]
        bi = json.load(open(os.path.join(d, "out.json")))["baseInteractions"]

    def ident(r):
        a = r["auth"]
        return (a["chain"], a["number"], a["icode"], a["name"])
    got = {"base-pair": [(i["lw"], ident(i["nt1"]), ident(i["nt2"])) for i in bi["basePairs"]],
           "stacking": [(i["topology"], ident(i["nt1"]), ident(i["nt2"])) for i in bi["stackings"]],
           "base-ribose": [(i["br"], ident(i["nt1"]), ident(i["nt2"])) for i in bi["baseRiboseInteractions"]],
           "base-phosphate": [(i["bph"], ident(i["nt1"]), ident(i["nt2"])) for i in bi["basePhosphateInteractions"]],
           "other": [(None, ident(i["nt1"]), ident(i["nt2"])) for i in bi["otherInteractions"]]}
    want = {k: [] for k in got}
    for cat, cls, a, b in exp:
        want[cat].append((cls, a, b))
    errs = []
    for k in got:
        if got[k] != want[k]:
            errs.append(f"tool JSON, category {k}: {len(got[k])} interactions, listing denotes {len(want[k])}; first difference: "
                        f"{next(((g, w) for g, w in itertools.zip_longest(got[k], want[k]) if g != w), None)}")
    return errs
