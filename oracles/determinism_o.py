"""C14 oracle: the same input run in fresh interpreters under several PYTHONHASHSEED values (tools/c14_worker.py, which also repeats every
computation inside one process); every output named by the property must have one sha256.

observe(jobs, seeds) -> {job id: {seed: worker result | {"failed": text}}}
compare(observed)     -> list of (kind, output name, job id, message); kinds:
  hashseed-differs   an output differs between fresh processes / hash seeds
  repeat-differs     an output differs between two calls in one process
  worker-failed      a fresh process crashed or timed out (no observation)
Output names carry the third party they depend on in parentheses - (solver), (orjson), (mmcif writer), (pandas) - so that a difference
caused by CBC tie-breaking or a serialiser can be told from one caused by the library.
"""
import concurrent.futures
import json
import os
import subprocess
import sys
import tempfile

WORKER = os.path.join(os.path.dirname(os.path.dirname(os.path.abspath(__file__))), "tools", "c14_worker.py")
SEEDS = ["0", "1", "2", "3", "random"]


def _run_group(jobs, seed, timeout):
    with tempfile.TemporaryDirectory(prefix="c14-run-") as tmp:
        jf = os.path.join(tmp, "jobs.json")
        with open(jf, "w") as f:
            json.dump(jobs, f)
        env = dict(os.environ, PYTHONHASHSEED=seed, LOGLEVEL="CRITICAL")
        src = os.environ.get("PYVC_SRC_ROOT")
        if src and src not in env.get("PYTHONPATH", "").split(os.pathsep):  # the tree under test, also when only PYVC_SRC_ROOT was given
            env["PYTHONPATH"] = src + (os.pathsep + env["PYTHONPATH"] if env.get("PYTHONPATH") else "")
        try:
            r = subprocess.run([sys.executable, WORKER, jf], env=env, cwd=tmp, capture_output=True, text=True, timeout=timeout)
        except subprocess.TimeoutExpired:
            return {"failed": f"timeout after {timeout} s"}
        if r.returncode != 0:
            return {"failed": f"exit {r.returncode}: {r.stderr[-400:]}"}
        try:
            return json.loads(r.stdout[r.stdout.index("{"):])
        except Exception as e:  # noqa: BLE001
            return {"failed": f"unreadable worker output ({type(e).__name__}): {r.stdout[-200:]}"}


def observe(jobs, seeds=SEEDS, processes=None, timeout=900):
    """every job under every seed; jobs are dealt round-robin into groups, one fresh interpreter per (group, seed)"""
    cpus = processes or os.cpu_count() or 4
    ngroups = max(1, min(len(jobs), max(1, cpus // len(seeds))))
    groups = [jobs[k::ngroups] for k in range(ngroups)]
    observed = {j["id"]: {} for j in jobs}
    with concurrent.futures.ThreadPoolExecutor(max_workers=cpus) as pool:
        futs = {pool.submit(_run_group, g, s, timeout): (g, s) for g in groups for s in seeds}
        for fut in concurrent.futures.as_completed(futs):
            g, s = futs[fut]
            res = fut.result()
            for j in g:
                if "failed" in res:
                    observed[j["id"]][s] = {"failed": res["failed"]}
                else:
                    observed[j["id"]][s] = res["results"].get(j["id"], {"failed": "job missing from worker output"})
    return observed


def compare(observed):
    out = []
    for jid, by_seed in observed.items():
        good = {s: r for s, r in by_seed.items() if "failed" not in r}
        for s, r in by_seed.items():
            if "failed" in r:
                out.append(("worker-failed", "<process>", jid, f"PYTHONHASHSEED={s}: {r['failed'][:200]}"))
        names = sorted({n for r in good.values() for n in r["outputs"]})
        for n in names:
            classes = {}
            for s, r in good.items():
                classes.setdefault(r["outputs"].get(n, "<absent>"), []).append(s)
            if len(classes) > 1:
                parts = "; ".join(f"seeds {sorted(v)} -> {k[:10]}" for k, v in sorted(classes.items(), key=lambda kv: sorted(kv[1])))
                errs = {s: r["errors"][n][:80] for s, r in good.items() if n in r.get("errors", {})}
                out.append(("hashseed-differs", n, jid, f"{len(classes)} different byte contents across fresh processes: {parts}" + (f"; {errs}" if errs else "")))
            rep = sorted(s for s, r in good.items() if n in r.get("repeat_differs", []))
            if rep:
                out.append(("repeat-differs", n, jid, f"two calls inside one process gave different bytes (PYTHONHASHSEED in {rep})"))
    return out


def summary(observed):
    """(#outputs compared, #outputs that are consistently an exception text) for evidence"""
    n = e = 0
    for by_seed in observed.values():
        for r in by_seed.values():
            if "failed" not in r:
                n += len(r["outputs"])
                e += len(r.get("errors", {}))
                break
    return n, e
