"""C10 oracle: what fit_to_pdb may do with an atom table, stated independently of its code.

check_fit(df) -> list of (kind, message).  Kinds (stable; they prefix violation signatures):
  fit-raises-<Type>      an exception other than ValueError escaped fit_to_pdb
  fit-refuses-feasible   ValueError although a fit obviously exists (<= 62 chains, atoms (+ one TER per chain) <= 99999, <= 9999 residues per chain)
  fit-accepts-infeasible a table was returned although no fit can exist (> 99999 atoms or more chains than printable characters)
  unchanged              an already fitting table was not returned unchanged
  limits                 the returned table violates serial <= 99999 / one-character chain ids / residue numbers <= 9999
  atoms                  atom count, order, names or coordinates differ
  fields                 some other field differs or was dropped
  chain-mapping          old chain -> new chain is not a one-to-one function
  residue-grouping       old residue -> new residue is not a one-to-one, grouping-preserving function
  roundtrip[-raises-T]   write_pdb + parse_pdb_atoms of the returned table is not the same structure
  timeout                the call did not finish
"""
import re
import signal
import threading
import warnings

MAX_SERIAL, MAX_RESNUM, MAX_ALNUM_CHAINS, MAX_PRINTABLE_CHAINS = 99999, 9999, 62, 94
MIN_WRITABLE_RESNUM = -999

VIEW = {
    "PDB": dict(serial="serial", chain="chainID", resnum="resSeq", icode="iCode", name=["name"], resname=["resName"], altloc="altLoc", x="x", y="y", z="z",
                occ="occupancy", bfac="tempFactor", element="element", charge="charge", model="model", record="record_type"),
    "mmCIF": dict(serial="id", chain="auth_asym_id", resnum="auth_seq_id", icode="pdbx_PDB_ins_code", name=["auth_atom_id", "label_atom_id"],
                  resname=["auth_comp_id", "label_comp_id"], altloc="label_alt_id", x="Cartn_x", y="Cartn_y", z="Cartn_z", occ="occupancy", bfac="B_iso_or_equiv",
                  element="type_symbol", charge="pdbx_formal_charge", model="pdbx_PDB_model_num", record="group_PDB"),
}
# the PDB-table name of an mmCIF column (the PDB format's own field names)
PDB_NAME = {"group_PDB": "record_type", "id": "serial", "auth_atom_id": "name", "label_atom_id": "name", "label_alt_id": "altLoc", "auth_comp_id": "resName",
            "label_comp_id": "resName", "auth_asym_id": "chainID", "auth_seq_id": "resSeq", "pdbx_PDB_ins_code": "iCode", "Cartn_x": "x", "Cartn_y": "y", "Cartn_z": "z",
            "B_iso_or_equiv": "tempFactor", "type_symbol": "element", "pdbx_formal_charge": "charge", "pdbx_PDB_model_num": "model"}
INT_RE = re.compile(r"^[+-]?\d+$")
FLOAT_RE = re.compile(r"^[+-]?(\d+\.\d*|\.\d+|\d+)([eE][+-]?\d+)?$")


class Timeout(Exception):
    pass


def with_timeout(fn, seconds):
    if threading.current_thread() is not threading.main_thread():
        return fn()

    def handler(signum, frame):
        raise Timeout()
    old = signal.signal(signal.SIGALRM, handler)
    signal.setitimer(signal.ITIMER_REAL, seconds)
    try:
        return fn()
    finally:
        signal.setitimer(signal.ITIMER_REAL, 0)
        signal.signal(signal.SIGALRM, old)


def norm(v):
    """cell value up to representation: absent (None / NaN / NA / '') -> None, numerals -> numbers, everything else -> str"""
    if v is None:
        return None
    try:
        if v != v:  # NaN
            return None
    except TypeError:  # pd.NA comparison
        return None
    if isinstance(v, bool):
        return v
    if isinstance(v, int):
        return int(v)
    if isinstance(v, float):
        return float(v)
    if hasattr(v, "item") and not isinstance(v, str):
        try:
            return norm(v.item())
        except Exception:
            pass
    s = str(v)
    if s in ("", "<NA>", "nan", "None"):
        return None
    if INT_RE.match(s):
        return int(s)
    if FLOAT_RE.match(s):
        return float(s)
    return s


def raw(v):
    """identifier cell: absent -> None, else its text unchanged ('01' and '1' are different chain ids)"""
    return None if norm(v) is None else str(v)


def column_lists(df, name, conv=norm):
    """every column of that name as a list of normalised cells (a table may carry a name twice)"""
    if name not in df.columns:
        return []
    sub = df.loc[:, [c == name for c in df.columns]]
    return [[conv(v) for v in sub.iloc[:, k].tolist()] for k in range(sub.shape[1])]


def first_column(df, names, n, conv=norm):
    for name in names if isinstance(names, list) else [names]:
        cols = column_lists(df, name, conv)
        if cols:
            return cols[0]
    return [None] * n


TEXT_FIELDS = {"chain", "icode", "name", "resname", "altloc", "element", "record"}


def atoms_of(df):
    """semantic view of a table of either schema: dict field -> list over atoms (file order)"""
    fmt = df.attrs.get("format")
    if fmt not in VIEW:
        raise KeyError(f"table has format attribute {fmt!r}")
    n = len(df)
    return {k: first_column(df, v, n, raw if k in TEXT_FIELDS else norm) for k, v in VIEW[fmt].items()}


def text(v):
    return "" if v is None else str(v)


def status(a):
    """(already fits, must be fittable, cannot be fitted) from the stated limits alone"""
    n = len(a["serial"])
    chains = list(dict.fromkeys(text(c) for c in a["chain"]))
    fits = (all(isinstance(s, int) and s <= MAX_SERIAL for s in a["serial"]) and all(len(c) <= 1 for c in chains)
            and all(isinstance(r, int) and r <= MAX_RESNUM for r in a["resnum"]))
    per_chain = {}
    for c, r, i in zip(a["chain"], a["resnum"], a["icode"]):
        per_chain.setdefault(text(c), set()).add((r, i))
    most = max((len(v) for v in per_chain.values()), default=0)
    feasible = n + len(chains) <= MAX_SERIAL and len(chains) <= MAX_ALNUM_CHAINS and most <= MAX_RESNUM
    infeasible = n > MAX_SERIAL or len(chains) > MAX_PRINTABLE_CHAINS
    return fits, feasible, infeasible, dict(atoms=n, chains=len(chains), max_residues_per_chain=most)


def is_function(pairs):
    """pairs (old, new): is old -> new a function, and is it injective? returns (ok, witness)"""
    fwd, back = {}, {}
    for o, nw in pairs:
        if fwd.setdefault(o, nw) != nw:
            return False, f"{o} is renamed to both {fwd[o]} and {nw}"
        if back.setdefault(nw, o) != o:
            return False, f"{back[nw]} and {o} are both renamed to {nw}"
    return True, ""


def same_cells(a, b):
    if len(a) != len(b):
        return f"{len(a)} vs {len(b)} rows"
    for k, (x, y) in enumerate(zip(a, b)):
        if x != y:
            return f"row {k}: {x!r} became {y!r}"
    return None


def check_roundtrip(out, a_out):
    from rnapolis.parser_v2 import parse_pdb_atoms, write_pdb
    errs = []
    # outside these the PDB columns cannot hold the value whatever the fit did; the property does not list them as limits
    if any(len(text(v)) > 4 for v in a_out["name"]) or any(len(text(v)) > 3 for v in a_out["resname"]):
        return errs
    for k in "xyz":
        if any(v is None or not -999.999 <= v <= 9999.999 for v in a_out[k]):
            return errs
    if any(isinstance(r, int) and r < MIN_WRITABLE_RESNUM for r in a_out["resnum"]):
        return errs
    try:
        pdb = with_timeout(lambda: write_pdb(out), 300)
    except Timeout:
        return [("timeout", "write_pdb did not finish in 300 s")]
    except Exception as e:
        return [(f"roundtrip-raises-{type(e).__name__}", f"write_pdb of the returned table raised {type(e).__name__}: {str(e)[:150]}")]
    try:
        back = parse_pdb_atoms(pdb)
        b = atoms_of(back)
    except Exception as e:
        return [(f"roundtrip-raises-{type(e).__name__}", f"parse_pdb_atoms of the written text raised {type(e).__name__}: {str(e)[:150]}")]
    n = len(a_out["serial"])
    if len(b["serial"]) != n:
        return [("roundtrip", f"{n} atoms written, {len(b['serial'])} read back")]
    for k in range(n):
        for f in ("model", "chain", "resnum", "icode", "resname", "name", "altloc", "record"):
            if text(a_out[f][k]) != text(b[f][k]):
                errs.append(("roundtrip", f"atom {k}: {f} {a_out[f][k]!r} read back as {b[f][k]!r} (line {[ln for ln in pdb.splitlines() if ln.startswith(('ATOM', 'HETATM'))][k][:40]!r}..)"))
                return errs
        if text(a_out["element"][k]).upper() != text(b["element"][k]).upper():
            return [("roundtrip", f"atom {k}: element {a_out['element'][k]!r} read back as {b['element'][k]!r}")]
        for f, tol in (("x", 5.1e-4), ("y", 5.1e-4), ("z", 5.1e-4), ("occ", 5.1e-3), ("bfac", 5.1e-3)):
            u, v = a_out[f][k], b[f][k]
            if u is None and f in ("occ", "bfac"):
                continue
            if v is None or abs(u - v) > tol:
                return [("roundtrip", f"atom {k}: {f} {u!r} read back as {v!r}")]
    return errs


def check_fit(df, timeout=600):
    """the whole property for one table"""
    from rnapolis.parser_v2 import fit_to_pdb
    errs = []
    snap = df.copy(deep=True)
    snap.attrs = dict(df.attrs)
    a = atoms_of(snap)
    fits, feasible, infeasible, facts = status(a)
    # numbers < -999: the property lists no lower limit, yet 5 characters do not go into 4 columns; 'unchanged' and 'written and read back'
    # cannot both hold there, so neither is demanded (A-lower); every other clause still is
    low = any(isinstance(r, int) and r < MIN_WRITABLE_RESNUM for r in a["resnum"])
    with warnings.catch_warnings():
        warnings.simplefilter("ignore")
        try:
            out = with_timeout(lambda: fit_to_pdb(df), timeout)
        except Timeout:
            return [("timeout", f"fit_to_pdb did not finish in {timeout} s ({facts})")]
        except ValueError as e:
            if fits and not low:
                return [("unchanged", f"table already within the limits, but fit_to_pdb raised ValueError: {str(e)[:150]}")]
            if feasible:
                return [("fit-refuses-feasible", f"a fit exists ({facts}) but fit_to_pdb raised ValueError: {str(e)[:150]}")]
            return []
        except Exception as e:
            return [(f"fit-raises-{type(e).__name__}", f"fit_to_pdb raised {type(e).__name__} (only ValueError is a clean refusal; {facts}; fit exists: {feasible or fits}): {str(e)[:150]}")]
        if infeasible:
            return [("fit-accepts-infeasible", f"no fit can exist ({facts}) but a table was returned")]
        try:
            o = atoms_of(out)
        except Exception as e:
            return [("limits", f"returned object is not a readable atom table: {type(e).__name__}: {e}")]
        n = len(a["serial"])
        # --- already fitting => unchanged
        if fits and not low:
            if list(out.columns) != list(snap.columns) or out.attrs.get("format") != snap.attrs.get("format"):
                errs.append(("unchanged", f"table already within the limits, but columns/format changed: {list(out.columns)[:6]}.. format={out.attrs.get('format')}"))
            else:
                for pos, c in enumerate(snap.columns):
                    d = same_cells([norm(v) for v in snap.iloc[:, pos].tolist()], [norm(v) for v in out.iloc[:, pos].tolist()])
                    if d:
                        errs.append(("unchanged", f"table already within the limits, but column {c} changed: {d}"))
                        break
        # --- limits
        bad = [s for s in o["serial"] if not (isinstance(s, int) and s <= MAX_SERIAL)]
        if bad:
            errs.append(("limits", f"serial {bad[0]!r} in the returned table (limit {MAX_SERIAL})"))
        bad = [c for c in o["chain"] if len(text(c)) > 1]
        if bad:
            errs.append(("limits", f"chain id {bad[0]!r} in the returned table is not one character"))
        bad = [r for r in o["resnum"] if not (isinstance(r, int) and r <= MAX_RESNUM)]
        if bad:
            errs.append(("limits", f"residue number {bad[0]!r} in the returned table (limit {MAX_RESNUM})"))
        # --- atoms keep order, names, coordinates
        if len(o["serial"]) != n:
            errs.append(("atoms", f"{n} atoms in, {len(o['serial'])} out"))
            return errs
        for f in ("name", "x", "y", "z"):
            d = same_cells(a[f], o[f])
            if d:
                errs.append(("atoms", f"{f} not preserved in order: {d}"))
                break
        # --- every other field
        fmt_in = snap.attrs.get("format")
        renamed = {VIEW[fmt_in][k] for k in ("serial", "chain", "resnum", "icode")}
        seen = set()
        for pos, c in enumerate(snap.columns):
            if c in renamed or c in seen:
                continue
            seen.add(c)
            want = [norm(v) for v in snap.iloc[:, pos].tolist()]
            cands = column_lists(out, c) + (column_lists(out, PDB_NAME[c]) if c in PDB_NAME and PDB_NAME[c] != c else [])
            if not cands:
                errs.append(("fields", f"field {c} is missing from the returned table"))
                break
            ds = [same_cells(want, cand) for cand in cands]
            if all(ds):
                errs.append(("fields", f"field {c} not preserved: {ds[0]}"))
                break
        # --- chains: one-to-one renaming
        ok, why = is_function(zip(map(text, a["chain"]), map(text, o["chain"])))
        if not ok:
            errs.append(("chain-mapping", f"chain renaming is not one-to-one: {why}"))
        # --- residues: one-to-one, grouping preserved (per model and as a renaming of (chain, number, icode) names)
        old = list(zip(map(text, a["chain"]), a["resnum"], map(text, a["icode"])))
        new = list(zip(map(text, o["chain"]), o["resnum"], map(text, o["icode"])))
        ok, why = is_function(zip(zip(a["model"], old), zip(o["model"], new)))
        if not ok:
            errs.append(("residue-grouping", f"residue grouping not preserved: {why}"))
        else:
            ok, why = is_function(zip(old, new))
            if not ok:
                errs.append(("residue-grouping", f"residue renaming is not a one-to-one map of (chain, number, icode): {why}"))
        # --- writable and readable as the same structure
        errs += check_roundtrip(out, o)
    return errs


def check_overflowing_pdb_schema(df, timeout=600):
    """a PDB-schema table beyond the limits: same statement (fit or ValueError)"""
    return check_fit(df, timeout)
