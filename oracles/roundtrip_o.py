"""C09 oracle: write/read round trips of atom tables, judged field by field against the table that was written, and the
fixed-column layout of written PDB text judged by our own column slicing (PDB 3.3).  The tables come from gen/atomtables_c09.py
(emitted by independent emitters) or from corpus files; nothing here re-uses the library's writers or column maps."""
import functools
import os
import random
import re

from gen import atomtables_c09 as T, structures as G

FIELDS = ["record", "serial", "name", "altloc", "resname", "chain", "resnum", "icode", "x", "y", "z", "occ", "bfac", "element", "charge", "model"]
LABELS = ["label_atom", "label_comp", "label_asym", "label_seq", "label_entity"]
TOL = {"x": 0.001, "y": 0.001, "z": 0.001, "occ": 0.01, "bfac": 0.01}
PATHS = ["pdb-pdb", "cif-cif", "pdb-cif-pdb", "cif-pdb-cif"]
ASPECTS = PATHS + ["charge", "layout", "model", "ter"]


# ------------------------------------------------------------------ normalisation of the library's tables
def _none(v):
    import pandas as pd
    try:
        return v is None or bool(pd.isna(v))
    except (TypeError, ValueError):
        return False


def _s(v):
    return None if _none(v) else str(v)


def _i(v):
    if _none(v):
        return None
    try:
        return int(str(v))
    except ValueError:
        try:
            f = float(str(v))
            return int(f) if f == int(f) else str(v)
        except ValueError:
            return str(v)


def _f(v):
    if _none(v):
        return None
    try:
        return float(v)
    except ValueError:
        return str(v)


def charge_value(v):
    """formal charge as a signed integer, from the PDB text form ('2+', '1-') or the mmCIF integer; None when absent"""
    if _none(v):
        return None
    s = str(v).strip()
    if s == "":
        return None
    m = re.fullmatch(r"(\d)([+-])", s)
    if m:
        return int(m.group(1)) * (1 if m.group(2) == "+" else -1)
    m = re.fullmatch(r"[+-]?\d+", s)
    if m:
        return int(s)
    return s  # unrecognised text: compares unequal to any integer


def rows_of(df):
    """table of the library -> list of dicts keyed by FIELDS (+ LABELS for mmCIF tables)"""
    fmt = df.attrs.get("format")
    out = []
    cols = set(df.columns)

    def get(row, *names):
        for n in names:
            if n in cols:
                return row[n]
        return None
    for row in df.to_dict("records"):
        if fmt == "PDB":
            r = dict(record=_s(row["record_type"]), serial=_i(row["serial"]), name=_s(row["name"]), altloc=_s(row["altLoc"]), resname=_s(row["resName"]),
                     chain=_s(row["chainID"]), resnum=_i(row["resSeq"]), icode=_s(row["iCode"]), x=_f(row["x"]), y=_f(row["y"]), z=_f(row["z"]),
                     occ=_f(row["occupancy"]), bfac=_f(row["tempFactor"]), element=_s(row["element"]), charge=charge_value(row["charge"]), model=_i(row["model"]))
        elif fmt == "mmCIF":
            r = dict(record=_s(get(row, "group_PDB")), serial=_i(get(row, "id")), name=_s(get(row, "auth_atom_id", "label_atom_id")), altloc=_s(get(row, "label_alt_id")),
                     resname=_s(get(row, "auth_comp_id", "label_comp_id")), chain=_s(get(row, "auth_asym_id", "label_asym_id")),
                     resnum=_i(get(row, "auth_seq_id", "label_seq_id")), icode=_s(get(row, "pdbx_PDB_ins_code")),
                     x=_f(get(row, "Cartn_x")), y=_f(get(row, "Cartn_y")), z=_f(get(row, "Cartn_z")), occ=_f(get(row, "occupancy")), bfac=_f(get(row, "B_iso_or_equiv")),
                     element=_s(get(row, "type_symbol")), charge=charge_value(get(row, "pdbx_formal_charge")), model=_i(get(row, "pdbx_PDB_model_num")),
                     label_atom=_s(get(row, "label_atom_id")), label_comp=_s(get(row, "label_comp_id")), label_asym=_s(get(row, "label_asym_id")),
                     label_seq=_i(get(row, "label_seq_id")), label_entity=_s(get(row, "label_entity_id")))
        else:
            raise ValueError(f"table has format attribute {fmt!r}")
        out.append(r)
    return out


def truth_rows(recs):
    return [dict(record=r["record"], serial=r["serial"], name=r["name"], altloc=r["altloc"], resname=r["resname"], chain=r["chain"], resnum=r["resnum"],
                 icode=r["icode"], x=r["x"], y=r["y"], z=r["z"], occ=r["occ"], bfac=r["bfac"], element=r["element"], charge=r["charge"], model=r["model"],
                 label_atom=r["name"], label_comp=r["resname"], label_asym=r["label_asym"], label_seq=r["label_seq"], label_entity="1") for r in recs]


def same(field, a, b, zero_is_absent=False):
    if field in TOL:
        if a is None or b is None or isinstance(a, str) or isinstance(b, str):
            return a is None and b is None
        return abs(a - b) <= TOL[field] + 1e-9
    if field == "charge" and zero_is_absent:
        a, b = (None if a == 0 else a), (None if b == 0 else b)
    if field == "chain":  # a blank PDB chain column is the empty identifier
        a, b = (a or ""), (b or "")
    return a == b


def compare(tag, before, after, fields, zero_is_absent=False):
    """errors '<tag>:<field>: ...' (one per field, first offending row shown)"""
    if len(before) != len(after):
        return [f"{tag}:rows: {len(before)} atoms written, {len(after)} read back"]
    errs = []
    for f in fields:
        for k, (a, b) in enumerate(zip(before, after)):
            if not same(f, a.get(f), b.get(f), zero_is_absent):
                n = sum(not same(f, p.get(f), q_.get(f), zero_is_absent) for p, q_ in zip(before, after))
                errs.append(f"{tag}:{f}: row {k} (serial {a['serial']} {a['name']} {a['resname']} {a['chain']}{a['resnum']} model {a['model']}): {f} {a.get(f)!r} became {b.get(f)!r} ({n} of {len(before)} rows differ)")
                break
    return errs


def fits_pdb(rows):
    """our own statement of the PDB 3.3 field widths"""
    def ok(r):
        try:
            return (r["record"] in ("ATOM", "HETATM") and 0 <= r["serial"] <= 99998 and 1 <= len(r["name"]) <= 4 and " " not in r["name"] and len(r["altloc"] or "") <= 1
                    and 1 <= len(r["resname"]) <= 3 and len(r["chain"] or "") <= 1 and -999 <= r["resnum"] <= 9999 and len(r["icode"] or "") <= 1
                    and all(-999.9995 < r[c] < 9999.9995 for c in "xyz") and all(-99.995 < r[c] < 999.995 for c in ("occ", "bfac"))
                    and len(r["element"] or "") <= 2 and (r["charge"] is None or (isinstance(r["charge"], int) and abs(r["charge"]) <= 9)) and 0 <= r["model"] <= 9999)
        except TypeError:
            return False
    return all(ok(r) for r in rows)


# ------------------------------------------------------------------ fixed-column layout of written PDB text
REAL3 = re.compile(r" *-?\d+\.\d{3}")
REAL2 = re.compile(r" *-?\d+\.\d{2}")


def pdb_charge_text(c):
    if c is None or c == 0:
        return "  "
    if isinstance(c, int):
        return f"{abs(c)}{'+' if c > 0 else '-'}"
    return str(c)[:2].rjust(2)


def check_written_pdb(tag, text, rows):
    """-> {'layout': [...], 'model': [...], 'ter': [...]}; `rows` is the (normalised) table that was handed to write_pdb"""
    out = {"layout": [], "model": [], "ter": []}
    lay, mod, ter = out["layout"], out["model"], out["ter"]
    if not text.endswith("\n"):
        lay.append(f"layout:{tag}:no-final-newline: written PDB text does not end with a newline")
    lines = text.split("\n")
    if lines and lines[-1] == "":
        lines.pop()
    k = 0  # index of the next expected atom
    in_model = None
    prev_atom = None  # row of the atom on the previous line, if the previous line was an atom
    last_atom = None  # row of the last atom seen
    pending_chain_end = None  # row of the last atom of a chain whose TER is still expected on the very next line
    seen_models = []

    def need_ter(next_row):
        """the chain of last_atom ends before `next_row` (None = end of model / file)"""
        return last_atom is not None and (next_row is None or next_row["model"] != last_atom["model"] or (next_row["chain"] or "") != (last_atom["chain"] or ""))

    def flush_chain_end(where):
        nonlocal pending_chain_end
        if pending_chain_end is not None:
            r = pending_chain_end
            kind = "ter-missing-before-endmdl" if where == "ENDMDL" else "ter-missing-at-end" if where in ("END", "end of text") else "ter-missing-between-chains"
            if len(ter) < 3:
                ter.append(f"{kind}:{tag}: no TER record after chain {r['chain']!r} of model {r['model']} (last atom serial {r['serial']}); next record is {where}")
            pending_chain_end = None

    for ln, line in enumerate(lines, 1):
        rec = line[:6]
        if rec in ("ATOM  ", "HETATM"):
            if k >= len(rows):
                lay.append(f"layout:{tag}:extra-atom: line {ln}: more atom records than atoms in the table")
                break
            r = rows[k]
            if last_atom is not None and need_ter(r) and prev_atom is last_atom:
                # previous line was the last atom of its chain and this line is not a TER
                pending_chain_end = last_atom
                flush_chain_end(f"{rec.strip()} of chain {r['chain']!r}")
            if in_model is None or in_model != r["model"]:
                if len(mod) < 3:
                    mod.append(f"model-missing:{tag}: line {ln}: atom of model {r['model']} (serial {r['serial']}) is not inside MODEL {r['model']} ... ENDMDL (open model: {in_model})")
            errs = atom_line_errors(line, r)
            if errs and len(lay) < 4:
                lay.append(f"layout:{tag}:{errs[0][0]}: line {ln} {line!r}: {errs[0][1]}")
            k += 1
            prev_atom = last_atom = r
            nxt = rows[k] if k < len(rows) else None
            pending_chain_end = r if need_ter(nxt) else None
            continue
        if rec == "TER   " or line.startswith("TER"):
            e = ter_line_errors(line, prev_atom)
            if e and len(lay) < 4:
                kind = "ter-blank-chain" if prev_atom is not None and not prev_atom["chain"] else f"ter-{e[0][0]}"
                lay.append(f"layout:{tag}:{kind}: line {ln} {line!r}: {e[0][1]}")
            if prev_atom is not None and pending_chain_end is prev_atom:
                pending_chain_end = None
            prev_atom = None
            continue
        if line.startswith("MODEL"):
            flush_chain_end("MODEL")
            prev_atom = None
            num = int(line[10:14]) if re.fullmatch(r" *\d+", line[10:14]) and len(line[10:14]) == 4 else None
            if line[:6] != "MODEL " or num is None or line[6:10].strip() or line[14:].strip():
                mod.append(f"model-record:{tag}: line {ln} {line!r}: model serial must be an integer in columns 11-14")
            if in_model is not None:
                mod.append(f"model-nesting:{tag}: line {ln}: MODEL {num} opened while MODEL {in_model} is not closed by ENDMDL")
            in_model = num
            seen_models.append(num)
            continue
        if line.startswith("ENDMDL"):
            flush_chain_end("ENDMDL")
            prev_atom = None
            if in_model is None:
                mod.append(f"model-nesting:{tag}: line {ln}: ENDMDL without an open MODEL")
            if line.strip() != "ENDMDL":
                mod.append(f"model-record:{tag}: line {ln} {line!r}: ENDMDL record carries text")
            in_model = None
            last_atom = None
            continue
        if line.strip() == "END":
            flush_chain_end("END")
            prev_atom = None
            continue
        lay.append(f"layout:{tag}:unknown-record: line {ln} {line!r}")
    flush_chain_end("end of text")
    if k < len(rows):
        lay.append(f"layout:{tag}:missing-atoms: {k} atom records written for {len(rows)} atoms")
    if in_model is not None:
        mod.append(f"model-unclosed:{tag}: MODEL {in_model} is not closed by ENDMDL")
    want_models = [m for j, m in enumerate(r["model"] for r in rows) if j == 0 or rows[j - 1]["model"] != m]
    if not mod and seen_models != want_models:
        mod.append(f"model-sequence:{tag}: MODEL records {seen_models} for model runs {want_models} of the table")
    return out


def atom_line_errors(line, r):
    e = []
    if len(line) != 80:
        e.append(("length", f"{len(line)} columns instead of 80"))
        line = line.ljust(80)

    def want(name, lo, hi, text):
        if line[lo - 1:hi] != text:
            e.append((name, f"columns {lo}-{hi} hold {line[lo - 1:hi]!r}, expected {text!r} for {name}={r.get(name)!r}"))
    want("record", 1, 6, r["record"].ljust(6))
    want("serial", 7, 11, f"{r['serial']:>5}")
    want("col12", 12, 12, " ")
    if line[12:16].strip() != r["name"]:
        e.append(("name", f"columns 13-16 hold {line[12:16]!r}, expected atom name {r['name']!r}"))
    want("altloc", 17, 17, r["altloc"] or " ")
    if line[17:20].strip() != r["resname"]:
        e.append(("resname", f"columns 18-20 hold {line[17:20]!r}, expected residue name {r['resname']!r}"))
    want("col21", 21, 21, " ")
    want("chain", 22, 22, r["chain"] or " ")
    want("resnum", 23, 26, f"{r['resnum']:>4}")
    want("icode", 27, 27, r["icode"] or " ")
    want("col28-30", 28, 30, "   ")
    for name, lo, hi, rx, tol in (("x", 31, 38, REAL3, 0.001), ("y", 39, 46, REAL3, 0.001), ("z", 47, 54, REAL3, 0.001), ("occ", 55, 60, REAL2, 0.01), ("bfac", 61, 66, REAL2, 0.01)):
        s = line[lo - 1:hi]
        if not rx.fullmatch(s):
            e.append((name, f"columns {lo}-{hi} hold {s!r}, not a right-justified Real({hi - lo + 1}.{3 if rx is REAL3 else 2})"))
        elif r[name] is None or abs(float(s) - r[name]) > tol + 1e-9:
            e.append((name, f"columns {lo}-{hi} hold {s!r}, expected {r[name]!r}"))
    want("col67-76", 67, 76, " " * 10)
    want("element", 77, 78, (r["element"] or "").rjust(2))
    want("charge", 79, 80, pdb_charge_text(r["charge"]))
    return e


def ter_line_errors(line, prev):
    e = []
    if len(line) != 80:
        e.append(("length", f"{len(line)} columns instead of 80"))
        line = line.ljust(80)
    if line[:6] != "TER   ":
        e.append(("record", f"columns 1-6 hold {line[:6]!r}"))
    if not re.fullmatch(r" *\d+", line[6:11]):
        e.append(("serial", f"columns 7-11 hold {line[6:11]!r}, not a right-justified integer"))
    if line[11:17].strip():
        e.append(("col12-17", f"columns 12-17 hold {line[11:17]!r}, expected blanks"))
    if prev is None:
        e.append(("orphan", "TER record does not follow an atom record"))
        return e
    if line[17:20].strip() != prev["resname"]:
        e.append(("resname", f"columns 18-20 hold {line[17:20]!r}, expected {prev['resname']!r}"))
    if line[20] != " ":
        e.append(("col21", f"column 21 holds {line[20]!r}"))
    if line[21] != (prev["chain"] or " "):
        e.append(("chain", f"column 22 holds {line[21]!r}, expected chain {prev['chain']!r}"))
    if line[22:26] != f"{prev['resnum']:>4}":
        e.append(("resnum", f"columns 23-26 hold {line[22:26]!r}, expected {prev['resnum']:>4}"))
    if line[26] != (prev["icode"] or " "):
        e.append(("icode", f"column 27 holds {line[26]!r}, expected {prev['icode']!r}"))
    if line[27:].strip():
        e.append(("col28-80", f"columns 28-80 hold {line[27:].rstrip()!r}, expected blanks"))
    return e


# ------------------------------------------------------------------ the four paths
NOCHARGE = [f for f in FIELDS if f != "charge"]


def run_paths(tp, tc, truth, fits, blank_chain=False):
    """tp / tc: tables parsed from the PDB / mmCIF text of the same atoms (either may be None); truth: rows they must hold"""
    from rnapolis.parser_v2 import parse_cif_atoms, parse_pdb_atoms, write_cif, write_pdb
    res = {a: [] for a in ASPECTS}

    def add_written(tag, text, rows):
        w = check_written_pdb(tag, text, rows)
        for a in ("layout", "model", "ter"):
            res[a] += w[a]

    def guarded(path, f):
        try:
            f()
        except Exception as e:
            res[path].append(f"{path}:raised:{type(e).__name__}: {type(e).__name__}: {str(e)[:200]}")

    if tp is not None:
        rp = rows_of(tp)
        if truth is not None:
            res["pdb-pdb"] += compare("parse-pdb", truth, rp, NOCHARGE)
            res["charge"] += compare("parse-pdb", truth, rp, ["charge"], zero_is_absent=True)

        def pdb_pdb():
            text = write_pdb(tp)
            add_written("pdb-pdb", text, rp)
            back = rows_of(parse_pdb_atoms(text))
            res["pdb-pdb"] += compare("pdb-pdb", rp, back, NOCHARGE)
            res["charge"] += compare("pdb-pdb", rp, back, ["charge"], zero_is_absent=True)
        guarded("pdb-pdb", pdb_pdb)

        def pdb_cif_pdb():
            mid = parse_cif_atoms(write_cif(tp))
            rm = rows_of(mid)
            res["pdb-cif-pdb"] += compare("pdb-cif", rp, rm, NOCHARGE)
            res["charge"] += compare("pdb-cif", rp, rm, ["charge"], zero_is_absent=True)
            text = write_pdb(mid)
            add_written("pdb-cif-pdb", text, rm)
            back = rows_of(parse_pdb_atoms(text))
            res["pdb-cif-pdb"] += [e for e in compare("pdb-cif-pdb", rp, back, NOCHARGE) if not res["pdb-cif-pdb"]]
            res["charge"] += [e for e in compare("pdb-cif-pdb", rp, back, ["charge"], zero_is_absent=True) if not any(x.startswith("pdb-cif:") for x in res["charge"])]
        guarded("pdb-cif-pdb", pdb_cif_pdb)
    if tc is not None:
        rc = rows_of(tc)
        if truth is not None:
            res["cif-cif"] += compare("parse-cif", truth, rc, NOCHARGE + LABELS)
            res["charge"] += compare("parse-cif", truth, rc, ["charge"])

        def cif_cif():
            back = rows_of(parse_cif_atoms(write_cif(tc)))
            res["cif-cif"] += compare("cif-cif", rc, back, NOCHARGE + LABELS)
            res["charge"] += compare("cif-cif", rc, back, ["charge"])
        guarded("cif-cif", cif_cif)

        def cif_pdb_cif():
            text = write_pdb(tc)
            add_written("cif-pdb-cif", text, rc)
            mid = parse_pdb_atoms(text)
            rm = rows_of(mid)
            res["cif-pdb-cif"] += compare("cif-pdb", rc, rm, NOCHARGE)
            res["charge"] += compare("cif-pdb", rc, rm, ["charge"], zero_is_absent=True)
            back = rows_of(parse_cif_atoms(write_cif(mid)))
            res["cif-pdb-cif"] += [e for e in compare("cif-pdb-cif", rc, back, NOCHARGE) if not res["cif-pdb-cif"]]
            res["charge"] += [e for e in compare("cif-pdb-cif", rc, back, ["charge"], zero_is_absent=True) if not any(x.startswith("cif-pdb:") for x in res["charge"])]
        if fits:
            guarded("cif-pdb-cif", cif_pdb_cif)
    return res


@functools.lru_cache(maxsize=4096)
def synthetic(seed):
    rng = random.Random(seed)
    recs, info = T.make_table(rng, allow_blank_chain=(seed % 10 == 0))
    opts = dict(null_icode=rng.choice(["?", "."]), null_charge=rng.choice(["?", "."]), charge_column=info["charge"] or rng.random() < 0.7,
                auth_atom=rng.random() < 0.85)
    pdb = T.to_pdb(recs, model_records=(None if rng.random() < 0.7 else True), ter=rng.random() < 0.6)
    cif = None if info["blank_chain"] else T.to_cif(recs, **opts)
    return recs, info, pdb, cif


@functools.lru_cache(maxsize=4096)
def evaluate(case):
    """case: int seed (synthetic table) or corpus file name -> {aspect: [errors]}"""
    from rnapolis.parser_v2 import parse_cif_atoms, parse_pdb_atoms
    if isinstance(case, int):
        recs, info, pdb, cif = synthetic(case)
        truth = truth_rows(recs)
        assert fits_pdb(truth), "generator produced a table outside PDB limits"
        tp = parse_pdb_atoms(pdb)
        tc = parse_cif_atoms(cif) if cif is not None else None
        return run_paths(tp, tc, truth, True, blank_chain=info["blank_chain"])
    path = os.path.join(G.TESTS, case)
    with open(path) as f:
        text = f.read()
    if case.endswith(".pdb"):
        return run_paths(parse_pdb_atoms(text), None, None, True)
    tc = parse_cif_atoms(text)
    return run_paths(None, tc, None, fits_pdb(rows_of(tc)) and all(len(r["chain"] or "") == 1 for r in rows_of(tc)))


def info_of(case):
    if isinstance(case, int):
        return synthetic(case)[1]
    return {"corpus": True}


def aspect_oracle(aspect):
    def oracle(case):
        res = evaluate(case)
        # an exception escaping one path makes every aspect of that path unobservable: report it under the path only
        return res[aspect]
    return oracle


def replay_case(check, case):
    evaluate.cache_clear()
    if isinstance(case, str) and case.isdigit():
        case = int(case)
    return evaluate(case)[check]


# ------------------------------------------------------------------ the command line tool (observe_at: splitter.main)
def splitter_case(seed):
    """splitter.main in-process on the PDB and on the mmCIF text of a generated table within PDB limits, every output format:
    each written model file, read back by the reader of its format, holds exactly the rows of that model"""
    import contextlib, io, sys, tempfile
    from rnapolis import splitter
    from rnapolis.parser_v2 import parse_cif_atoms, parse_pdb_atoms
    recs, info, pdb, cif = synthetic(seed)
    truth = truth_rows(recs)
    errs = []
    with tempfile.TemporaryDirectory(prefix="c09-split-") as d:
        for src_fmt, text in (("pdb", pdb), ("cif", cif)):
            if text is None:
                continue
            src = os.path.join(d, f"t.{src_fmt}")
            with open(src, "w") as f:
                f.write(text)
            for out_fmt in ("PDB", "mmCIF", "keep"):
                if info["blank_chain"] and out_fmt == "mmCIF":
                    continue  # a blank chain identifier exists in PDB only
                out = os.path.join(d, f"out-{src_fmt}-{out_fmt}")
                argv, so, se = sys.argv, io.StringIO(), io.StringIO()
                try:
                    sys.argv = ["splitter", "--output", out, "--format", out_fmt, src]
                    with contextlib.redirect_stdout(so), contextlib.redirect_stderr(se):
                        try:
                            splitter.main()
                        except SystemExit as e:
                            if e.code not in (0, None):
                                errs.append(f"splitter {src_fmt}->{out_fmt}:exit: status {e.code}: {se.getvalue()[:160]}")
                                continue
                finally:
                    sys.argv = argv
                is_pdb = out_fmt == "PDB" or (out_fmt == "keep" and src_fmt == "pdb")
                for m in sorted({r["model"] for r in truth}):
                    want = [r for r in truth if r["model"] == m]
                    p = os.path.join(out, f"t_model_{m}." + ("pdb" if is_pdb else "cif"))
                    if not os.path.exists(p):
                        errs.append(f"splitter {src_fmt}->{out_fmt}:missing: no file for model {m}: {se.getvalue()[:200]}")
                        continue
                    with open(p) as f:
                        got = rows_of(parse_pdb_atoms(f.read()) if is_pdb else parse_cif_atoms(f.read()))
                    tag = f"splitter {src_fmt}->{out_fmt}"
                    errs += compare(tag, want, got, NOCHARGE)
                    errs += compare(tag, want, got, ["charge"], zero_is_absent=(is_pdb or src_fmt == "pdb"))
    return errs
