"""C18 oracle: four points with a prescribed dihedral (NeRF construction, independent of the code under test)."""
import math

import numpy as np


def nerf(a, b, c, length, theta, phi):
    """place D so that |CD| = length, angle BCD = theta, dihedral ABCD = phi (IUPAC sign)"""
    bc = (c - b) / np.linalg.norm(c - b)
    n = np.cross(b - a, bc)
    n /= np.linalg.norm(n)
    m = np.cross(n, bc)
    d2 = np.array([-length * math.cos(theta), length * math.sin(theta) * math.cos(phi), length * math.sin(theta) * math.sin(phi)])
    return c + d2[0] * bc + d2[1] * m + d2[2] * n


def random_rotation(rng):
    q = np.array([rng.gauss(0, 1) for _ in range(4)])
    q /= np.linalg.norm(q)
    w, x, y, z = q
    return np.array([[1 - 2 * (y * y + z * z), 2 * (x * y - z * w), 2 * (x * z + y * w)],
                     [2 * (x * y + z * w), 1 - 2 * (x * x + z * z), 2 * (y * z - x * w)],
                     [2 * (x * z - y * w), 2 * (y * z + x * w), 1 - 2 * (x * x + y * y)]])


def build(rng, phi, wide=False):
    if wide:
        # "independent of bond lengths, bond angles ... on every non-degenerate input": far outside the chemical range but still
        # well inside both implementations' own collinearity guards (|b1 x b2| >= 0.04 * 0.04 * sin 0.3 deg = 8e-6 > 1e-6)
        l1, l2, l3 = (rng.choice([rng.uniform(0.04, 0.2), rng.uniform(0.2, 0.8), rng.uniform(2.5, 40.0)]) for _ in range(3))
        t1, t2 = (math.radians(rng.choice([rng.uniform(0.3, 20), rng.uniform(160, 179.7), rng.uniform(20, 160)])) for _ in range(2))
    else:
        l1, l2, l3 = (rng.uniform(0.8, 2.5) for _ in range(3))
        t1, t2 = (math.radians(rng.uniform(20, 160)) for _ in range(2))
    a = np.array([0.0, 0.0, 0.0])
    b = np.array([l1, 0.0, 0.0])
    c = b + l2 * np.array([-math.cos(t1), math.sin(t1), 0.0])
    d = nerf(a, b, c, l3, t2, phi)
    R = random_rotation(rng)
    t = np.array([rng.uniform(-300, 300) for _ in range(3)])
    return [R @ p + t for p in (a, b, c, d)]


def angdiff(a, b):
    d = (a - b + math.pi) % (2 * math.pi) - math.pi
    return abs(d)


def check_case(case):
    """case = (phi, seed) -> list of (signature, message)"""
    import random
    from rnapolis.tertiary import calculate_torsion_angle_coords as t1
    from rnapolis.tertiary_v2 import calculate_torsion_angle as t2
    phi, seed, *rest = case
    rng = random.Random(seed)
    pts = build(rng, phi, wide=bool(rest))
    out = []
    tol = 1e-6
    r1 = t1(*pts)
    r2 = float(t2(*pts))
    if not (-math.pi - 1e-12 <= r1 <= math.pi + 1e-12) or angdiff(r1, phi) > tol:
        out.append(("torsion-v1:wrong", f"tertiary.calculate_torsion_angle_coords returned {r1} for constructed dihedral {phi}"))
    if math.isnan(r1) or math.isnan(r2):
        out.append(("torsion:nan", f"NaN for a non-degenerate constructed dihedral {phi}: v1 {r1}, v2 {r2}"))
    if angdiff(r2, phi) > tol:
        if angdiff(r2, -phi) <= tol and abs(math.sin(phi)) > 1e-5:
            out.append(("torsion-v2:negated", f"tertiary_v2.calculate_torsion_angle returned {r2} = -phi for constructed dihedral {phi}"))
        else:
            out.append(("torsion-v2:other", f"tertiary_v2.calculate_torsion_angle returned {r2} for constructed dihedral {phi}"))
    # reversal keeps, mirror negates (for each implementation separately, so a sign convention error does not mask them)
    rev = pts[::-1]
    mir = [p * np.array([1.0, 1.0, -1.0]) for p in pts]
    for name, f, r in (("v1", t1, r1), ("v2", lambda *a: float(t2(*a)), r2)):
        if not angdiff(f(*rev), r) <= tol:
            out.append((f"torsion-{name}:reversal", f"{name}: reversing the point order changed the value"))
        if not angdiff(f(*mir), -r) <= tol:
            out.append((f"torsion-{name}:mirror", f"{name}: mirroring did not negate the value"))
    return out


def planar_cases():
    """exactly coplanar integer / 3-decimal point sets (no rotation applied, so the sine term is exactly 0.0): cis -> 0, trans -> pi"""
    import itertools
    out = []
    base = {"trans": [(0, 1, 0), (0, 0, 0), (1, 0, 0), (1, -1, 0)], "cis": [(0, 1, 0), (0, 0, 0), (1, 0, 0), (1, 1, 0)],
            "trans-skew": [(-1, 2, 0), (0, 0, 0), (3, 0, 0), (5, -1, 0)], "cis-skew": [(-1, 2, 0), (0, 0, 0), (3, 0, 0), (4, 3, 0)]}
    for name, pts in base.items():
        for perm in itertools.permutations(range(3)):
            for scale in (1.0, 1.5, 0.001):
                for shift in ((0, 0, 0), (10, -20, 30)):
                    out.append((name, [tuple(scale * p[perm[k]] + shift[k] for k in range(3)) for p in pts]))
    return out


def check_planar(case):
    from rnapolis.tertiary import calculate_torsion_angle_coords as t1
    from rnapolis.tertiary_v2 import calculate_torsion_angle as t2
    name, pts = case
    want = math.pi if name.startswith("trans") else 0.0
    pts = [np.array(p, dtype=float) for p in pts]
    out = []
    for tag, f in (("v1", t1), ("v2", lambda *a: float(t2(*a)))):
        r = f(*pts)
        if not angdiff(r, want) <= 1e-6:  # NaN is a failure too
            out.append(f"torsion-{tag}:planar {name}: got {r}, expected {want} for exactly coplanar points {[tuple(p) for p in pts]}")
    return out


# ------------------------------------------------------------------ glycosidic chi of the residues of a structure
def iupac_dihedral(p0, p1, p2, p3):
    """IUPAC torsion of four points (own formula: atan2 of the scalar triple product and the dot product of the two plane normals)"""
    b0, b1, b2 = p1 - p0, p2 - p1, p3 - p2
    n1, n2 = np.cross(b0, b1), np.cross(b1, b2)
    return math.atan2(float(np.dot(np.cross(n1, n2), b1 / np.linalg.norm(b1))), float(np.dot(n1, n2)))


def check_chi(path):
    """Residue3D.chi of every nucleotide of a corpus structure, under its own letter and under letters that say neither purine nor
    pyrimidine ('N', '?', 'x'): the IUPAC torsion O4'-C1'-N9-C4 when the base is bonded through N9 (a purine: the atoms are there),
    else O4'-C1'-N1-C2, NaN when the quadruple is incomplete"""
    from gen import structures as G
    from rnapolis.tertiary import Residue3D
    errs = []
    for r in G.load(path).residues[:60]:
        pos = {}
        for a in r.atoms:
            pos.setdefault(a.name, np.array([a.x, a.y, a.z]))
        if "C1'" not in pos or "O4'" not in pos:
            continue
        for letter in (r.one_letter_name, "N", "?", "x"):
            up = letter.upper()
            if up in ("A", "G"):
                quad = ["O4'", "C1'", "N9", "C4"]
            elif up in ("C", "U", "T"):
                quad = ["O4'", "C1'", "N1", "C2"]
            else:
                quad = ["O4'", "C1'", "N9", "C4"] if all(n in pos for n in ("N9", "C4")) else ["O4'", "C1'", "N1", "C2"]
            want = iupac_dihedral(*[pos[n] for n in quad]) if all(n in pos for n in quad) else math.nan
            got = Residue3D(r.label, r.auth, r.model, letter, r.atoms).chi
            if math.isnan(want) != math.isnan(got) or (not math.isnan(want) and abs(angdiff(want, got)) > 1e-6):
                errs.append(f"{r.full_name} as '{letter}': chi {got} instead of the IUPAC torsion {'-'.join(quad)} = {want}")
                break
    return errs[:5]
