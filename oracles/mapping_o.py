"""C06 oracle: 3D -> 2D mapping for arbitrary pair lists."""
import random

from gen.pairings import decode

CANON_SAENGER = {"XIX", "XX", "XXVIII"}
LWS = ["cWW", "cWW", "cWW", "tWW", "cWH", "tHS", "cSW", "tSS", "cHW", "tWH"]


def lw_reverse(lw):
    return lw[0] + lw[2] + lw[1]


def connected(a, b):
    import numpy as np
    o3 = next((x for x in a.atoms if x.name == "O3'"), None)
    p = next((x for x in b.atoms if x.name == "P"), None)
    if o3 is None or p is None:
        return False
    return float(np.linalg.norm(np.array([o3.x - p.x, o3.y - p.y, o3.z - p.z]))) < 2.4


def expected_sequence(structure, find_gaps):
    """[(letter, residue or None)] in file order with '?' placeholders"""
    nts = [r for r in structure.residues if r.is_nucleotide]
    out = []
    for k, r in enumerate(nts):
        if find_gaps and k > 0:
            prev = nts[k - 1]
            if prev.chain == r.chain and not connected(prev, r):
                out += [("?", None)] * max(0, r.number - prev.number - 1)
        out.append((r.one_letter_name, r))
    return out, nts


def with_icode_twins(structure, rng):
    """the same structure as a PDB-style one (no label identity) in which a few residues are renumbered to the number of
    their predecessor plus an insertion code (N, N^A, N^B ...): identities then differ in the insertion code only"""
    from rnapolis.common import ResidueAuth
    from gen import structures as G
    n = len(structure.residues)
    picks = set(rng.sample(range(1, n), min(n - 1, rng.randint(1, 4)))) if n > 1 else set()
    state = {"k": -1, "prev": None, "code": 0}

    def ident(label, auth):
        state["k"] += 1
        if auth is None:
            return label, auth
        if state["k"] in picks and state["prev"] is not None and state["prev"].chain == auth.chain:
            state["code"] += 1
            new = ResidueAuth(auth.chain, state["prev"].number, "ABCDEFGH"[(state["code"] - 1) % 8], auth.name)
        else:
            state["code"] = 0
            new = ResidueAuth(auth.chain, auth.number, auth.icode, auth.name)
            state["prev"] = new
        return None, new
    return G.rebuild(structure, ident_fn=ident)


def make_pairs(structure, rng):
    """random list of (i, j, lw) over nucleotide indices with duplicates, reversals, multiplets and dangling entries"""
    nts = [r for r in structure.residues if r.is_nucleotide]
    n = len(nts)
    entries = []
    if n < 2:
        return nts, entries
    for _ in range(rng.randint(1, min(30, 2 * n))):
        i, j = rng.sample(range(n), 2)
        entries.append((i, j, rng.choice(LWS)))
    # multiplets: one residue with 3-4 partners in one class
    if n >= 5:
        hub = rng.randrange(n)
        for j in rng.sample([x for x in range(n) if x != hub], rng.randint(3, 4)):
            entries.append((hub, j, rng.choice(["cWW", "tHS"])) if rng.random() < .8 else (j, hub, "cWW"))
    # exact and reversed duplicates
    for e in list(entries):
        u = rng.random()
        if u < .15:
            entries.append(e)
        elif u < .3:
            entries.append((e[1], e[0], lw_reverse(e[2])))
    # dangling
    for _ in range(rng.randint(0, 3)):
        entries.append((rng.randrange(n), -1, "cWW") if rng.random() < .5 else (-1, rng.randrange(n), "tWW"))
    rng.shuffle(entries)
    return nts, entries


def check_case(case):
    from rnapolis.common import BasePair, LeontisWesthof, Residue, ResidueAuth, Saenger
    from rnapolis.tertiary import Mapping2D3D
    from gen import structures as G
    from spec.tables import SAENGER
    path, seed, find_gaps, with_saenger = case
    rng = random.Random(seed)
    s = G.load(path)
    u0 = rng.random()
    if u0 < 0.4:
        s = with_icode_twins(s, rng)
    elif u0 < 0.6:
        s = G.reorder(s, rng, "interleaved")  # a chain id that re-appears after another chain's residues
    nts, entries = make_pairs(s, rng)
    if not entries:
        return []
    ghost = Residue(None, ResidueAuth("Zz", 9999, None, "G"))

    # naming style per residue, fixed for the whole list: label+auth (own annotation), label only, or auth only (external tools).
    # (Naming ONE residue in two ways inside one list is outside the property as read here: the library orients and
    # de-duplicates pairs by the names they carry - see C06 ASSUMPTIONS.)
    style = [rng.random() for _ in nts]
    objects = rng.random() < 0.4   # lists of an external-tool import whose residues are the structure's own Residue3D objects
    import dataclasses
    ghost3d = dataclasses.replace(nts[0], label=None, auth=ResidueAuth("Zz", 9999, None, "G")) if nts else None
    external = rng.random() < 0.4  # route: adapter.extract_secondary_structure_from_external instead of Mapping2D3D directly

    def res(i):
        if objects:
            # the structure's own residue objects (what the DSSR import hands over); a dangling entry names a residue object of
            # another structure.  One list holds EITHER names (Residue) OR objects (Residue3D): no importer mixes the two kinds, and
            # comparing a Residue3D with a plain Residue raises AttributeError (no `model`) - outside the property as read here
            return ghost3d if i < 0 else nts[i]
        if i < 0:
            return ghost
        if nts[i].label is not None and nts[i].auth is not None and style[i] < 0.3:
            return Residue(nts[i].label, None) if style[i] < 0.15 else Residue(None, nts[i].auth)
        return Residue(nts[i].label, nts[i].auth)

    def saenger(i, j, lw):
        if not with_saenger or i < 0 or j < 0:
            return None
        v = SAENGER.get((nts[i].one_letter_name + nts[j].one_letter_name, lw))
        return Saenger[v] if v else None
    bps = [BasePair(res(i), res(j), LeontisWesthof[lw], saenger(i, j, lw)) for i, j, lw in entries]
    errs = []
    if external:
        from rnapolis.adapter import extract_secondary_structure_from_external
        from rnapolis.common import BaseInteractions
        try:
            s2d, _, m = extract_secondary_structure_from_external(s, BaseInteractions(bps, [], [], [], []), None, find_gaps)
        except Exception as e:
            return [f"extract_secondary_structure_from_external raised {type(e).__name__}: {e}"]
        if (s2d.bpseq, s2d.dotBracket, s2d.extendedDotBracket) != (str(m.bpseq), m.dot_bracket, m.extended_dot_bracket):
            errs.append("external route: the Structure2D texts are not those of the mapping it returns")
    else:
        m = Mapping2D3D(s, bps, [], find_gaps)
    seq, _ = expected_sequence(s, find_gaps)
    index_of = {id(r): k + 1 for k, (_, r) in enumerate(seq) if r is not None}
    try:
        b = m.bpseq
        text_db = m.dot_bracket
        ext = m.extended_dot_bracket
    except Exception as e:
        return [f"raised {type(e).__name__}: {e}"]
    # numbering and letters
    got_seq = [(e.index_, e.sequence) for e in b.entries]
    if got_seq != [(k + 1, c) for k, (c, _) in enumerate(seq)]:
        errs.append(f"BPSEQ numbering/letters {got_seq[:8]}.. != nucleotides in file order with placeholders {[(k + 1, c) for k, (c, _) in enumerate(seq)][:8]}..")
        return errs
    n = len(seq)
    pairs = {(e.index_, e.pair) for e in b.entries if e.pair}
    for (i, j) in pairs:
        if (j, i) not in pairs or i == j or not (1 <= j <= n):
            errs.append(f"BPSEQ pairing not symmetric at {i}-{j}")
    # canonical input pairs as unordered index pairs
    key = lambda r: (r.chain, r.number, r.icode or " ")

    def canonical(i, j, lw):
        sg = saenger(i, j, lw)
        if sg is not None:
            return sg.value in CANON_SAENGER
        return lw == "cWW" and "".join(sorted([nts[i].one_letter_name.upper(), nts[j].one_letter_name.upper()])) in ("AU", "AT", "CG", "GU")
    canon = set()
    for i, j, lw in entries:
        if i >= 0 and j >= 0 and key(nts[i]) != key(nts[j]) and canonical(i, j, lw):
            canon.add(frozenset((index_of[id(nts[i])], index_of[id(nts[j])])))
    up = {frozenset(p) for p in pairs}
    for p in up:
        if p not in canon:
            errs.append(f"BPSEQ pair {sorted(p)} is not among the canonical input pairs")
    for p in canon:
        if all(q == p or not (p & q) for q in canon) and p not in up:
            errs.append(f"canonical pair {sorted(p)} conflicts with no other but is missing from the BPSEQ")
    # per-strand text
    lines = text_db.splitlines()
    seqs, dbns = lines[1::3], lines[2::3]
    if "".join(seqs) != "".join(c for c, _ in seq):
        errs.append("per-strand sequences do not concatenate to the BPSEQ sequence")
    dec = decode("".join(dbns))
    if dec is None or {frozenset(p) for p in dec} != up:
        errs.append(f"per-strand dot-bracket does not decode to the BPSEQ matching")
    # extended rows
    blocks, cur = [], None
    for ln in ext.splitlines():
        if ln.strip().startswith(">strand"):
            cur = []
            blocks.append(cur)
        elif cur is not None:
            cur.append(ln)
    nrows = {len(bk) for bk in blocks}
    if len(nrows) > 1:
        errs.append("extended dot-bracket: strands have different numbers of rows")
        return errs
    want = {}
    for i, j, lw in entries:
        if i < 0 or j < 0:
            continue
        a, c = nts[i], nts[j]
        # orientation is that of the names the list carries (Residue order: chain, number, insertion code of the auth
        # identity if named, else of the label identity) - the class of a row is stated for the lower-named residue first
        nkey = lambda r_: (r_.chain, r_.number, r_.icode or " ")
        if nkey(res(i)) > nkey(res(j)):
            a, c, lw = c, a, lw_reverse(lw)
        elif nkey(res(i)) == nkey(res(j)):
            continue
        want.setdefault(lw, set()).add(tuple(sorted((index_of[id(a)], index_of[id(c)]))))
    got = {}
    for k in range(1, (nrows.pop() if nrows else 0)):
        labels = {bk[k].split(" ", 1)[0] for bk in blocks}
        row = "".join(bk[k].split(" ", 1)[1] if " " in bk[k] else "" for bk in blocks)
        if len(labels) != 1:
            errs.append("extended row labels differ between strands")
            continue
        lw = labels.pop()
        if len(row) != n:
            errs.append(f"extended row {lw} has length {len(row)} != {n}")
            continue
        d = decode(row)
        if d is None:
            errs.append(f"extended row {lw} is not balanced: {row}")
            continue
        for p in d:
            if p in got.setdefault(lw, set()):
                errs.append(f"pair {p} encoded twice under {lw}")
            got[lw].add(p)
    if got != want:
        for lw in set(got) | set(want):
            if got.get(lw, set()) != want.get(lw, set()):
                errs.append(f"extended rows of {lw}: encoded {sorted(got.get(lw, set()))[:6]} != distinct input pairs {sorted(want.get(lw, set()))[:6]}")
                break
    return errs
